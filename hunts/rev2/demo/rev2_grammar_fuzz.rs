//! 33f16e497 / 44615221d / fbe0bf77e: the query grammar, strict and lenient, on generated queries.
//!
//! Queries are generated with a placeholder for the separators. The placeholder is then replaced
//! by a blank, a tab, a newline, U+00A0 and U+3000:
//! - no variant may panic or hang,
//! - all variants must give the same AST as the variant with blanks.
use std::sync::mpsc;
use std::time::Duration;

use tantivy::query_grammar::{parse_query, parse_query_lenient};

const SEP: char = '\u{1}';

struct Lcg(u64);
impl Lcg {
    fn next(&mut self) -> u64 {
        self.0 = self
            .0
            .wrapping_mul(6364136223846793005)
            .wrapping_add(1442695040888963407);
        self.0 >> 33
    }
    fn pick<'a>(&mut self, items: &[&'a str]) -> &'a str {
        items[(self.next() % items.len() as u64) as usize]
    }
}

const TOKENS: &[&str] = &[
    "a", "b", "title:", "title:a", "AND", "OR", "NOT", "IN", "[", "]", "{", "}", "TO", "*", "+",
    "-", "(", ")", "\"a\"", "\"a\"~1", "\"ab\"*", "^2", "a*", "f:*", "/r/", ">", "<=", "1", "'x'",
    ":", "~", "b:(", "IN[", "[a", "c]", "+*", "-*", "title:IN",
];

/// Same without anything that contains a colon: a field name swallows every white space but the
/// blank in front of it (see `field_name_after_a_newline`).
const TOKENS_NO_FIELD: &[&str] = &[
    "a", "b", "AND", "OR", "NOT", "IN", "[", "]", "{", "}", "TO", "*", "+", "-", "(", ")", "\"a\"",
    "\"a\"~1", "\"ab\"*", "^2", "a*", "/r/", ">", "<=", "1", "'x'", "~", "IN[", "[a", "c]", "+*",
    "-*",
];

fn generate(rng: &mut Lcg, tokens: &[&str]) -> String {
    let num_tokens = 1 + rng.next() % 7;
    let mut query = String::new();
    for _ in 0..num_tokens {
        query.push_str(rng.pick(tokens));
        match rng.next() % 4 {
            0 => {}
            1 => {
                query.push(SEP);
                query.push(SEP);
            }
            _ => query.push(SEP),
        }
    }
    query
}

fn run_with_timeout(query: String) -> Result<(String, String), String> {
    let (sender, receiver) = mpsc::channel();
    let query_clone = query.clone();
    std::thread::spawn(move || {
        let res = std::panic::catch_unwind(|| {
            let strict = format!("{:?}", parse_query(&query_clone).ok());
            let (ast, _errors) = parse_query_lenient(&query_clone);
            let lenient = format!("{ast:?}");
            (strict, lenient)
        });
        let _ = sender.send(res.map_err(|_| "panic".to_string()));
    });
    match receiver.recv_timeout(Duration::from_secs(5)) {
        Ok(res) => res,
        Err(_) => Err("timeout".to_string()),
    }
}

fn check(whitespace: &str, name: &str, tokens: &[&str]) {
    std::panic::set_hook(Box::new(|_| {}));
    let mut rng = Lcg(42);
    let mut failures: Vec<String> = Vec::new();
    for _ in 0..6_000 {
        let template = generate(&mut rng, tokens);
        let reference = template.replace(SEP, " ");
        let variant = template.replace(SEP, whitespace);
        let reference_res = run_with_timeout(reference.clone());
        let variant_res = run_with_timeout(variant.clone());
        match (&reference_res, &variant_res) {
            (Ok(reference_asts), Ok(variant_asts)) => {
                if reference_asts.0 != variant_asts.0 {
                    failures.push(format!(
                        "STRICT {reference:?} -> {} BUT {variant:?} -> {}",
                        reference_asts.0, variant_asts.0
                    ));
                } else if reference_asts.1 != variant_asts.1 {
                    failures.push(format!(
                        "LENIENT {reference:?} -> {} BUT {variant:?} -> {}",
                        reference_asts.1, variant_asts.1
                    ));
                }
            }
            (Err(err), _) => failures.push(format!("{reference:?}: {err}")),
            (_, Err(err)) => failures.push(format!("{variant:?}: {err}")),
        }
        if failures.len() > 40 {
            break;
        }
    }
    let _ = std::panic::take_hook();
    assert!(
        failures.is_empty(),
        "{name}: {} failures:\n{}",
        failures.len(),
        failures.join("\n")
    );
}

#[test]
fn tab_is_a_separator_like_blank() {
    check("\t", "tab", TOKENS_NO_FIELD);
}

#[test]
fn newline_is_a_separator_like_blank() {
    check("\n", "newline", TOKENS_NO_FIELD);
}

#[test]
fn nbsp_is_a_separator_like_blank() {
    check("\u{a0}", "U+00A0", TOKENS_NO_FIELD);
}

#[test]
fn ideographic_space_is_a_separator_like_blank() {
    check("\u{3000}", "U+3000", TOKENS_NO_FIELD);
}

/// fbe0bf77e / 44615221d: white space other than the blank is still not a separator in front of
/// a field name: `field_name` only excludes ' ' (SPECIAL_CHARS), so the previous word and the
/// white space are swallowed into the field name.
#[test]
fn white_space_in_front_of_a_field_name_is_a_separator() {
    let mut failures = Vec::new();
    for whitespace in ["\t", "\n", "\u{a0}", "\u{3000}"] {
        for template in ["a\u{1}title:b", "a AND b\u{1}title:c", "title:a\u{1}body:b"] {
            let reference = template.replace(SEP, " ");
            let variant = template.replace(SEP, whitespace);
            let strict_reference = format!("{:?}", parse_query(&reference).ok());
            let strict_variant = format!("{:?}", parse_query(&variant).ok());
            if strict_reference != strict_variant {
                failures.push(format!(
                    "STRICT {reference:?} -> {strict_reference} BUT {variant:?} -> \
                     {strict_variant}"
                ));
            }
            let lenient_reference = format!("{:?}", parse_query_lenient(&reference).0);
            let lenient_variant = format!("{:?}", parse_query_lenient(&variant).0);
            if lenient_reference != lenient_variant {
                failures.push(format!(
                    "LENIENT {reference:?} -> {lenient_reference} BUT {variant:?} -> \
                     {lenient_variant}"
                ));
            }
        }
    }
    assert!(failures.is_empty(), "{}", failures.join("\n"));
}

/// Same property as the other tests with field names in the generated queries. Fails for the
/// same reason as `white_space_in_front_of_a_field_name_is_a_separator`.
#[test]
#[ignore]
fn ideographic_space_is_a_separator_like_blank_with_fields() {
    check("\u{3000}", "U+3000", TOKENS);
}

/// No panic and no endless loop, whatever the query (fields, escapes, all kinds of white space).
#[test]
fn no_panic_no_hang() {
    std::panic::set_hook(Box::new(|_| {}));
    let mut tokens: Vec<&str> = TOKENS.to_vec();
    tokens.extend_from_slice(&["\\", "\u{3000}", "\u{a0}", "\t", "\n", "\u{2028}", "'", "\"", "/", "IN [", "~1", "^"]);
    let mut rng = Lcg(4242);
    let mut failures: Vec<String> = Vec::new();
    for _ in 0..20_000 {
        let query = generate(&mut rng, &tokens).replace(SEP, " ");
        if let Err(err) = run_with_timeout(query.clone()) {
            failures.push(format!("{query:?}: {err}"));
            if failures.len() > 20 {
                break;
            }
        }
    }
    let _ = std::panic::take_hook();
    assert!(failures.is_empty(), "{}", failures.join("\n"));
}
