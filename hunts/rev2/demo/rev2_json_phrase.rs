//! ce4fc5334: slop / prefix of a quoted phrase on JSON fields, end to end.
use tantivy::collector::{Count, DocSetCollector};
use tantivy::query::QueryParser;
use tantivy::schema::{Schema, STORED, TEXT};
use tantivy::{Index, IndexWriter, TantivyDocument};

fn setup() -> (Index, QueryParser, QueryParser) {
    let mut schema_builder = Schema::builder();
    let js = schema_builder.add_json_field("js", TEXT | STORED);
    let text = schema_builder.add_text_field("text", TEXT);
    let schema = schema_builder.build();
    let index = Index::create_in_ram(schema.clone());
    let mut writer: IndexWriter = index.writer_with_num_threads(1, 50_000_000).unwrap();
    for (json, txt) in [
        (r#"{"t": "big bad wolf", "n": 5}"#, "big bad wolf"),
        (r#"{"t": "big wolf"}"#, "big wolf"),
        (r#"{"t": "big bad woman", "u": "bad wolf"}"#, "big bad woman"),
        (r#"{"t": ["big", "bad wolf"]}"#, "x"),
        (r#"{"u": "big bad wolf"}"#, "y"),
        (r#"{"t": {"x": "big bad wolf"}}"#, "z"),
    ] {
        let doc = TantivyDocument::parse_json(
            &schema,
            &format!(r#"{{"js": {json}, "text": "{txt}"}}"#),
        )
        .unwrap();
        writer.add_document(doc).unwrap();
    }
    writer.commit().unwrap();
    let parser_no_default = QueryParser::for_index(&index, vec![]);
    let parser_default = QueryParser::for_index(&index, vec![js, text]);
    (index, parser_no_default, parser_default)
}

fn docs(index: &Index, parser: &QueryParser, query: &str) -> Vec<u32> {
    let searcher = index.reader().unwrap().searcher();
    let query = parser.parse_query(query).unwrap();
    let mut docs: Vec<u32> = searcher
        .search(&query, &DocSetCollector)
        .unwrap()
        .into_iter()
        .map(|addr| addr.doc_id)
        .collect();
    docs.sort();
    let count = searcher.search(&query, &Count).unwrap();
    assert_eq!(count, docs.len());
    docs
}

#[test]
fn json_phrase_variants() {
    let (index, parser, parser_default) = setup();
    assert_eq!(docs(&index, &parser, r#"js.t:"big bad wolf""#), vec![0]);
    assert_eq!(docs(&index, &parser, r#"text:"big wolf"~1"#), vec![0, 1]);
    assert_eq!(docs(&index, &parser, r#"js.t:"big wolf"~1"#), vec![0, 1]);
    assert_eq!(docs(&index, &parser, r#"text:"big bad wo"*"#), vec![0, 2]);
    assert_eq!(docs(&index, &parser, r#"js.t:"big bad wo"*"#), vec![0, 2]);
    assert_eq!(docs(&index, &parser, r#"js.t:"bad wo"*"#), vec![0, 2, 3]);
    assert_eq!(docs(&index, &parser, r#"js.u:"bad wo"*"#), vec![2, 4]);
    assert_eq!(docs(&index, &parser, r#"js.t.x:"bad wo"*"#), vec![5]);
    // default fields: js (path t) and text
    assert_eq!(docs(&index, &parser_default, r#"t:"big bad wo"*"#), vec![0, 2]);
    assert_eq!(docs(&index, &parser_default, r#"t:"big wolf"~1"#), vec![0, 1]);
    // The prefix must not leak into the next path / the next type of the same path.
    assert_eq!(docs(&index, &parser, r#"js.t:"big ba"*"#), vec![0, 2]);
    assert_eq!(docs(&index, &parser, r#"js.t:"bad w"*"#), vec![0, 2, 3]);
}

#[test]
fn json_single_term_quoted_still_works() {
    let (index, parser, parser_default) = setup();
    assert_eq!(docs(&index, &parser, r#"js.t:"wolf""#), vec![0, 1, 3]);
    assert_eq!(docs(&index, &parser, r#"js.n:"5""#), vec![0]);
    assert_eq!(docs(&index, &parser, r#"js.n:5"#), vec![0]);
    assert_eq!(docs(&index, &parser, r#"js.t:"wolf"~2"#), vec![0, 1, 3]);
    assert!(parser.parse_query(r#"js.t:"wo"*"#).is_err());
    assert!(parser.parse_query(r#"text:"wo"*"#).is_err());
    // lenient
    let (_query, errors) = parser_default.parse_query_lenient(r#"t:"wo"*"#);
    assert!(!errors.is_empty());
}
