//! C17: documents without a sort value must come first (asc) in every merged segment.
use tantivy::indexer::NoMergePolicy;
use tantivy::schema::{Schema, FAST, STORED};
use tantivy::{Index, IndexSettings, IndexSortByField, IndexWriter, Order, TantivyDocument};

fn first_values(index: &Index) -> Vec<Vec<Option<u64>>> {
    let reader = index.reader().unwrap();
    reader.reload().unwrap();
    let searcher = reader.searcher();
    searcher
        .segment_readers()
        .iter()
        .map(|seg| {
            let col = seg.fast_fields().u64("sortv").unwrap();
            (0..seg.max_doc()).map(|d| col.first(d)).collect()
        })
        .collect()
}

fn run(order: Order) -> Vec<Option<u64>> {
    let mut sb = Schema::builder();
    let sortv = sb.add_u64_field("sortv", FAST | STORED);
    let id = sb.add_u64_field("id", FAST | STORED);
    let schema = sb.build();
    let index = Index::builder()
        .schema(schema)
        .settings(IndexSettings {
            sort_by_field: Some(IndexSortByField {
                field: "sortv".to_string(),
                order,
            }),
            ..Default::default()
        })
        .create_in_ram()
        .unwrap();
    let mut writer: IndexWriter = index.writer_with_num_threads(1, 20_000_000).unwrap();
    writer.set_merge_policy(Box::new(NoMergePolicy));
    // segment A: values 1, (2,3)
    let mut d = TantivyDocument::default();
    d.add_u64(id, 0);
    d.add_u64(sortv, 1);
    writer.add_document(d).unwrap();
    let mut d = TantivyDocument::default();
    d.add_u64(id, 1);
    d.add_u64(sortv, 2);
    d.add_u64(sortv, 3);
    writer.add_document(d).unwrap();
    writer.commit().unwrap();
    // segment B: no value, (5,6)
    let mut d = TantivyDocument::default();
    d.add_u64(id, 2);
    writer.add_document(d).unwrap();
    let mut d = TantivyDocument::default();
    d.add_u64(id, 3);
    d.add_u64(sortv, 5);
    d.add_u64(sortv, 6);
    writer.add_document(d).unwrap();
    writer.commit().unwrap();
    println!("before merge: {:?}", first_values(&index));
    let ids = index.searchable_segment_ids().unwrap();
    assert_eq!(ids.len(), 2);
    writer.merge(&ids).wait().unwrap();
    let segs = first_values(&index);
    println!("after merge: {segs:?}");
    assert_eq!(segs.len(), 1);
    segs.into_iter().next().unwrap()
}

#[test]
fn doc_without_value_is_first_after_merge_asc() {
    let merged = run(Order::Asc);
    assert_eq!(merged, vec![None, Some(1), Some(2), Some(5)]);
}

#[test]
fn doc_without_value_is_last_after_merge_desc() {
    let merged = run(Order::Desc);
    assert_eq!(merged, vec![Some(5), Some(2), Some(1), None]);
}
