//! Model based check of columnar merges (C08) - exploration harness.
#![allow(dead_code)]

use std::collections::BTreeMap;
use std::net::Ipv6Addr;

use columnar::{
    Cardinality, Column, ColumnType, ColumnarReader, ColumnarWriter, DynamicColumn, MergeRowOrder,
    NumericalValue, RowAddr, ShuffleMergeOrder, StackMergeOrder,
};
use common::{BitSet, DateTime, OwnedBytes, ReadOnlyBitSet};

#[derive(Clone, Debug, PartialEq)]
pub enum Val {
    I64(i64),
    U64(u64),
    F64(f64),
    Bool(bool),
    Ip(u128),
    Date(i64),
    Str(String),
    Bytes(Vec<u8>),
}

pub struct Rng(u64);
impl Rng {
    pub fn new(seed: u64) -> Rng {
        Rng(seed.wrapping_mul(0x9E3779B97F4A7C15) ^ 0xD1B54A32D192ED03)
    }
    pub fn next(&mut self) -> u64 {
        self.0 ^= self.0 << 13;
        self.0 ^= self.0 >> 7;
        self.0 ^= self.0 << 17;
        self.0
    }
    pub fn below(&mut self, n: u64) -> u64 {
        self.next() % n
    }
    pub fn chance(&mut self, pct: u64) -> bool {
        self.below(100) < pct
    }
}

pub type Row = BTreeMap<String, Vec<Val>>;

#[derive(Clone, Copy, Debug, PartialEq)]
pub enum Cat {
    Num,
    Bool,
    Ip,
    Date,
    Str,
    Bytes,
}

pub const COLS: [(&str, Cat); 7] = [
    ("num_a", Cat::Num),
    ("num_b", Cat::Num),
    ("bool_c", Cat::Bool),
    ("ip_d", Cat::Ip),
    ("date_e", Cat::Date),
    ("str_f", Cat::Str),
    ("bytes_g", Cat::Bytes),
];

fn gen_val(cat: Cat, flavor: u64, rng: &mut Rng) -> Val {
    match cat {
        Cat::Num => match flavor % 6 {
            0 => Val::U64(rng.below(100)),
            1 => Val::I64(rng.below(100) as i64 - 50),
            2 => Val::U64(u64::MAX - rng.below(5)),
            3 => Val::F64(rng.below(100) as f64 * 0.25 - 10.0),
            4 => Val::I64([i64::MIN, i64::MAX, 0, -1][rng.below(4) as usize]),
            _ => Val::U64(1000 + 7 * rng.below(1000)),
        },
        Cat::Bool => Val::Bool(rng.chance(50)),
        Cat::Ip => match flavor % 3 {
            0 => Val::Ip(0xffff_0000_0000u128 | rng.below(1 << 32) as u128), // ipv4 mapped
            1 => Val::Ip(((rng.next() as u128) << 64) | rng.next() as u128),
            _ => Val::Ip([0u128, u128::MAX, 1, u128::MAX - 1][rng.below(4) as usize]),
        },
        Cat::Date => Val::Date((rng.below(1_000_000) as i64 - 500_000) * 1_000_000_007),
        Cat::Str => Val::Str(format!("t{}", rng.below(1 + 8 * (1 + flavor % 3)))),
        Cat::Bytes => Val::Bytes(vec![rng.below(4) as u8; rng.below(3) as usize]),
    }
}

pub fn gen_input(rng: &mut Rng, num_rows: u32) -> Vec<Row> {
    let mut rows: Vec<Row> = (0..num_rows).map(|_| Row::new()).collect();
    for (name, cat) in COLS {
        if rng.chance(25) {
            continue; // column absent in this input
        }
        let flavor = rng.below(12);
        let density = rng.below(5); // 0 full, 1 optional sparse, 2 optional dense, 3 multi, 4 multi sparse
        for row in rows.iter_mut() {
            let n = match density {
                0 => 1,
                1 => u64::from(rng.chance(10)),
                2 => u64::from(rng.chance(90)),
                3 => rng.below(4),
                _ => {
                    if rng.chance(15) {
                        1 + rng.below(3)
                    } else {
                        0
                    }
                }
            };
            let vals: Vec<Val> = (0..n).map(|_| gen_val(cat, flavor, rng)).collect();
            if !vals.is_empty() {
                row.insert(name.to_string(), vals);
            }
        }
    }
    rows
}

pub fn write_input(rows: &[Row]) -> ColumnarReader {
    let mut w = ColumnarWriter::default();
    for (row_id, row) in rows.iter().enumerate() {
        let row_id = row_id as u32;
        for (name, vals) in row {
            for v in vals {
                match v {
                    Val::I64(x) => w.record_numerical(row_id, name, NumericalValue::I64(*x)),
                    Val::U64(x) => w.record_numerical(row_id, name, NumericalValue::U64(*x)),
                    Val::F64(x) => w.record_numerical(row_id, name, NumericalValue::F64(*x)),
                    Val::Bool(x) => w.record_bool(row_id, name, *x),
                    Val::Ip(x) => w.record_ip_addr(row_id, name, Ipv6Addr::from(*x)),
                    Val::Date(x) => w.record_datetime(row_id, name, DateTime::from_timestamp_nanos(*x)),
                    Val::Str(x) => w.record_str(row_id, name, x),
                    Val::Bytes(x) => w.record_bytes(row_id, name, x),
                }
            }
        }
    }
    let mut buf = Vec::new();
    w.serialize(rows.len() as u32, None, &mut buf).unwrap();
    ColumnarReader::open(buf).unwrap()
}

fn num_as_f64(v: &Val) -> f64 {
    match v {
        Val::I64(x) => *x as f64,
        Val::U64(x) => *x as f64,
        Val::F64(x) => *x,
        _ => unreachable!(),
    }
}

fn num_as_i128(v: &Val) -> Option<i128> {
    match v {
        Val::I64(x) => Some(*x as i128),
        Val::U64(x) => Some(*x as i128),
        _ => None,
    }
}

/// Are the values read from a column the ones of the model?
fn same_vals(got: &[Val], exp: &[Val]) -> bool {
    if got.len() != exp.len() {
        return false;
    }
    got.iter().zip(exp).all(|(g, e)| match (g, e) {
        (Val::I64(_) | Val::U64(_), Val::I64(_) | Val::U64(_)) => num_as_i128(g) == num_as_i128(e),
        (Val::F64(g), e @ (Val::I64(_) | Val::U64(_) | Val::F64(_))) => *g == num_as_f64(e),
        (g @ (Val::I64(_) | Val::U64(_)), Val::F64(e)) => num_as_f64(g) == *e,
        (g, e) => g == e,
    })
}

fn col_vals<T: Copy + PartialOrd + std::fmt::Debug + Send + Sync + 'static>(
    col: &Column<T>,
    row: u32,
    f: impl Fn(T) -> Val,
) -> Vec<Val> {
    col.values_for_doc(row).map(f).collect()
}

pub fn read_row(dc: &DynamicColumn, row: u32) -> Vec<Val> {
    match dc {
        DynamicColumn::Bool(c) => col_vals(c, row, Val::Bool),
        DynamicColumn::I64(c) => col_vals(c, row, Val::I64),
        DynamicColumn::U64(c) => col_vals(c, row, Val::U64),
        DynamicColumn::F64(c) => col_vals(c, row, Val::F64),
        DynamicColumn::IpAddr(c) => col_vals(c, row, |ip: Ipv6Addr| Val::Ip(u128::from(ip))),
        DynamicColumn::DateTime(c) => col_vals(c, row, |d: DateTime| Val::Date(d.into_timestamp_nanos())),
        DynamicColumn::Bytes(c) => c
            .term_ords(row)
            .map(|ord| {
                let mut b = Vec::new();
                assert!(c.ord_to_bytes(ord, &mut b).unwrap(), "ord {ord} not in dictionary");
                Val::Bytes(b)
            })
            .collect(),
        DynamicColumn::Str(c) => c
            .term_ords(row)
            .map(|ord| {
                let mut b = String::new();
                assert!(c.ord_to_str(ord, &mut b).unwrap(), "ord {ord} not in dictionary");
                Val::Str(b)
            })
            .collect(),
    }
}

fn check_bounds<T: Copy + PartialOrd + std::fmt::Debug + Send + Sync + 'static>(
    name: &str,
    col: &Column<T>,
    errs: &mut Vec<String>,
) {
    let (min, max) = (col.min_value(), col.max_value());
    let mut n = 0u32;
    for row in 0..col.num_docs() {
        for v in col.values_for_doc(row) {
            n += 1;
            if v < min || v > max {
                errs.push(format!("{name}: value {v:?} of row {row} outside of [{min:?}, {max:?}]"));
                return;
            }
        }
    }
    if n != col.values.num_vals() {
        errs.push(format!("{name}: num_vals {} but {n} values reachable", col.values.num_vals()));
    }
}

fn check_ranges<T: Copy + PartialOrd + std::fmt::Debug + Send + Sync + 'static>(
    name: &str,
    col: &Column<T>,
    probes: &[T],
    errs: &mut Vec<String>,
) {
    let num_docs = col.num_docs();
    for lo in probes {
        for hi in probes {
            if lo > hi {
                continue;
            }
            for doc_range in [0..num_docs, (num_docs / 3)..(num_docs - num_docs / 4)] {
                let mut got = Vec::new();
                col.get_docids_for_value_range(*lo..=*hi, doc_range.clone(), &mut got);
                let mut exp = Vec::new();
                for row in doc_range.clone() {
                    if col.values_for_doc(row).any(|v| v >= *lo && v <= *hi) {
                        exp.push(row);
                    }
                }
                let mut got_dedup = got.clone();
                got_dedup.dedup();
                if got_dedup != exp {
                    errs.push(format!(
                        "{name}: docs for values in [{lo:?}, {hi:?}] rows {doc_range:?}: got {got:?} expected {exp:?}"
                    ));
                    return;
                }
            }
        }
    }
}

pub fn check_merged(
    merged: &ColumnarReader,
    expected_rows: &[Row],
    required: &[(String, ColumnType)],
) -> Vec<String> {
    let mut errs = Vec::new();
    if merged.num_docs() as usize != expected_rows.len() {
        errs.push(format!("num_docs {} != {}", merged.num_docs(), expected_rows.len()));
        return errs;
    }
    for (name, cat) in COLS {
        let handles = merged.read_columns(name).unwrap();
        let any_expected = expected_rows.iter().any(|r| r.contains_key(name));
        let is_required = required.iter().any(|(n, _)| n == name);
        if handles.is_empty() {
            if any_expected || is_required {
                errs.push(format!("{name}: column missing in the merged columnar"));
            }
            continue;
        }
        if handles.len() > 1 {
            errs.push(format!("{name}: {} columns", handles.len()));
            continue;
        }
        let dc = match handles[0].open() {
            Ok(dc) => dc,
            Err(e) => {
                errs.push(format!("{name}: cannot open: {e}"));
                continue;
            }
        };
        if let Some((_, ty)) = required.iter().find(|(n, _)| n == name) {
            if dc.column_type() != *ty {
                errs.push(format!("{name}: type {:?} but {ty:?} required", dc.column_type()));
            }
        }
        let card = dc.get_cardinality();
        let mut total = 0usize;
        for (row_id, row) in expected_rows.iter().enumerate() {
            let exp: Vec<Val> = row.get(name).cloned().unwrap_or_default();
            let got = std::panic::catch_unwind(std::panic::AssertUnwindSafe(|| read_row(&dc, row_id as u32)));
            let got = match got {
                Ok(g) => g,
                Err(_) => {
                    errs.push(format!("{name} ({cat:?}, {card:?}): panic reading row {row_id}"));
                    break;
                }
            };
            total += got.len();
            if !same_vals(&got, &exp) {
                errs.push(format!(
                    "{name} ({cat:?}, {:?}, {card:?}): row {row_id}: got {got:?} expected {exp:?}",
                    dc.column_type()
                ));
                break;
            }
            match card {
                Cardinality::Full if got.len() != 1 => {
                    errs.push(format!("{name}: Full but row {row_id} has {} values", got.len()))
                }
                Cardinality::Optional if got.len() > 1 => {
                    errs.push(format!("{name}: Optional but row {row_id} has {} values", got.len()))
                }
                _ => {}
            }
        }
        if dc.num_values() as usize != total {
            errs.push(format!("{name}: num_values {} != {total}", dc.num_values()));
        }
        match &dc {
            DynamicColumn::Bool(c) => {
                check_bounds(name, c, &mut errs);
                check_ranges(name, c, &[false, true], &mut errs);
            }
            DynamicColumn::I64(c) => {
                check_bounds(name, c, &mut errs);
                check_ranges(name, c, &[i64::MIN, -51, -10, 0, 7, 49, 1000, i64::MAX], &mut errs);
            }
            DynamicColumn::U64(c) => {
                check_bounds(name, c, &mut errs);
                check_ranges(name, c, &[0, 7, 49, 1000, 4000, u64::MAX - 3, u64::MAX], &mut errs);
            }
            DynamicColumn::F64(c) => {
                check_bounds(name, c, &mut errs);
                check_ranges(name, c, &[f64::NEG_INFINITY, -10.0, 0.0, 3.25, 1e19, f64::INFINITY], &mut errs);
            }
            DynamicColumn::IpAddr(c) => {
                check_bounds(name, c, &mut errs);
                let probes: Vec<Ipv6Addr> = [0u128, 1, 0xffff_0000_0000, 0xffff_8000_0000, 0xffff_ffff_ffff, 1 << 100, u128::MAX - 1, u128::MAX]
                    .iter()
                    .map(|v| Ipv6Addr::from(*v))
                    .collect();
                check_ranges(name, c, &probes, &mut errs);
            }
            DynamicColumn::DateTime(c) => {
                check_bounds(name, c, &mut errs);
            }
            DynamicColumn::Bytes(c) => {
                check_bounds(name, c.ords(), &mut errs);
                if c.ords().num_docs() > 0 && c.ords().values.num_vals() > 0 && c.ords().max_value() >= c.num_terms() as u64 {
                    errs.push(format!("{name}: max ord {} >= num_terms {}", c.ords().max_value(), c.num_terms()));
                }
            }
            DynamicColumn::Str(c) => {
                check_bounds(name, c.ords(), &mut errs);
            }
        }
    }
    errs
}

pub enum Order {
    Stack,
    Permute,           // all rows, alive_bitsets None
    ShuffleWithDeletes, // subset of rows, alive bitsets Some for all
    StackWithDeletes,  // rows in order, subset, alive bitsets Some for those with deletes
}

fn bitset_of(num_rows: u32, rows: impl Iterator<Item = u32>) -> ReadOnlyBitSet {
    let mut bs = BitSet::with_max_value(num_rows);
    for r in rows {
        bs.insert(r);
    }
    let mut buffer = Vec::new();
    bs.serialize(&mut buffer).unwrap();
    ReadOnlyBitSet::open(OwnedBytes::new(buffer))
}

pub fn run_case(seed: u64, verbose: bool) -> Vec<String> {
    let mut rng = Rng::new(seed);
    let num_inputs = 1 + rng.below(4) as usize;
    let inputs: Vec<Vec<Row>> = (0..num_inputs)
        .map(|_| {
            let n = match rng.below(6) {
                0 => 0,
                1 => 1,
                _ => rng.below(40) as u32,
            };
            gen_input(&mut rng, n)
        })
        .collect();
    let readers: Vec<ColumnarReader> = inputs.iter().map(|rows| write_input(rows)).collect();
    let reader_refs: Vec<&ColumnarReader> = readers.iter().collect();
    let order_kind = rng.below(4);
    let mut all_addrs: Vec<RowAddr> = Vec::new();
    for (seg, rows) in inputs.iter().enumerate() {
        for r in 0..rows.len() as u32 {
            all_addrs.push(RowAddr {
                segment_ord: seg as u32,
                row_id: r,
            });
        }
    }
    let (merge_order, addrs, kind_name): (MergeRowOrder, Vec<RowAddr>, &str) = match order_kind {
        0 => (
            StackMergeOrder::stack(&reader_refs).into(),
            all_addrs.clone(),
            "stack",
        ),
        1 => {
            let mut addrs = all_addrs.clone();
            for i in (1..addrs.len()).rev() {
                let j = rng.below(i as u64 + 1) as usize;
                addrs.swap(i, j);
            }
            (
                ShuffleMergeOrder {
                    new_row_id_to_old_row_id: addrs.clone(),
                    alive_bitsets: vec![None; num_inputs],
                }
                .into(),
                addrs,
                "permute",
            )
        }
        2 => {
            let keep_pct = [0u64, 10, 50, 90][rng.below(4) as usize];
            let mut addrs: Vec<RowAddr> = all_addrs.iter().copied().filter(|_| rng.chance(keep_pct)).collect();
            for i in (1..addrs.len()).rev() {
                let j = rng.below(i as u64 + 1) as usize;
                addrs.swap(i, j);
            }
            let num_rows: Vec<u32> = inputs.iter().map(|r| r.len() as u32).collect();
            (
                ShuffleMergeOrder::for_test(&num_rows, addrs.clone()).into(),
                addrs,
                "shuffle+deletes",
            )
        }
        _ => {
            // what tantivy does for StackedWithDeletes: rows in order, only some inputs have deletes
            let mut addrs = Vec::new();
            let mut alive_bitsets = Vec::new();
            for (seg, rows) in inputs.iter().enumerate() {
                if rng.chance(50) {
                    let keep_pct = [0u64, 30, 80][rng.below(3) as usize];
                    let alive: Vec<u32> = (0..rows.len() as u32).filter(|_| rng.chance(keep_pct)).collect();
                    alive_bitsets.push(Some(bitset_of(rows.len() as u32, alive.iter().copied())));
                    addrs.extend(alive.iter().map(|r| RowAddr {
                        segment_ord: seg as u32,
                        row_id: *r,
                    }));
                } else {
                    alive_bitsets.push(None);
                    addrs.extend((0..rows.len() as u32).map(|r| RowAddr {
                        segment_ord: seg as u32,
                        row_id: r,
                    }));
                }
            }
            (
                ShuffleMergeOrder {
                    new_row_id_to_old_row_id: addrs.clone(),
                    alive_bitsets,
                }
                .into(),
                addrs,
                "stack+deletes",
            )
        }
    };
    let expected: Vec<Row> = addrs
        .iter()
        .map(|a| inputs[a.segment_ord as usize][a.row_id as usize].clone())
        .collect();
    let mut required: Vec<(String, ColumnType)> = Vec::new();
    if rng.chance(30) {
        required.push(("bool_c".to_string(), ColumnType::Bool));
        required.push(("str_f".to_string(), ColumnType::Str));
        required.push(("date_e".to_string(), ColumnType::DateTime));
        required.push(("ip_d".to_string(), ColumnType::IpAddr));
    }
    if verbose {
        println!("seed {seed}: {kind_name}, inputs {:?}, out rows {}", inputs.iter().map(|r| r.len()).collect::<Vec<_>>(), expected.len());
    }
    let mut out = Vec::new();
    let res = std::panic::catch_unwind(std::panic::AssertUnwindSafe(|| {
        columnar::merge_columnar(&reader_refs, &required, merge_order, &mut out)
    }));
    match res {
        Err(p) => {
            let msg = p
                .downcast_ref::<String>()
                .cloned()
                .or_else(|| p.downcast_ref::<&str>().map(|s| s.to_string()))
                .unwrap_or_default();
            return vec![format!("[{kind_name}] merge_columnar panicked: {msg}")];
        }
        Ok(Err(e)) => return vec![format!("[{kind_name}] merge_columnar failed: {e}")],
        Ok(Ok(())) => {}
    }
    let merged = match ColumnarReader::open(out) {
        Ok(m) => m,
        Err(e) => return vec![format!("[{kind_name}] cannot open merged: {e}")],
    };
    check_merged(&merged, &expected, &required)
        .into_iter()
        .map(|e| format!("[{kind_name}] {e}"))
        .collect()
}

#[test]
fn columnar_merge_model() {
    std::panic::set_hook(Box::new(|_| {}));
    let mut failures = Vec::new();
    for seed in 0..1500u64 {
        let errs = run_case(seed, false);
        if !errs.is_empty() {
            failures.push(format!("seed {seed}:\n  {}", errs.join("\n  ")));
        }
        if failures.len() > 12 {
            break;
        }
    }
    let _ = std::panic::take_hook();
    assert!(failures.is_empty(), "{}", failures.join("\n"));
}

fn big_dict_case(seed: u64) -> Vec<String> {
    let mut rng = Rng::new(seed);
    let num_inputs = 1 + rng.below(3) as usize;
    let vocab = [50u64, 3000, 20_000][rng.below(3) as usize];
    let inputs: Vec<Vec<Row>> = (0..num_inputs)
        .map(|_| {
            let n = [0u64, 5, 2000, 9000][rng.below(4) as usize];
            let multi = rng.chance(50);
            let offset = rng.below(vocab);
            (0..n)
                .map(|_| {
                    let mut row = Row::new();
                    let k = if multi { rng.below(3) } else { u64::from(rng.chance(80)) };
                    let vals: Vec<Val> = (0..k)
                        .map(|_| {
                            let t = (offset + rng.below(vocab / 2 + 1)) % vocab;
                            Val::Str(format!("common/prefix/{:08}/{}", t * 7919 % vocab, "x".repeat((t % 5) as usize)))
                        })
                        .collect();
                    if !vals.is_empty() {
                        row.insert("str_f".to_string(), vals);
                    }
                    let kb = if multi { rng.below(3) } else { u64::from(rng.chance(50)) };
                    let bvals: Vec<Val> = (0..kb)
                        .map(|_| {
                            let t = rng.below(vocab);
                            let mut b = t.to_be_bytes().to_vec();
                            b.truncate(8 - (t % 9).min(8) as usize);
                            Val::Bytes(b)
                        })
                        .collect();
                    if !bvals.is_empty() {
                        row.insert("bytes_g".to_string(), bvals);
                    }
                    row
                })
                .collect()
        })
        .collect();
    let readers: Vec<ColumnarReader> = inputs.iter().map(|rows| write_input(rows)).collect();
    let reader_refs: Vec<&ColumnarReader> = readers.iter().collect();
    let mut addrs: Vec<RowAddr> = Vec::new();
    for (seg, rows) in inputs.iter().enumerate() {
        for r in 0..rows.len() as u32 {
            addrs.push(RowAddr {
                segment_ord: seg as u32,
                row_id: r,
            });
        }
    }
    let mode = rng.below(3);
    let order: MergeRowOrder = match mode {
        0 => StackMergeOrder::stack(&reader_refs).into(),
        1 => {
            for i in (1..addrs.len()).rev() {
                let j = rng.below(i as u64 + 1) as usize;
                addrs.swap(i, j);
            }
            ShuffleMergeOrder {
                new_row_id_to_old_row_id: addrs.clone(),
                alive_bitsets: vec![None; num_inputs],
            }
            .into()
        }
        _ => {
            let keep = [1u64, 30, 95][rng.below(3) as usize];
            addrs.retain(|_| rng.chance(keep));
            let nums: Vec<u32> = inputs.iter().map(|r| r.len() as u32).collect();
            ShuffleMergeOrder::for_test(&nums, addrs.clone()).into()
        }
    };
    let expected: Vec<Row> = addrs
        .iter()
        .map(|a| inputs[a.segment_ord as usize][a.row_id as usize].clone())
        .collect();
    let mut out = Vec::new();
    if let Err(e) = columnar::merge_columnar(&reader_refs, &[], order, &mut out) {
        return vec![format!("mode {mode}: merge failed {e}")];
    }
    let merged = ColumnarReader::open(out).unwrap();
    let mut errs = check_merged(&merged, &expected, &[]);
    // the dictionary must be sorted, without duplicates
    for name in ["str_f", "bytes_g"] {
        for h in merged.read_columns(name).unwrap() {
            let bytes_col: columnar::BytesColumn = match h.open().unwrap() {
                DynamicColumn::Str(c) => c.into(),
                DynamicColumn::Bytes(c) => c,
                _ => continue,
            };
            let dict = bytes_col.dictionary();
            let mut stream = dict.stream().unwrap();
            let mut prev: Option<Vec<u8>> = None;
            let mut n = 0;
            while stream.advance() {
                let k = stream.key().to_vec();
                if let Some(p) = &prev {
                    if *p >= k {
                        errs.push(format!("{name}: dictionary not strictly increasing at {n}"));
                        break;
                    }
                }
                prev = Some(k);
                n += 1;
            }
            if n != dict.num_terms() {
                errs.push(format!("{name}: num_terms {} but {n} streamed", dict.num_terms()));
            }
        }
    }
    errs.into_iter().map(|e| format!("mode {mode}: {e}")).collect()
}

#[test]
fn dict_merge_many_terms() {
    let mut failures = Vec::new();
    for seed in 0..60u64 {
        let errs = big_dict_case(seed);
        if !errs.is_empty() {
            failures.push(format!("seed {seed}:\n  {}", errs.join("\n  ")));
        }
        if failures.len() > 5 {
            break;
        }
    }
    assert!(failures.is_empty(), "{}", failures.join("\n"));
}
