//! Single column round trips through the columnar writer / reader / merge (C08) - exploration.
#![allow(dead_code)]

use std::net::Ipv6Addr;

use columnar::{
    Column, ColumnarReader, ColumnarWriter, DynamicColumn, MergeRowOrder, NumericalValue, RowAddr,
    ShuffleMergeOrder, StackMergeOrder,
};

pub struct Rng(u64);
impl Rng {
    pub fn new(seed: u64) -> Rng {
        Rng(seed.wrapping_mul(0x9E3779B97F4A7C15) ^ 0xD1B54A32D192ED03)
    }
    pub fn next(&mut self) -> u64 {
        self.0 ^= self.0 << 13;
        self.0 ^= self.0 >> 7;
        self.0 ^= self.0 << 17;
        self.0
    }
    pub fn below(&mut self, n: u64) -> u64 {
        self.next() % n
    }
    pub fn chance(&mut self, pct: u64) -> bool {
        self.below(100) < pct
    }
}

#[derive(Clone, Copy, Debug)]
enum Pattern {
    Constant,
    Linear,
    LinearNoise,
    Piecewise,
    RandomSmall,
    RandomFull,
    Extremes,
    Decreasing,
}
const PATTERNS: [Pattern; 8] = [
    Pattern::Constant,
    Pattern::Linear,
    Pattern::LinearNoise,
    Pattern::Piecewise,
    Pattern::RandomSmall,
    Pattern::RandomFull,
    Pattern::Extremes,
    Pattern::Decreasing,
];

fn gen_u64(p: Pattern, i: u64, rng: &mut Rng) -> u64 {
    match p {
        Pattern::Constant => 4242,
        Pattern::Linear => 1000 + 7 * i,
        Pattern::LinearNoise => 1_000_000 + 1000 * i + rng.below(17),
        Pattern::Piecewise => {
            let block = i / 512;
            (block * 1_000_003) % 50_000_000 + if block % 2 == 0 { 3 * (i % 512) } else { 5000 - 9 * (i % 512) }
        }
        Pattern::RandomSmall => rng.below(50),
        Pattern::RandomFull => rng.next(),
        Pattern::Extremes => [0, u64::MAX, 1, u64::MAX - 1, 1 << 63, (1 << 63) - 1][rng.below(6) as usize],
        Pattern::Decreasing => u64::MAX - 13 * i,
    }
}

#[derive(Clone, Copy, Debug)]
enum Density {
    Full,
    Sparse,
    Dense,
    Blocky,
    Multi,
    MultiSparse,
    OneMissingAtEnd,
    OnlyLast,
}
const DENSITIES: [Density; 8] = [
    Density::Full,
    Density::Sparse,
    Density::Dense,
    Density::Blocky,
    Density::Multi,
    Density::MultiSparse,
    Density::OneMissingAtEnd,
    Density::OnlyLast,
];

fn num_vals(d: Density, row: u32, num_rows: u32, rng: &mut Rng) -> u32 {
    match d {
        Density::Full => 1,
        Density::Sparse => u32::from(rng.chance(2)),
        Density::Dense => u32::from(rng.chance(95)),
        Density::Blocky => {
            // blocks of 65536 rows: full / empty / half / sparse
            match (row / 20_000) % 4 {
                0 => 1,
                1 => 0,
                2 => row % 2,
                _ => u32::from(row % 97 == 0),
            }
        }
        Density::Multi => rng.below(4) as u32,
        Density::MultiSparse => {
            if rng.chance(3) {
                1 + rng.below(3) as u32
            } else {
                0
            }
        }
        Density::OneMissingAtEnd => u32::from(row + 1 != num_rows),
        Density::OnlyLast => u32::from(row + 1 == num_rows),
    }
}

#[derive(Clone, Copy, Debug, PartialEq)]
enum Ty {
    U64,
    I64,
    F64,
    Bool,
    Date,
    Ip,
}

fn u64_to_f64_ordered(v: u64) -> f64 {
    // a spread of finite floats
    let x = (v % 2_000_001) as f64 - 1_000_000.0;
    x * 0.37
}

/// rows -> list of raw u64 values; the typed value is derived from the raw one.
fn build(ty: Ty, rows: &[Vec<u64>]) -> ColumnarReader {
    let mut w = ColumnarWriter::default();
    for (row, vals) in rows.iter().enumerate() {
        let row = row as u32;
        for v in vals {
            match ty {
                Ty::U64 => w.record_numerical(row, "c", NumericalValue::U64(*v)),
                Ty::I64 => w.record_numerical(row, "c", NumericalValue::I64(*v as i64)),
                Ty::F64 => w.record_numerical(row, "c", NumericalValue::F64(u64_to_f64_ordered(*v))),
                Ty::Bool => w.record_bool(row, "c", v % 2 == 1),
                Ty::Date => w.record_datetime(row, "c", common::DateTime::from_timestamp_nanos(*v as i64)),
                Ty::Ip => w.record_ip_addr(row, "c", Ipv6Addr::from(raw_to_ip(*v))),
            }
        }
    }
    let mut buf = Vec::new();
    w.serialize(rows.len() as u32, None, &mut buf).unwrap();
    ColumnarReader::open(buf).unwrap()
}

fn raw_to_ip(v: u64) -> u128 {
    match v % 4 {
        0 => 0xffff_0000_0000u128 | (v >> 2) as u128 & 0xffff_ffff,
        1 => ((v as u128) << 64) | (v.rotate_left(17) as u128),
        2 => v as u128,
        _ => u128::MAX - (v >> 40) as u128,
    }
}

fn typed<T: Copy + PartialOrd + std::fmt::Debug + Send + Sync + 'static>(
    what: &str,
    col: &Column<T>,
    expected: &[Vec<T>],
    rng: &mut Rng,
    errs: &mut Vec<String>,
) {
    if col.num_docs() as usize != expected.len() {
        errs.push(format!("{what}: num_docs {} != {}", col.num_docs(), expected.len()));
        return;
    }
    let (min, max) = (col.min_value(), col.max_value());
    let mut total = 0usize;
    for (row, exp) in expected.iter().enumerate() {
        let got: Vec<T> = col.values_for_doc(row as u32).collect();
        total += got.len();
        if &got != exp {
            errs.push(format!("{what}: row {row}: got {got:?} expected {exp:?}"));
            return;
        }
        if col.first(row as u32) != exp.first().copied() {
            errs.push(format!("{what}: first({row}) = {:?} expected {:?}", col.first(row as u32), exp.first()));
            return;
        }
        for v in exp {
            if *v < min || *v > max {
                errs.push(format!("{what}: row {row} value {v:?} outside [{min:?},{max:?}]"));
                return;
            }
        }
    }
    if total != col.values.num_vals() as usize {
        errs.push(format!("{what}: num_vals {} != {total}", col.values.num_vals()));
    }
    // value range probes
    let all: Vec<T> = expected.iter().flatten().copied().collect();
    if all.is_empty() {
        return;
    }
    let n = expected.len() as u32;
    for probe in 0..40 {
        let a = all[rng.below(all.len() as u64) as usize];
        let b = all[rng.below(all.len() as u64) as usize];
        let (lo, hi) = if a <= b { (a, b) } else { (b, a) };
        let (lo, hi) = match probe % 5 {
            0 => (min, max),
            1 => (lo, lo),
            2 => (min, lo),
            3 => (hi, max),
            _ => (lo, hi),
        };
        let start = if probe % 3 == 0 { 0 } else { rng.below(n as u64) as u32 };
        let end = if probe % 4 == 0 { n } else { start + rng.below((n - start) as u64 + 1) as u32 };
        let mut got = Vec::new();
        col.get_docids_for_value_range(lo..=hi, start..end, &mut got);
        got.dedup();
        let exp: Vec<u32> = (start..end)
            .filter(|r| expected[*r as usize].iter().any(|v| *v >= lo && *v <= hi))
            .collect();
        if got != exp {
            let first_diff = got.iter().zip(exp.iter()).position(|(a, b)| a != b).unwrap_or(got.len().min(exp.len()));
            errs.push(format!(
                "{what}: value range [{lo:?},{hi:?}] rows {start}..{end}: got {} docs, expected {} docs, first difference at #{first_diff}: got {:?} expected {:?}",
                got.len(),
                exp.len(),
                got.get(first_diff),
                exp.get(first_diff)
            ));
            return;
        }
    }
}

fn check(what: &str, ty: Ty, reader: &ColumnarReader, expected: &[Vec<u64>], rng: &mut Rng, errs: &mut Vec<String>) {
    let handles = reader.read_columns("c").unwrap();
    let any = expected.iter().any(|r| !r.is_empty());
    if handles.is_empty() {
        if any {
            errs.push(format!("{what}: no column"));
        }
        return;
    }
    let dc = handles[0].open().unwrap();
    match (ty, dc) {
        (Ty::U64, DynamicColumn::U64(c)) => typed(what, &c, expected, rng, errs),
        (Ty::U64, DynamicColumn::I64(c)) => {
            let exp: Vec<Vec<i64>> = expected.iter().map(|r| r.iter().map(|v| *v as i64).collect()).collect();
            if expected.iter().flatten().any(|v| *v > i64::MAX as u64) {
                errs.push(format!("{what}: u64 values stored as i64"));
            }
            typed(what, &c, &exp, rng, errs)
        }
        (Ty::I64, DynamicColumn::I64(c)) => {
            let exp: Vec<Vec<i64>> = expected.iter().map(|r| r.iter().map(|v| *v as i64).collect()).collect();
            typed(what, &c, &exp, rng, errs)
        }
        (Ty::I64, DynamicColumn::U64(c)) => {
            if expected.iter().flatten().any(|v| (*v as i64) < 0) {
                errs.push(format!("{what}: negative i64 values stored as u64"));
            }
            typed(what, &c, expected, rng, errs)
        }
        (Ty::F64, DynamicColumn::F64(c)) => {
            let exp: Vec<Vec<f64>> = expected.iter().map(|r| r.iter().map(|v| u64_to_f64_ordered(*v)).collect()).collect();
            typed(what, &c, &exp, rng, errs)
        }
        (Ty::Bool, DynamicColumn::Bool(c)) => {
            let exp: Vec<Vec<bool>> = expected.iter().map(|r| r.iter().map(|v| v % 2 == 1).collect()).collect();
            typed(what, &c, &exp, rng, errs)
        }
        (Ty::Date, DynamicColumn::DateTime(c)) => {
            let exp: Vec<Vec<common::DateTime>> = expected
                .iter()
                .map(|r| r.iter().map(|v| common::DateTime::from_timestamp_nanos(*v as i64)).collect())
                .collect();
            typed(what, &c, &exp, rng, errs)
        }
        (Ty::Ip, DynamicColumn::IpAddr(c)) => {
            let exp: Vec<Vec<Ipv6Addr>> = expected.iter().map(|r| r.iter().map(|v| Ipv6Addr::from(raw_to_ip(*v))).collect()).collect();
            typed(what, &c, &exp, rng, errs)
        }
        (ty, dc) => errs.push(format!("{what}: {ty:?} column read back as {:?}", dc.column_type())),
    }
}

fn gen_rows(p: Pattern, d: Density, n: u32, rng: &mut Rng) -> Vec<Vec<u64>> {
    let mut i = 0u64;
    (0..n)
        .map(|row| {
            let k = num_vals(d, row, n, rng);
            (0..k)
                .map(|_| {
                    i += 1;
                    gen_u64(p, i, rng)
                })
                .collect()
        })
        .collect()
}

fn round_trips(sizes: &[u32], tys: &[Ty]) -> Vec<String> {
    let mut errs = Vec::new();
    let mut rng = Rng::new(7);
    for &ty in tys {
        for p in PATTERNS {
            for d in DENSITIES {
                for &n in sizes {
                    let rows = gen_rows(p, d, n, &mut rng);
                    let reader = build(ty, &rows);
                    let what = format!("{ty:?}/{p:?}/{d:?}/{n}");
                    check(&what, ty, &reader, &rows, &mut rng, &mut errs);
                    if errs.len() > 20 {
                        return errs;
                    }
                }
            }
        }
    }
    errs
}

#[test]
fn single_column_round_trip_small() {
    let errs = round_trips(&[1, 2, 3, 127, 128, 129, 511, 512, 513, 1024, 1500], &[Ty::U64, Ty::I64, Ty::F64, Ty::Bool, Ty::Date, Ty::Ip]);
    assert!(errs.is_empty(), "{}", errs.join("\n"));
}

#[test]
fn single_column_round_trip_large() {
    let errs = round_trips(&[65_535, 65_536, 65_537, 140_000], &[Ty::U64, Ty::I64, Ty::Ip]);
    assert!(errs.is_empty(), "{}", errs.join("\n"));
}

fn merged(ty: Ty, inputs: &[Vec<Vec<u64>>], shuffle: Option<&mut Rng>, with_deletes: bool) -> (ColumnarReader, Vec<Vec<u64>>) {
    let readers: Vec<ColumnarReader> = inputs.iter().map(|r| build(ty, r)).collect();
    let refs: Vec<&ColumnarReader> = readers.iter().collect();
    let mut addrs: Vec<RowAddr> = Vec::new();
    for (seg, rows) in inputs.iter().enumerate() {
        for r in 0..rows.len() as u32 {
            addrs.push(RowAddr {
                segment_ord: seg as u32,
                row_id: r,
            });
        }
    }
    let order: MergeRowOrder = match shuffle {
        None => StackMergeOrder::stack(&refs).into(),
        Some(rng) => {
            if with_deletes {
                addrs.retain(|_| rng.chance(70));
            }
            // interleave the inputs like a k-way merge would: keep the order inside an input
            let mut keyed: Vec<(u64, RowAddr)> = addrs.iter().map(|a| (rng.below(1000), *a)).collect();
            let mut per_seg: Vec<Vec<u64>> = vec![Vec::new(); inputs.len()];
            for (k, a) in &keyed {
                per_seg[a.segment_ord as usize].push(*k);
            }
            for v in per_seg.iter_mut() {
                v.sort();
                v.reverse();
            }
            for (k, a) in keyed.iter_mut() {
                *k = per_seg[a.segment_ord as usize].pop().unwrap();
            }
            keyed.sort_by_key(|(k, a)| (*k, a.segment_ord, a.row_id));
            addrs = keyed.into_iter().map(|(_, a)| a).collect();
            if with_deletes {
                let nums: Vec<u32> = inputs.iter().map(|r| r.len() as u32).collect();
                ShuffleMergeOrder::for_test(&nums, addrs.clone()).into()
            } else {
                ShuffleMergeOrder {
                    new_row_id_to_old_row_id: addrs.clone(),
                    alive_bitsets: vec![None; inputs.len()],
                }
                .into()
            }
        }
    };
    let mut out = Vec::new();
    columnar::merge_columnar(&refs, &[], order, &mut out).unwrap();
    let expected = addrs
        .iter()
        .map(|a| inputs[a.segment_ord as usize][a.row_id as usize].clone())
        .collect();
    (ColumnarReader::open(out).unwrap(), expected)
}

#[test]
fn merged_columns_large() {
    let mut errs = Vec::new();
    let mut rng = Rng::new(99);
    for ty in [Ty::U64, Ty::I64, Ty::Ip, Ty::Date] {
        for case in 0..24u64 {
            let k = 2 + rng.below(2) as usize;
            let inputs: Vec<Vec<Vec<u64>>> = (0..k)
                .map(|_| {
                    let p = PATTERNS[rng.below(8) as usize];
                    let d = DENSITIES[rng.below(8) as usize];
                    let n = [0u32, 1, 700, 30_000, 66_000][rng.below(5) as usize];
                    gen_rows(p, d, n, &mut rng)
                })
                .collect();
            let mode = case % 3;
            let mut rng2 = Rng::new(case);
            let (reader, expected) = match mode {
                0 => merged(ty, &inputs, None, false),
                1 => merged(ty, &inputs, Some(&mut rng2), false),
                _ => merged(ty, &inputs, Some(&mut rng2), true),
            };
            let what = format!("merge {ty:?} case {case} mode {mode} sizes {:?}", inputs.iter().map(|r| r.len()).collect::<Vec<_>>());
            check(&what, ty, &reader, &expected, &mut rng, &mut errs);
            if errs.len() > 10 {
                break;
            }
        }
    }
    assert!(errs.is_empty(), "{}", errs.join("\n"));
}
