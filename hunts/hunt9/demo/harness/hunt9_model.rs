//! Model based check of a sorted index (C17) - exploration harness.
#![allow(dead_code)]

use std::collections::{BTreeMap, HashMap, HashSet};

use tantivy::collector::Count;
use tantivy::indexer::NoMergePolicy;
use tantivy::postings::Postings;
use tantivy::query::TermQuery;
use tantivy::schema::{
    BytesOptions, DateOptions, Field, IndexRecordOption, JsonObjectOptions, NumericOptions,
    OwnedValue, Schema, TextFieldIndexing, TextOptions, Value, FAST, INDEXED, STORED, STRING, TEXT,
};
use tantivy::{
    DateTime, DocSet, Index, IndexSettings, IndexSortByField, IndexWriter, Order, SegmentReader,
    TantivyDocument, Term, TERMINATED,
};

#[derive(Clone, Copy, Debug, PartialEq, Eq)]
pub enum Kind {
    U64,
    I64,
    F64,
    Date,
    Str,
    Bytes,
}

#[derive(Clone, Debug, PartialEq)]
pub enum SortVal {
    U64(u64),
    I64(i64),
    F64(f64),
    Date(i64), // seconds
    Str(String),
    Bytes(Vec<u8>),
}

#[derive(Clone, Debug, PartialEq, Eq, PartialOrd, Ord)]
pub enum Key {
    Num(u128),
    Bin(Vec<u8>),
}

fn f64_key(v: f64) -> u64 {
    let bits = v.to_bits();
    if bits >> 63 == 0 {
        bits | (1 << 63)
    } else {
        !bits
    }
}

impl SortVal {
    fn key(&self) -> Key {
        match self {
            SortVal::U64(v) => Key::Num(*v as u128),
            SortVal::I64(v) | SortVal::Date(v) => Key::Num((*v as i128 - i64::MIN as i128) as u128),
            SortVal::F64(v) => Key::Num(f64_key(*v) as u128),
            SortVal::Str(s) => Key::Bin(s.as_bytes().to_vec()),
            SortVal::Bytes(b) => Key::Bin(b.clone()),
        }
    }
}

#[derive(Clone, Debug)]
pub struct MDoc {
    id: u64,
    sort: Option<SortVal>,
    words: Vec<String>,
    multi: Vec<u64>,
    s: Option<String>,
    b: Option<Vec<u8>>,
    jnum: Option<i64>,
    jstr: Option<String>,
    tag: u64,
    alive: bool,
    pad: usize,
}

pub struct Rng(u64);
impl Rng {
    pub fn new(seed: u64) -> Rng {
        Rng(seed.wrapping_mul(0x9E3779B97F4A7C15) ^ 0xD1B54A32D192ED03)
    }
    pub fn next(&mut self) -> u64 {
        self.0 ^= self.0 << 13;
        self.0 ^= self.0 >> 7;
        self.0 ^= self.0 << 17;
        self.0
    }
    pub fn below(&mut self, n: u64) -> u64 {
        self.next() % n
    }
    pub fn chance(&mut self, pct: u64) -> bool {
        self.below(100) < pct
    }
}

pub struct Fields {
    id: Field,
    sortv: Field,
    text: Field,
    multi: Field,
    s: Field,
    b: Field,
    json: Field,
    tag: Field,
    pad: Field,
}

pub fn build_schema(kind: Kind) -> (Schema, Fields) {
    let mut sb = Schema::builder();
    let id = sb.add_u64_field("id", FAST | STORED | INDEXED);
    let sortv = match kind {
        Kind::U64 => sb.add_u64_field("sortv", FAST | STORED),
        Kind::I64 => sb.add_i64_field("sortv", FAST | STORED),
        Kind::F64 => sb.add_f64_field("sortv", FAST | STORED),
        Kind::Date => sb.add_date_field("sortv", DateOptions::default().set_fast().set_stored()),
        Kind::Str => sb.add_text_field("sortv", STRING | FAST | STORED),
        Kind::Bytes => sb.add_bytes_field("sortv", BytesOptions::default().set_fast().set_stored()),
    };
    let text = sb.add_text_field("text", TEXT | STORED);
    let multi = sb.add_u64_field("multi", NumericOptions::default().set_fast().set_stored());
    let s = sb.add_text_field("s", STRING | FAST | STORED);
    let b = sb.add_bytes_field("b", BytesOptions::default().set_fast().set_stored());
    let json = sb.add_json_field(
        "json",
        JsonObjectOptions::default()
            .set_fast(None)
            .set_stored()
            .set_indexing_options(
                TextFieldIndexing::default()
                    .set_tokenizer("raw")
                    .set_index_option(IndexRecordOption::Basic),
            ),
    );
    let tag = sb.add_u64_field("tag", INDEXED);
    let pad = sb.add_text_field("pad", STORED);
    let _ = TextOptions::default();
    (
        sb.build(),
        Fields {
            id,
            sortv,
            text,
            multi,
            s,
            b,
            json,
            tag,
            pad,
        },
    )
}

pub const VOCAB: usize = 12;

pub fn gen_sort(kind: Kind, rng: &mut Rng, spread: u64) -> Option<SortVal> {
    if rng.chance(20) {
        return None;
    }
    let extreme = rng.chance(8);
    Some(match kind {
        Kind::U64 => {
            if extreme {
                [0u64, u64::MAX, u64::MAX - 1, 1 << 63][rng.below(4) as usize].into_u64()
            } else {
                SortVal::U64(rng.below(spread))
            }
        }
        Kind::I64 => {
            if extreme {
                SortVal::I64([i64::MIN, i64::MAX, -1, 0][rng.below(4) as usize])
            } else {
                SortVal::I64(rng.below(spread) as i64 - (spread / 2) as i64)
            }
        }
        Kind::F64 => {
            if extreme {
                SortVal::F64(
                    [f64::NEG_INFINITY, f64::INFINITY, f64::MAX, f64::MIN_POSITIVE][rng.below(4) as usize],
                )
            } else {
                SortVal::F64((rng.below(spread) as f64 - (spread / 2) as f64) * 0.5)
            }
        }
        Kind::Date => {
            if extreme {
                SortVal::Date([-9_000_000_000i64, 9_000_000_000, -1, 0][rng.below(4) as usize])
            } else {
                SortVal::Date(rng.below(spread) as i64 - (spread / 2) as i64)
            }
        }
        Kind::Str => {
            if extreme {
                SortVal::Str(["", "\u{10FFFF}", "a", "zzzz"][rng.below(4) as usize].to_string())
            } else {
                SortVal::Str(format!("k{:03}", rng.below(spread)))
            }
        }
        Kind::Bytes => {
            if extreme {
                SortVal::Bytes(
                    [vec![], vec![0u8], vec![255u8, 255], vec![0u8, 0]][rng.below(4) as usize].clone(),
                )
            } else {
                SortVal::Bytes(vec![rng.below(spread) as u8, rng.below(3) as u8])
            }
        }
    })
}

trait IntoU64 {
    fn into_u64(self) -> SortVal;
}
impl IntoU64 for u64 {
    fn into_u64(self) -> SortVal {
        SortVal::U64(self)
    }
}

pub fn gen_doc(kind: Kind, id: u64, rng: &mut Rng, spread: u64) -> MDoc {
    let nwords = rng.below(9) as usize;
    let words = (0..nwords)
        .map(|_| format!("w{}", rng.below(VOCAB as u64)))
        .collect();
    let nmulti = if rng.chance(40) { 0 } else { rng.below(4) as usize };
    let multi = (0..nmulti).map(|_| rng.below(1000)).collect();
    MDoc {
        id,
        sort: gen_sort(kind, rng, spread),
        words,
        multi,
        s: if rng.chance(70) {
            Some(format!("s{}", rng.below(20)))
        } else {
            None
        },
        b: if rng.chance(50) {
            Some(vec![rng.below(5) as u8; rng.below(3) as usize])
        } else {
            None
        },
        jnum: if rng.chance(50) {
            Some(rng.below(100) as i64 - 50)
        } else {
            None
        },
        jstr: if rng.chance(50) {
            Some(format!("j{}", rng.below(10)))
        } else {
            None
        },
        tag: rng.below(15),
        alive: true,
        pad: 0,
    }
}

pub fn to_tantivy(f: &Fields, d: &MDoc) -> TantivyDocument {
    let mut doc = TantivyDocument::default();
    doc.add_u64(f.id, d.id);
    match &d.sort {
        None => {}
        Some(SortVal::U64(v)) => doc.add_u64(f.sortv, *v),
        Some(SortVal::I64(v)) => doc.add_i64(f.sortv, *v),
        Some(SortVal::F64(v)) => doc.add_f64(f.sortv, *v),
        Some(SortVal::Date(v)) => doc.add_date(f.sortv, DateTime::from_timestamp_secs(*v)),
        Some(SortVal::Str(v)) => doc.add_text(f.sortv, v),
        Some(SortVal::Bytes(v)) => doc.add_bytes(f.sortv, v),
    }
    doc.add_text(f.text, d.words.join(" "));
    for m in &d.multi {
        doc.add_u64(f.multi, *m);
    }
    if let Some(s) = &d.s {
        doc.add_text(f.s, s);
    }
    if let Some(b) = &d.b {
        doc.add_bytes(f.b, b);
    }
    let mut obj: BTreeMap<String, OwnedValue> = BTreeMap::new();
    if let Some(n) = d.jnum {
        obj.insert("n".to_string(), OwnedValue::I64(n));
    }
    if let Some(s) = &d.jstr {
        obj.insert("s".to_string(), OwnedValue::Str(s.clone()));
    }
    if !obj.is_empty() {
        doc.add_object(f.json, obj);
    }
    doc.add_u64(f.tag, d.tag);
    if d.pad > 0 {
        doc.add_text(f.pad, pad_text(d.id, d.pad));
    }
    doc
}

pub fn pad_text(id: u64, len: usize) -> String {
    let mut s = String::new();
    let mut x = id.wrapping_mul(0x9E3779B97F4A7C15) | 1;
    while s.len() < len {
        x ^= x << 13;
        x ^= x >> 7;
        x ^= x << 17;
        s.push_str(&format!("{x:x} "));
    }
    s
}

fn read_sort(kind: Kind, reader: &SegmentReader, doc: u32) -> Result<Option<SortVal>, String> {
    let ff = reader.fast_fields();
    let err = |e: tantivy::TantivyError| format!("fast field sortv: {e}");
    Ok(match kind {
        Kind::U64 => {
            let vals: Vec<u64> = ff.u64("sortv").map_err(err)?.values_for_doc(doc).collect();
            if vals.len() > 1 {
                return Err(format!("doc {doc}: {} sort values", vals.len()));
            }
            vals.first().map(|v| SortVal::U64(*v))
        }
        Kind::I64 => {
            let vals: Vec<i64> = ff.i64("sortv").map_err(err)?.values_for_doc(doc).collect();
            if vals.len() > 1 {
                return Err(format!("doc {doc}: {} sort values", vals.len()));
            }
            vals.first().map(|v| SortVal::I64(*v))
        }
        Kind::F64 => {
            let vals: Vec<f64> = ff.f64("sortv").map_err(err)?.values_for_doc(doc).collect();
            if vals.len() > 1 {
                return Err(format!("doc {doc}: {} sort values", vals.len()));
            }
            vals.first().map(|v| SortVal::F64(*v))
        }
        Kind::Date => {
            let vals: Vec<DateTime> = ff.date("sortv").map_err(err)?.values_for_doc(doc).collect();
            if vals.len() > 1 {
                return Err(format!("doc {doc}: {} sort values", vals.len()));
            }
            vals.first().map(|v| SortVal::Date(v.into_timestamp_secs()))
        }
        Kind::Str => {
            let col = ff.str("sortv").map_err(err)?.ok_or("no str column sortv")?;
            let ords: Vec<u64> = col.term_ords(doc).collect();
            if ords.len() > 1 {
                return Err(format!("doc {doc}: {} sort values", ords.len()));
            }
            match ords.first() {
                None => None,
                Some(ord) => {
                    let mut s = String::new();
                    col.ord_to_str(*ord, &mut s).map_err(|e| e.to_string())?;
                    Some(SortVal::Str(s))
                }
            }
        }
        Kind::Bytes => {
            let col = ff.bytes("sortv").map_err(err)?.ok_or("no bytes column sortv")?;
            let ords: Vec<u64> = col.term_ords(doc).collect();
            if ords.len() > 1 {
                return Err(format!("doc {doc}: {} sort values", ords.len()));
            }
            match ords.first() {
                None => None,
                Some(ord) => {
                    let mut s = Vec::new();
                    col.ord_to_bytes(*ord, &mut s).map_err(|e| e.to_string())?;
                    Some(SortVal::Bytes(s))
                }
            }
        }
    })
}

/// Checks the whole index against the model. Returns the list of violations.
pub fn check_index(
    index: &Index,
    f: &Fields,
    kind: Kind,
    order: Order,
    model: &[MDoc],
) -> Vec<String> {
    let mut errs = Vec::new();
    let reader = index.reader().unwrap();
    reader.reload().unwrap();
    let searcher = reader.searcher();
    let by_id: HashMap<u64, &MDoc> = model.iter().map(|d| (d.id, d)).collect();
    let mut seen: HashSet<u64> = HashSet::new();
    for (seg_ord, seg) in searcher.segment_readers().iter().enumerate() {
        let tagp = format!("seg#{seg_ord}({} docs, {} deleted)", seg.max_doc(), seg.num_deleted_docs());
        // 1. sort order over every doc id of the segment
        let mut prev: Option<Option<Key>> = None;
        for doc in 0..seg.max_doc() {
            let sv = match read_sort(kind, seg, doc) {
                Ok(sv) => sv,
                Err(e) => {
                    errs.push(format!("{tagp}: {e}"));
                    break;
                }
            };
            let key = sv.as_ref().map(|v| v.key());
            if let Some(prev_key) = &prev {
                let ok = match order {
                    Order::Asc => prev_key <= &key,
                    Order::Desc => prev_key >= &key,
                };
                if !ok {
                    errs.push(format!(
                        "{tagp}: not sorted at doc {doc}: prev={prev_key:?} cur={key:?} ({sv:?})"
                    ));
                    break;
                }
            }
            prev = Some(key);
        }
        // 2. per doc content
        let store = seg.get_store_reader(10).unwrap();
        let ff = seg.fast_fields();
        let id_col = ff.u64("id").unwrap();
        let multi_col = ff.u64("multi").unwrap();
        let s_col = ff.str("s").unwrap();
        let b_col = ff.bytes("b").unwrap();
        let jn_col = ff.i64("json.n").ok();
        let js_col = ff.str("json.s").unwrap_or(None);
        let fnorm = seg.get_fieldnorms_reader(f.text).unwrap();
        let mut new_to_model: HashMap<u32, &MDoc> = HashMap::new();
        for doc in seg.doc_ids_alive() {
            let stored: TantivyDocument = match store.get(doc) {
                Ok(d) => d,
                Err(e) => {
                    errs.push(format!("{tagp}: store.get({doc}) failed: {e}"));
                    continue;
                }
            };
            let Some(id) = stored.get_first(f.id).and_then(|v| v.as_u64()) else {
                errs.push(format!("{tagp}: doc {doc} has no stored id"));
                continue;
            };
            let Some(m) = by_id.get(&id) else {
                errs.push(format!("{tagp}: doc {doc} id {id} unknown"));
                continue;
            };
            if !m.alive {
                errs.push(format!("{tagp}: doc {doc} id {id} should be deleted (tag {})", m.tag));
            }
            if !seen.insert(id) {
                errs.push(format!("{tagp}: doc {doc} id {id} seen twice"));
            }
            new_to_model.insert(doc, m);
            // stored
            let stored_text = stored
                .get_first(f.text)
                .and_then(|v| v.as_str())
                .unwrap_or("")
                .to_string();
            if stored_text != m.words.join(" ") {
                errs.push(format!("{tagp}: doc {doc} id {id} stored text {stored_text:?} != {:?}", m.words));
            }
            let stored_pad = stored.get_first(f.pad).and_then(|v| v.as_str()).unwrap_or("").to_string();
            let exp_pad = if m.pad > 0 { pad_text(m.id, m.pad) } else { String::new() };
            if stored_pad != exp_pad {
                errs.push(format!("{tagp}: doc {doc} id {id} stored pad differs"));
            }
            let stored_multi: Vec<u64> = stored.get_all(f.multi).filter_map(|v| v.as_u64()).collect();
            if stored_multi != m.multi {
                errs.push(format!("{tagp}: id {id} stored multi {stored_multi:?} != {:?}", m.multi));
            }
            // fast fields
            let ff_id: Vec<u64> = id_col.values_for_doc(doc).collect();
            if ff_id != vec![id] {
                errs.push(format!("{tagp}: doc {doc} stored id {id} but fast id {ff_id:?}"));
            }
            match read_sort(kind, seg, doc) {
                Ok(sv) => {
                    if sv != m.sort {
                        errs.push(format!("{tagp}: id {id} fast sortv {sv:?} != {:?}", m.sort));
                    }
                }
                Err(e) => errs.push(format!("{tagp}: {e}")),
            }
            let ff_multi: Vec<u64> = multi_col.values_for_doc(doc).collect();
            if ff_multi != m.multi {
                errs.push(format!("{tagp}: id {id} fast multi {ff_multi:?} != {:?}", m.multi));
            }
            let ff_s: Vec<String> = match &s_col {
                None => vec![],
                Some(c) => c
                    .term_ords(doc)
                    .map(|o| {
                        let mut s = String::new();
                        c.ord_to_str(o, &mut s).unwrap();
                        s
                    })
                    .collect(),
            };
            if ff_s != m.s.iter().cloned().collect::<Vec<_>>() {
                errs.push(format!("{tagp}: id {id} fast s {ff_s:?} != {:?}", m.s));
            }
            let ff_b: Vec<Vec<u8>> = match &b_col {
                None => vec![],
                Some(c) => c
                    .term_ords(doc)
                    .map(|o| {
                        let mut s = Vec::new();
                        c.ord_to_bytes(o, &mut s).unwrap();
                        s
                    })
                    .collect(),
            };
            if ff_b != m.b.iter().cloned().collect::<Vec<_>>() {
                errs.push(format!("{tagp}: id {id} fast b {ff_b:?} != {:?}", m.b));
            }
            let ff_jn: Vec<i64> = jn_col
                .as_ref()
                .map(|c| c.values_for_doc(doc).collect())
                .unwrap_or_default();
            if ff_jn != m.jnum.iter().cloned().collect::<Vec<_>>() {
                errs.push(format!("{tagp}: id {id} fast json.n {ff_jn:?} != {:?}", m.jnum));
            }
            let ff_js: Vec<String> = match &js_col {
                None => vec![],
                Some(c) => c
                    .term_ords(doc)
                    .map(|o| {
                        let mut s = String::new();
                        c.ord_to_str(o, &mut s).unwrap();
                        s
                    })
                    .collect(),
            };
            if ff_js != m.jstr.iter().cloned().collect::<Vec<_>>() {
                errs.push(format!("{tagp}: id {id} fast json.s {ff_js:?} != {:?}", m.jstr));
            }
            // fieldnorm
            if fnorm.fieldnorm(doc) != m.words.len() as u32 {
                errs.push(format!(
                    "{tagp}: id {id} fieldnorm {} != {}",
                    fnorm.fieldnorm(doc),
                    m.words.len()
                ));
            }
        }
        // 3. postings with positions
        let inv = seg.inverted_index(f.text).unwrap();
        let mut got: HashMap<(u32, usize), Vec<u32>> = HashMap::new();
        for w in 0..VOCAB {
            let term = Term::from_field_text(f.text, &format!("w{w}"));
            if let Some(mut p) = inv
                .read_postings(&term, IndexRecordOption::WithFreqsAndPositions)
                .unwrap()
            {
                let mut last = None;
                while p.doc() != TERMINATED {
                    let d = p.doc();
                    if let Some(l) = last {
                        if l >= d {
                            errs.push(format!("{tagp}: postings of w{w} not increasing {l} -> {d}"));
                        }
                    }
                    last = Some(d);
                    if d >= seg.max_doc() {
                        errs.push(format!("{tagp}: postings of w{w} doc {d} >= max_doc"));
                    }
                    let mut pos = Vec::new();
                    p.positions(&mut pos);
                    if pos.len() as u32 != p.term_freq() {
                        errs.push(format!("{tagp}: w{w} doc {d} tf {} positions {pos:?}", p.term_freq()));
                    }
                    got.insert((d, w), pos);
                    p.advance();
                }
            }
        }
        for (doc, m) in &new_to_model {
            for w in 0..VOCAB {
                let word = format!("w{w}");
                let expected: Vec<u32> = m
                    .words
                    .iter()
                    .enumerate()
                    .filter(|(_, x)| **x == word)
                    .map(|(i, _)| i as u32)
                    .collect();
                let g = got.get(&(*doc, w)).cloned().unwrap_or_default();
                if g != expected {
                    errs.push(format!(
                        "{tagp}: id {} doc {doc} postings of {word}: positions {g:?} != {expected:?}",
                        m.id
                    ));
                }
            }
        }
        // id postings
        let inv_id = seg.inverted_index(f.id).unwrap();
        for (doc, m) in &new_to_model {
            let term = Term::from_field_u64(f.id, m.id);
            let docs: Vec<u32> = match inv_id.read_postings(&term, IndexRecordOption::Basic).unwrap() {
                None => vec![],
                Some(mut p) => {
                    let mut v = vec![];
                    while p.doc() != TERMINATED {
                        v.push(p.doc());
                        p.advance();
                    }
                    v
                }
            };
            if docs != vec![*doc] {
                errs.push(format!("{tagp}: id {} postings {docs:?} != [{doc}]", m.id));
            }
        }
        if errs.len() > 30 {
            break;
        }
    }
    let expected_alive = model.iter().filter(|d| d.alive).count();
    if seen.len() != expected_alive {
        let missing: Vec<u64> = model
            .iter()
            .filter(|d| d.alive && !seen.contains(&d.id))
            .map(|d| d.id)
            .take(10)
            .collect();
        errs.push(format!(
            "alive docs {} != expected {expected_alive}; missing ids (first 10) {missing:?}",
            seen.len()
        ));
    }
    // a search per tag must see exactly the alive docs
    for tag in 0..15u64 {
        let q = TermQuery::new(Term::from_field_u64(f.tag, tag), IndexRecordOption::Basic);
        let n = searcher.search(&q, &Count).unwrap();
        let exp = model.iter().filter(|d| d.alive && d.tag == tag).count();
        if n != exp {
            errs.push(format!("tag {tag}: count {n} != {exp}"));
        }
    }
    errs.truncate(25);
    errs
}

pub struct Scenario {
    pub kind: Kind,
    pub order: Order,
    pub seed: u64,
    pub threads: usize,
    pub rounds: usize,
    pub docs_per_round: u64,
    pub spread: u64,
    pub merge_policy_default: bool,
    /// 0: mixed, 1: every round has its own window of values and no missing value, 2: no missing value
    pub mode: u8,
    pub big: bool,
}

pub fn run(sc: &Scenario) -> Vec<String> {
    let (schema, f) = build_schema(sc.kind);
    let settings = IndexSettings {
        sort_by_field: Some(IndexSortByField {
            field: "sortv".to_string(),
            order: sc.order.clone(),
        }),
        ..Default::default()
    };
    let index = Index::builder()
        .schema(schema)
        .settings(settings)
        .create_in_ram()
        .unwrap();
    let mut writer: IndexWriter = index
        .writer_with_num_threads(sc.threads, 20_000_000 * sc.threads)
        .unwrap();
    if !sc.merge_policy_default {
        writer.set_merge_policy(Box::new(NoMergePolicy));
    }
    let mut rng = Rng::new(sc.seed);
    let mut model: Vec<MDoc> = Vec::new();
    let mut next_id = 0u64;
    let mut all_errs = Vec::new();
    for round in 0..sc.rounds {
        let n = 1 + rng.below(sc.docs_per_round);
        // some rounds use a disjoint window of values
        let spread = sc.spread;
        let window_of_round = rng.below(2 * sc.rounds as u64);
        for _ in 0..n {
            let mut d = gen_doc(sc.kind, next_id, &mut rng, spread);
            if sc.big {
                d.pad = 200 + rng.below(400) as usize;
            }
            if sc.mode >= 1 {
                // no missing value, no extreme
                let window = if sc.mode == 1 { (window_of_round * spread) as i64 } else { 0 };
                let v = rng.below(spread) as i64 + window;
                d.sort = Some(match sc.kind {
                    Kind::U64 => SortVal::U64(v as u64),
                    Kind::I64 => SortVal::I64(v - 3 * spread as i64),
                    Kind::F64 => SortVal::F64(v as f64 * 0.5 - 7.0),
                    Kind::Date => SortVal::Date(v - 3 * spread as i64),
                    Kind::Str => SortVal::Str(format!("k{v:05}")),
                    Kind::Bytes => SortVal::Bytes(vec![(v / 256) as u8, (v % 256) as u8]),
                });
            } else if round % 3 == 2 {
                // shift the values of this round: disjoint ranges between segments
                d.sort = match d.sort {
                    Some(SortVal::U64(v)) if v < spread => Some(SortVal::U64(v + 10 * spread * round as u64)),
                    Some(SortVal::I64(v)) if v.unsigned_abs() < spread => {
                        Some(SortVal::I64(v + (10 * spread * round as u64) as i64))
                    }
                    other => other,
                };
            }
            next_id += 1;
            writer.add_document(to_tantivy(&f, &d)).unwrap();
            model.push(d);
            if sc.seed < 300 && rng.chance(6) {
                let tag = rng.below(15);
                writer.delete_term(Term::from_field_u64(f.tag, tag));
                for m in model.iter_mut() {
                    if m.tag == tag {
                        m.alive = false;
                    }
                }
            }
            if sc.seed < 300 && rng.chance(4) && next_id > 0 {
                let id = rng.below(next_id);
                writer.delete_term(Term::from_field_u64(f.id, id));
                model[id as usize].alive = false;
            }
        }
        writer.commit().unwrap();
        let errs = check_index(&index, &f, sc.kind, sc.order.clone(), &model);
        if !errs.is_empty() {
            all_errs.push(format!("after commit of round {round}:"));
            all_errs.extend(errs);
            return all_errs;
        }
        if rng.chance(45) {
            let mut ids = index.searchable_segment_ids().unwrap();
            if ids.len() >= 2 {
                // random subset of >= 2
                let keep = 2 + rng.below(ids.len() as u64 - 1) as usize;
                while ids.len() > keep {
                    let i = rng.below(ids.len() as u64) as usize;
                    ids.remove(i);
                }
                let res = writer.merge(&ids).wait();
                if !sc.merge_policy_default {
                    res.unwrap();
                }
                let errs = check_index(&index, &f, sc.kind, sc.order.clone(), &model);
                if !errs.is_empty() {
                    all_errs.push(format!("after merge of {} segments in round {round}:", ids.len()));
                    all_errs.extend(errs);
                    return all_errs;
                }
            }
        }
    }
    writer.wait_merging_threads().unwrap();
    let errs = check_index(&index, &f, sc.kind, sc.order.clone(), &model);
    all_errs.extend(errs);
    all_errs
}

#[test]
fn model_all_kinds_single_thread() {
    let mut failures = Vec::new();
    for kind in [Kind::U64, Kind::I64, Kind::F64, Kind::Date, Kind::Str, Kind::Bytes] {
        for order in [Order::Asc, Order::Desc] {
            for seed in 0..40u64 {
                let sc = Scenario {
                    kind,
                    order: order.clone(),
                    seed,
                    threads: 1,
                    rounds: 8,
                    docs_per_round: 60,
                    spread: 12,
                    merge_policy_default: false,
                    mode: 0,
                    big: false,
                };
                let errs = run(&sc);
                if !errs.is_empty() {
                    failures.push(format!("{kind:?} {order:?} seed {seed}:\n  {}", errs.join("\n  ")));
                }
            }
        }
    }
    assert!(failures.is_empty(), "{}", failures.join("\n"));
}

#[test]
fn model_multi_thread_default_policy() {
    let mut failures = Vec::new();
    for kind in [Kind::U64, Kind::I64, Kind::Str] {
        for order in [Order::Asc, Order::Desc] {
            for seed in 100..103u64 {
                let sc = Scenario {
                    kind,
                    order: order.clone(),
                    seed,
                    threads: 3,
                    rounds: 12,
                    docs_per_round: 80,
                    spread: 12,
                    merge_policy_default: true,
                    mode: 0,
                    big: false,
                };
                let errs = run(&sc);
                if !errs.is_empty() {
                    failures.push(format!("{kind:?} {order:?} seed {seed}:\n  {}", errs.join("\n  ")));
                }
            }
        }
    }
    assert!(failures.is_empty(), "{}", failures.join("\n"));
}

#[test]
fn model_disjoint_and_big() {
    let mut failures = Vec::new();
    for kind in [Kind::U64, Kind::I64, Kind::F64, Kind::Date, Kind::Str, Kind::Bytes] {
        for order in [Order::Asc, Order::Desc] {
            for (seed, mode, big, docs) in [(200u64, 1u8, false, 40u64), (201, 1, false, 40), (202, 2, false, 40), (203, 1, true, 700), (204, 0, true, 500), (300, 1, true, 900), (301, 1, false, 40), (302, 2, true, 600)] {
                let sc = Scenario {
                    kind,
                    order: order.clone(),
                    seed,
                    threads: 1,
                    rounds: if big { 5 } else { 8 },
                    docs_per_round: docs,
                    spread: 12,
                    merge_policy_default: false,
                    mode,
                    big,
                };
                let errs = run(&sc);
                if !errs.is_empty() {
                    failures.push(format!("{kind:?} {order:?} seed {seed} mode {mode} big {big}:\n  {}", errs.join("\n  ")));
                }
            }
        }
    }
    assert!(failures.is_empty(), "{}", failures.join("\n"));
}
