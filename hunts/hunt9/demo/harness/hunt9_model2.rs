//! Sorted index, the other field kinds (C17 / C08) - exploration harness.
#![allow(dead_code)]

use std::collections::{BTreeMap, HashMap};
use std::net::Ipv6Addr;

use tantivy::indexer::NoMergePolicy;
use tantivy::postings::Postings;
use tantivy::schema::{
    DateOptions, Facet, FacetOptions, Field, IndexRecordOption, IpAddrOptions, JsonObjectOptions,
    NumericOptions, OwnedValue, Schema, TextFieldIndexing, TextOptions, Value, FAST, INDEXED,
    STORED, STRING,
};
use tantivy::{
    DateTime, DocSet, Index, IndexSettings, IndexSortByField, IndexWriter, Order, TantivyDocument,
    Term, TERMINATED,
};

pub struct Rng(u64);
impl Rng {
    pub fn new(seed: u64) -> Rng {
        Rng(seed.wrapping_mul(0x9E3779B97F4A7C15) ^ 0xD1B54A32D192ED03)
    }
    pub fn next(&mut self) -> u64 {
        self.0 ^= self.0 << 13;
        self.0 ^= self.0 >> 7;
        self.0 ^= self.0 << 17;
        self.0
    }
    pub fn below(&mut self, n: u64) -> u64 {
        self.next() % n
    }
    pub fn chance(&mut self, pct: u64) -> bool {
        self.below(100) < pct
    }
}

#[derive(Clone, Debug, Default)]
struct Extras {
    sort: Option<i64>,
    facets: Vec<String>,
    ip: Option<u128>,
    b: Option<bool>,
    dates: Vec<i64>,
    ms: Vec<String>,
    fwords: Vec<String>,
    jarr: Vec<i64>,
    jtext: Vec<String>,
    jnested: Option<u64>,
    tag: u64,
}

fn extras(id: u64, seed: u64) -> Extras {
    let mut rng = Rng::new(id * 7919 + seed);
    let mut e = Extras::default();
    e.sort = if rng.chance(15) { None } else { Some(rng.below(20) as i64 - 10) };
    for _ in 0..rng.below(4) {
        e.facets.push(format!("/f{}/g{}", rng.below(3), rng.below(4)));
    }
    e.ip = if rng.chance(60) {
        Some(if rng.chance(50) {
            0xffff_0000_0000u128 | rng.below(1 << 32) as u128
        } else {
            ((rng.next() as u128) << 64) | rng.next() as u128
        })
    } else {
        None
    };
    e.b = if rng.chance(60) { Some(rng.chance(50)) } else { None };
    for _ in 0..rng.below(3) {
        e.dates.push(rng.below(100_000) as i64 - 50_000);
    }
    for _ in 0..rng.below(4) {
        e.ms.push(format!("m{}", rng.below(9)));
    }
    for _ in 0..rng.below(7) {
        e.fwords.push(format!("f{}", rng.below(5)));
    }
    if rng.chance(60) {
        for _ in 0..rng.below(4) {
            e.jarr.push(rng.below(50) as i64 - 25);
        }
    }
    if rng.chance(60) {
        for _ in 0..1 + rng.below(5) {
            e.jtext.push(format!("j{}", rng.below(5)));
        }
    }
    e.jnested = if rng.chance(40) { Some(rng.below(1000)) } else { None };
    e.tag = rng.below(10);
    e
}

struct Fields {
    id: Field,
    sortv: Field,
    facet: Field,
    ip: Field,
    b: Field,
    dates: Field,
    ms: Field,
    ftext: Field,
    json: Field,
    tag: Field,
}

fn schema() -> (Schema, Fields) {
    let mut sb = Schema::builder();
    let id = sb.add_u64_field("id", FAST | STORED | INDEXED);
    let sortv = sb.add_i64_field("sortv", FAST | STORED);
    let facet = sb.add_facet_field("facet", FacetOptions::default().set_stored());
    let ip = sb.add_ip_addr_field("ip", IpAddrOptions::default().set_fast().set_stored().set_indexed());
    let b = sb.add_bool_field("b", NumericOptions::default().set_fast().set_stored().set_indexed());
    let dates = sb.add_date_field("dates", DateOptions::default().set_fast().set_stored().set_indexed());
    let ms = sb.add_text_field("ms", STRING | FAST | STORED);
    let ftext = sb.add_text_field(
        "ftext",
        TextOptions::default().set_indexing_options(
            TextFieldIndexing::default()
                .set_tokenizer("default")
                .set_index_option(IndexRecordOption::WithFreqs),
        ),
    );
    let json = sb.add_json_field(
        "json",
        JsonObjectOptions::default()
            .set_fast(None)
            .set_stored()
            .set_indexing_options(
                TextFieldIndexing::default()
                    .set_tokenizer("default")
                    .set_index_option(IndexRecordOption::WithFreqsAndPositions),
            ),
    );
    let tag = sb.add_u64_field("tag", INDEXED);
    (
        sb.build(),
        Fields {
            id,
            sortv,
            facet,
            ip,
            b,
            dates,
            ms,
            ftext,
            json,
            tag,
        },
    )
}

fn to_doc(f: &Fields, id: u64, e: &Extras) -> TantivyDocument {
    let mut d = TantivyDocument::default();
    d.add_u64(f.id, id);
    if let Some(s) = e.sort {
        d.add_i64(f.sortv, s);
    }
    for fa in &e.facets {
        d.add_facet(f.facet, Facet::from(fa.as_str()));
    }
    if let Some(ip) = e.ip {
        d.add_ip_addr(f.ip, Ipv6Addr::from(ip));
    }
    if let Some(b) = e.b {
        d.add_bool(f.b, b);
    }
    for dt in &e.dates {
        d.add_date(f.dates, DateTime::from_timestamp_secs(*dt));
    }
    for m in &e.ms {
        d.add_text(f.ms, m);
    }
    if !e.fwords.is_empty() {
        d.add_text(f.ftext, e.fwords.join(" "));
    }
    let mut obj: BTreeMap<String, OwnedValue> = BTreeMap::new();
    if !e.jarr.is_empty() {
        obj.insert(
            "arr".to_string(),
            OwnedValue::Array(e.jarr.iter().map(|v| OwnedValue::I64(*v)).collect()),
        );
    }
    if !e.jtext.is_empty() {
        obj.insert("t".to_string(), OwnedValue::Str(e.jtext.join(" ")));
    }
    if let Some(n) = e.jnested {
        let mut inner: Vec<(String, OwnedValue)> = Vec::new();
        inner.push(("x".to_string(), OwnedValue::U64(n)));
        obj.insert("o".to_string(), OwnedValue::Object(inner));
    }
    if !obj.is_empty() {
        d.add_object(f.json, obj);
    }
    d.add_u64(f.tag, e.tag);
    d
}

fn check(index: &Index, f: &Fields, order: Order, seed: u64, alive: &HashMap<u64, bool>) -> Vec<String> {
    let mut errs = Vec::new();
    let reader = index.reader().unwrap();
    reader.reload().unwrap();
    let searcher = reader.searcher();
    let mut n_alive = 0usize;
    for (so, seg) in searcher.segment_readers().iter().enumerate() {
        let p = format!("seg#{so}({}/{})", seg.num_docs(), seg.max_doc());
        let ff = seg.fast_fields();
        let sort_col = ff.i64("sortv").unwrap();
        let mut prev: Option<Option<i64>> = None;
        for doc in 0..seg.max_doc() {
            let v = sort_col.first(doc);
            if let Some(pv) = prev {
                let ok = if order == Order::Asc { pv <= v } else { pv >= v };
                if !ok {
                    errs.push(format!("{p}: not sorted at {doc}: {pv:?} then {v:?}"));
                    break;
                }
            }
            prev = Some(v);
        }
        let id_col = ff.u64("id").unwrap();
        let facet_reader = seg.facet_reader("facet").unwrap();
        let ip_col = ff.ip_addr("ip").unwrap();
        let b_col = ff.bool("b").unwrap();
        let dates_col = ff.date("dates").unwrap();
        let ms_col = ff.str("ms").unwrap().unwrap();
        let jarr_col = ff.i64("json.arr").ok();
        let jt_col = ff.str("json.t").unwrap_or(None);
        let jn_col = ff.i64("json.o.x").ok();
        let store = seg.get_store_reader(10).unwrap();
        let mut docs: HashMap<u32, (u64, Extras)> = HashMap::new();
        for doc in seg.doc_ids_alive() {
            n_alive += 1;
            let id = id_col.first(doc).unwrap_or(u64::MAX);
            let stored: TantivyDocument = store.get(doc).unwrap();
            let sid = stored.get_first(f.id).and_then(|v| v.as_u64()).unwrap_or(u64::MAX - 1);
            if sid != id {
                errs.push(format!("{p}: doc {doc} stored id {sid} fast id {id}"));
                continue;
            }
            match alive.get(&id) {
                Some(true) => {}
                other => errs.push(format!("{p}: doc {doc} id {id} alive in the index, model says {other:?}")),
            }
            let e = extras(id, seed);
            if sort_col.values_for_doc(doc).collect::<Vec<_>>() != e.sort.iter().copied().collect::<Vec<_>>() {
                errs.push(format!("{p}: id {id} sortv"));
            }
            let mut exp_facets = e.facets.clone();
            exp_facets.sort();
            let got_facets: Vec<String> = facet_reader
                .facet_ords(doc)
                .map(|o| {
                    let mut fa = Facet::root();
                    facet_reader.facet_from_ord(o, &mut fa).unwrap();
                    fa.to_path_string()
                })
                .collect();
            if got_facets != exp_facets {
                errs.push(format!("{p}: id {id} facets {got_facets:?} != {exp_facets:?}"));
            }
            let stored_facets: Vec<String> = stored
                .get_all(f.facet)
                .filter_map(|v| v.as_facet().map(|s| s.to_string()))
                .collect();
            if stored_facets.len() != e.facets.len() {
                errs.push(format!("{p}: id {id} stored facets {stored_facets:?} != {:?}", e.facets));
            }
            let got_ip: Vec<u128> = ip_col.values_for_doc(doc).map(u128::from).collect();
            if got_ip != e.ip.iter().copied().collect::<Vec<_>>() {
                errs.push(format!("{p}: id {id} ip {got_ip:?} != {:?}", e.ip));
            }
            let got_b: Vec<bool> = b_col.values_for_doc(doc).collect();
            if got_b != e.b.iter().copied().collect::<Vec<_>>() {
                errs.push(format!("{p}: id {id} bool {got_b:?} != {:?}", e.b));
            }
            let got_d: Vec<i64> = dates_col.values_for_doc(doc).map(|d| d.into_timestamp_secs()).collect();
            if got_d != e.dates {
                errs.push(format!("{p}: id {id} dates {got_d:?} != {:?}", e.dates));
            }
            let got_ms: Vec<String> = ms_col
                .term_ords(doc)
                .map(|o| {
                    let mut s = String::new();
                    ms_col.ord_to_str(o, &mut s).unwrap();
                    s
                })
                .collect();
            if got_ms != e.ms {
                errs.push(format!("{p}: id {id} ms {got_ms:?} != {:?}", e.ms));
            }
            let got_jarr: Vec<i64> = jarr_col.as_ref().map(|c| c.values_for_doc(doc).collect()).unwrap_or_default();
            if got_jarr != e.jarr {
                errs.push(format!("{p}: id {id} json.arr {got_jarr:?} != {:?}", e.jarr));
            }
            let got_jt: Vec<String> = jt_col
                .as_ref()
                .map(|c| {
                    c.term_ords(doc)
                        .map(|o| {
                            let mut s = String::new();
                            c.ord_to_str(o, &mut s).unwrap();
                            s
                        })
                        .collect()
                })
                .unwrap_or_default();
            let exp_jt: Vec<String> = if e.jtext.is_empty() { vec![] } else { vec![e.jtext.join(" ")] };
            if got_jt != exp_jt {
                errs.push(format!("{p}: id {id} json.t {got_jt:?} != {exp_jt:?}"));
            }
            let got_jn: Vec<u64> = jn_col.as_ref().map(|c| c.values_for_doc(doc).map(|v| v as u64).collect()).unwrap_or_default();
            if got_jn != e.jnested.iter().copied().collect::<Vec<_>>() {
                errs.push(format!("{p}: id {id} json.o.x {got_jn:?} != {:?}", e.jnested));
            }
            docs.insert(doc, (id, e));
            if errs.len() > 20 {
                return errs;
            }
        }
        // postings: ftext with freqs
        let inv = seg.inverted_index(f.ftext).unwrap();
        for w in 0..5 {
            let word = format!("f{w}");
            let mut got: HashMap<u32, u32> = HashMap::new();
            if let Some(mut po) = inv
                .read_postings(&Term::from_field_text(f.ftext, &word), IndexRecordOption::WithFreqs)
                .unwrap()
            {
                while po.doc() != TERMINATED {
                    got.insert(po.doc(), po.term_freq());
                    po.advance();
                }
            }
            for (doc, (id, e)) in &docs {
                let exp = e.fwords.iter().filter(|x| **x == word).count() as u32;
                let g = got.get(doc).copied().unwrap_or(0);
                if g != exp {
                    errs.push(format!("{p}: id {id} ftext {word} tf {g} != {exp}"));
                }
            }
        }
        // postings: json text with positions, json numbers
        let invj = seg.inverted_index(f.json).unwrap();
        for w in 0..5 {
            let word = format!("j{w}");
            let mut term = Term::from_field_json_path(f.json, "t", false);
            term.append_type_and_str(&word);
            let mut got: HashMap<u32, Vec<u32>> = HashMap::new();
            if let Some(mut po) = invj.read_postings(&term, IndexRecordOption::WithFreqsAndPositions).unwrap() {
                while po.doc() != TERMINATED {
                    let mut pos = Vec::new();
                    po.positions(&mut pos);
                    got.insert(po.doc(), pos);
                    po.advance();
                }
            }
            for (doc, (id, e)) in &docs {
                let exp: Vec<u32> = e.jtext.iter().enumerate().filter(|(_, x)| **x == word).map(|(i, _)| i as u32).collect();
                let g = got.get(doc).cloned().unwrap_or_default();
                if g != exp {
                    errs.push(format!("{p}: id {id} json.t {word} positions {g:?} != {exp:?}"));
                }
            }
        }
        for v in -25i64..25 {
            let mut term = Term::from_field_json_path(f.json, "arr", false);
            term.append_type_and_fast_value(v);
            let mut got: Vec<u32> = Vec::new();
            if let Some(mut po) = invj.read_postings(&term, IndexRecordOption::Basic).unwrap() {
                while po.doc() != TERMINATED {
                    got.push(po.doc());
                    po.advance();
                }
            }
            let mut exp: Vec<u32> = docs.iter().filter(|(_, (_, e))| e.jarr.contains(&v)).map(|(d, _)| *d).collect();
            exp.sort();
            let got_alive: Vec<u32> = got.iter().copied().filter(|d| docs.contains_key(d)).collect();
            if got_alive != exp {
                errs.push(format!("{p}: json.arr={v} postings {got_alive:?} != {exp:?}"));
            }
        }
        // ip / bool / date terms
        let inv_ip = seg.inverted_index(f.ip).unwrap();
        for (doc, (id, e)) in &docs {
            if let Some(ip) = e.ip {
                let term = Term::from_field_ip_addr(f.ip, Ipv6Addr::from(ip));
                let mut found = false;
                if let Some(mut po) = inv_ip.read_postings(&term, IndexRecordOption::Basic).unwrap() {
                    while po.doc() != TERMINATED {
                        if po.doc() == *doc {
                            found = true;
                        }
                        po.advance();
                    }
                }
                if !found {
                    errs.push(format!("{p}: id {id} not in the postings of its ip"));
                }
            }
        }
        if errs.len() > 20 {
            return errs;
        }
    }
    let exp_alive = alive.values().filter(|a| **a).count();
    if n_alive != exp_alive {
        errs.push(format!("alive {n_alive} != {exp_alive}"));
    }
    errs
}

fn run(seed: u64, order: Order, rounds: usize, per_round: u64) -> Vec<String> {
    let (schema, f) = schema();
    let index = Index::builder()
        .schema(schema)
        .settings(IndexSettings {
            sort_by_field: Some(IndexSortByField {
                field: "sortv".to_string(),
                order,
            }),
            docstore_blocksize: if seed % 2 == 0 { 50 } else { 16_384 },
            ..Default::default()
        })
        .create_in_ram()
        .unwrap();
    let mut w: IndexWriter = index.writer_with_num_threads(1, 20_000_000).unwrap();
    w.set_merge_policy(Box::new(NoMergePolicy));
    let mut rng = Rng::new(seed);
    let mut alive: HashMap<u64, bool> = HashMap::new();
    let mut tags: HashMap<u64, u64> = HashMap::new();
    let mut next_id = 0u64;
    for round in 0..rounds {
        for _ in 0..1 + rng.below(per_round) {
            let e = extras(next_id, seed);
            w.add_document(to_doc(&f, next_id, &e)).unwrap();
            alive.insert(next_id, true);
            tags.insert(next_id, e.tag);
            next_id += 1;
            if rng.chance(5) {
                let tag = rng.below(10);
                w.delete_term(Term::from_field_u64(f.tag, tag));
                for (id, t) in &tags {
                    if *t == tag {
                        alive.insert(*id, false);
                    }
                }
            }
        }
        w.commit().unwrap();
        let errs = check(&index, &f, order, seed, &alive);
        if !errs.is_empty() {
            return std::iter::once(format!("after commit {round}")).chain(errs).collect();
        }
        if rng.chance(50) {
            let ids = index.searchable_segment_ids().unwrap();
            if ids.len() >= 2 {
                w.merge(&ids).wait().unwrap();
                let errs = check(&index, &f, order, seed, &alive);
                if !errs.is_empty() {
                    return std::iter::once(format!("after merge in round {round}")).chain(errs).collect();
                }
            }
        }
    }
    Vec::new()
}

#[test]
fn model2() {
    let mut failures = Vec::new();
    for seed in 0..10u64 {
        for order in [Order::Asc, Order::Desc] {
            let errs = run(seed, order, 7, 50);
            if !errs.is_empty() {
                failures.push(format!("seed {seed} {order:?}:\n  {}", errs.join("\n  ")));
            }
        }
    }
    assert!(failures.is_empty(), "{}", failures.join("\n"));
}
