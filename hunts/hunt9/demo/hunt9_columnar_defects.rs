use columnar::{ColumnarReader, ColumnarWriter, DynamicColumn, NumericalValue, RowAddr, ShuffleMergeOrder};

fn open(w: &mut ColumnarWriter, n: u32) -> ColumnarReader {
    let mut buf = Vec::new();
    w.serialize(n, None, &mut buf).unwrap();
    ColumnarReader::open(buf).unwrap()
}

/// C08: "Merging columnar data ... by any row permutation with deletions yields exactly the
/// correspondingly rearranged values".
#[test]
fn deleted_negative_value_must_not_make_the_merge_lossy() {
    // input 0: rows [-1, 5]; row 0 is deleted by the merge order.
    let mut w0 = ColumnarWriter::default();
    w0.record_numerical(0, "n", NumericalValue::I64(-1));
    w0.record_numerical(1, "n", NumericalValue::I64(5));
    let r0 = open(&mut w0, 2);
    // input 1: a large u64
    let big = u64::MAX - 1;
    let mut w1 = ColumnarWriter::default();
    w1.record_numerical(0, "n", NumericalValue::U64(big));
    let r1 = open(&mut w1, 1);
    let order = ShuffleMergeOrder::for_test(
        &[2, 1],
        vec![
            RowAddr { segment_ord: 0, row_id: 1 },
            RowAddr { segment_ord: 1, row_id: 0 },
        ],
    );
    let mut out = Vec::new();
    columnar::merge_columnar(&[&r0, &r1], &[], order.into(), &mut out).unwrap();
    let merged = ColumnarReader::open(out).unwrap();
    let cols = merged.read_columns("n").unwrap();
    assert_eq!(cols.len(), 1);
    let col = cols[0].open().unwrap();
    println!("merged column type: {:?}", col.column_type());
    // the two surviving values, 5 and u64::MAX - 1, both fit a u64 column
    match col {
        DynamicColumn::U64(c) => {
            assert_eq!(c.first(0), Some(5));
            assert_eq!(c.first(1), Some(big));
        }
        DynamicColumn::F64(c) => {
            let v = c.first(1).unwrap();
            panic!("u64 value {big} came back as the f64 {v} (= {} as u64)", v as u64);
        }
        other => panic!("unexpected type {:?}", other.column_type()),
    }
}

/// C08: "the column returns exactly the values that were added ... none when absent"
#[test]
fn first_vals_reports_none_for_rows_without_value() {
    let mut w = ColumnarWriter::default();
    // row 0: 10, 11 ; row 1: nothing ; row 2: 12
    w.record_numerical(0, "n", NumericalValue::U64(10));
    w.record_numerical(0, "n", NumericalValue::U64(11));
    w.record_numerical(2, "n", NumericalValue::U64(12));
    let r = open(&mut w, 3);
    let DynamicColumn::I64(col) = r.read_columns("n").unwrap()[0].open().unwrap() else {
        panic!("not i64")
    };
    // a caller that reuses its output buffer, like with every other block API
    let mut out = vec![None; 2];
    col.first_vals(&[0, 2], &mut out);
    assert_eq!(out, vec![Some(10), Some(12)]);
    col.first_vals(&[1, 2], &mut out);
    assert_eq!(out, vec![col.first(1), col.first(2)], "first_vals disagrees with first()");
}

/// The same through an index: a JSON fast field, a deleted document and a merge.
#[test]
fn json_fast_field_value_survives_a_merge_with_a_deleted_negative_value() {
    use tantivy::indexer::NoMergePolicy;
    use tantivy::schema::{JsonObjectOptions, Schema, INDEXED};
    use tantivy::{Index, IndexWriter, TantivyDocument, Term};
    let mut sb = Schema::builder();
    let id = sb.add_u64_field("id", INDEXED);
    let _json = sb.add_json_field("json", JsonObjectOptions::default().set_fast(None));
    let schema = sb.build();
    let index = Index::create_in_ram(schema.clone());
    let mut w: IndexWriter = index.writer_with_num_threads(1, 20_000_000).unwrap();
    w.set_merge_policy(Box::new(NoMergePolicy));
    let big = u64::MAX - 1;
    w.add_document(TantivyDocument::parse_json(&schema, r#"{"id": 0, "json": {"n": -1}}"#).unwrap()).unwrap();
    w.add_document(TantivyDocument::parse_json(&schema, r#"{"id": 1, "json": {"n": 5}}"#).unwrap()).unwrap();
    w.commit().unwrap();
    w.add_document(TantivyDocument::parse_json(&schema, &format!(r#"{{"id": 2, "json": {{"n": {big}}}}}"#)).unwrap()).unwrap();
    w.commit().unwrap();
    let read = |index: &Index| -> Vec<String> {
        let reader = index.reader().unwrap();
        reader.reload().unwrap();
        let searcher = reader.searcher();
        let mut out = Vec::new();
        for seg in searcher.segment_readers() {
            let (col, ty) = seg.fast_fields().u64_lenient("json.n").unwrap().unwrap();
            for doc in seg.doc_ids_alive() {
                for v in col.values_for_doc(doc) {
                    out.push(match ty {
                        columnar::ColumnType::U64 => format!("{v}"),
                        columnar::ColumnType::I64 => format!("{}", tantivy::u64_to_i64(v)),
                        columnar::ColumnType::F64 => format!("{:?}", tantivy::u64_to_f64(v)),
                        other => format!("{other:?}"),
                    });
                }
            }
        }
        out.sort();
        out
    };
    w.delete_term(Term::from_field_u64(id, 0));
    w.commit().unwrap();
    let before = read(&index);
    assert_eq!(before, vec![big.to_string(), "5".to_string()]);
    let ids = index.searchable_segment_ids().unwrap();
    w.merge(&ids).wait().unwrap();
    let after = read(&index);
    assert_eq!(after, before, "the merge changed the values of json.n");
}
