// exploration: reload stress on a second Index handle while the writer commits/merges/GCs
use std::sync::atomic::{AtomicBool, AtomicU64, Ordering};
use std::sync::Arc;
use std::time::{Duration, Instant};

use tantivy::collector::Count;
use tantivy::indexer::LogMergePolicy;
use tantivy::query::AllQuery;
use tantivy::schema::{Schema, FAST, INDEXED, STORED, TEXT};
use tantivy::{doc, Index, IndexWriter, ReloadPolicy, Term};

const PER_ROUND: u64 = 10;

#[test]
fn stress() {
    let tmp = tempfile::tempdir().unwrap();
    let mut sb = Schema::builder();
    let text = sb.add_text_field("text", TEXT | STORED);
    let id = sb.add_u64_field("id", FAST | INDEXED | STORED);
    let index = Index::create_in_dir(tmp.path(), sb.build()).unwrap();
    let stop = Arc::new(AtomicBool::new(false));
    let committed_round = Arc::new(AtomicU64::new(0)); // number of rounds whose commit returned
    let started_round = Arc::new(AtomicU64::new(0)); // number of rounds whose commit started

    let mut handles = vec![];
    for t in 0..3 {
        let stop = stop.clone();
        let committed_round = committed_round.clone();
        let started_round = started_round.clone();
        let path = tmp.path().to_path_buf();
        handles.push(std::thread::spawn(move || {
            let index2 = Index::open_in_dir(&path).unwrap();
            let policy = if t == 0 {
                ReloadPolicy::OnCommitWithDelay
            } else {
                ReloadPolicy::Manual
            };
            let reader = index2.reader_builder().reload_policy(policy).try_into().unwrap();
            let mut last = 0u64;
            let mut errors = vec![];
            let mut n_reload = 0u64;
            while !stop.load(Ordering::SeqCst) {
                let lo = committed_round.load(Ordering::SeqCst);
                if t != 0 {
                    if let Err(e) = reader.reload() {
                        errors.push(format!("reload error: {e}"));
                        continue;
                    }
                    n_reload += 1;
                }
                let searcher = reader.searcher();
                let n = searcher.search(&AllQuery, &Count).unwrap() as u64;
                let hi = started_round.load(Ordering::SeqCst);
                // n must be f(r) for some r
                let ok = (0..=hi + 1).any(|r| expected(r) == n);
                if !ok {
                    errors.push(format!("count {n} is not a commit boundary"));
                }
                if n < last {
                    errors.push(format!("went backwards {last} -> {n}"));
                }
                if t != 0 && n < expected(lo) {
                    errors.push(format!("reload returned older commit: {n} < {}", expected(lo)));
                }
                last = n;
                // same searcher again: immutable
                let n2 = searcher.search(&AllQuery, &Count).unwrap() as u64;
                if n2 != n {
                    errors.push(format!("searcher changed {n} -> {n2}"));
                }
                if t == 0 {
                    std::thread::sleep(Duration::from_millis(5));
                }
            }
            (errors, n_reload)
        }));
    }

    let mut writer: IndexWriter = index.writer_with_num_threads(2, 40_000_000).unwrap();
    let mut mp = LogMergePolicy::default();
    mp.set_min_num_segments(2);
    writer.set_merge_policy(Box::new(mp));
    let start = Instant::now();
    let mut round = 0u64;
    while start.elapsed() < Duration::from_secs(15) {
        for i in 0..PER_ROUND {
            writer
                .add_document(doc!(text => format!("r {round} d {i}"), id => round * PER_ROUND + i))
                .unwrap();
        }
        if round >= 1 {
            writer.delete_term(Term::from_field_u64(id, (round - 1) * PER_ROUND + 3));
        }
        started_round.store(round + 1, Ordering::SeqCst);
        writer.commit().unwrap();
        committed_round.store(round + 1, Ordering::SeqCst);
        round += 1;
    }
    stop.store(true, Ordering::SeqCst);
    let mut all = vec![];
    for h in handles {
        let (errors, n) = h.join().unwrap();
        println!("reloads {n} errors {}", errors.len());
        all.extend(errors);
    }
    all.sort();
    all.dedup();
    println!("rounds {round}; distinct errors: {:#?}", &all[..all.len().min(20)]);
    assert!(all.is_empty());
}

fn expected(rounds: u64) -> u64 {
    if rounds == 0 {
        0
    } else {
        PER_ROUND * rounds - (rounds - 1)
    }
}
