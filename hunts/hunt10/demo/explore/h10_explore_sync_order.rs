// exploration: ordering of terminate / sync_directory / atomic_write(meta.json) on a MmapDirectory
use std::collections::{HashMap, HashSet};
use std::io::{self, Write};
use std::path::{Path, PathBuf};
use std::sync::{Arc, Mutex};

use tantivy::directory::error::{DeleteError, LockError, OpenReadError, OpenWriteError};
use tantivy::directory::{
    AntiCallToken, DirectoryLock, FileHandle, Lock, MmapDirectory, TerminatingWrite, WatchCallback,
    WatchHandle, WritePtr,
};
use tantivy::indexer::LogMergePolicy;
use tantivy::schema::*;
use tantivy::{doc, Directory, Index, IndexSettings, IndexSortByField, IndexWriter, Order, Term};

#[derive(Default)]
struct Log {
    seq: u64,
    created: HashMap<PathBuf, u64>,
    terminated: HashMap<PathBuf, u64>,
    written_after_terminate: HashSet<PathBuf>,
    last_dir_sync: u64,
    problems: Vec<String>,
    meta_writes: u64,
}

#[derive(Clone)]
struct TrackDir {
    inner: MmapDirectory,
    log: Arc<Mutex<Log>>,
}

impl std::fmt::Debug for TrackDir {
    fn fmt(&self, f: &mut std::fmt::Formatter<'_>) -> std::fmt::Result {
        write!(f, "TrackDir")
    }
}

struct TrackWriter {
    path: PathBuf,
    inner: WritePtr,
    log: Arc<Mutex<Log>>,
    terminated: bool,
}

impl Write for TrackWriter {
    fn write(&mut self, buf: &[u8]) -> io::Result<usize> {
        if self.terminated {
            self.log
                .lock()
                .unwrap()
                .written_after_terminate
                .insert(self.path.clone());
        }
        self.inner.write(buf)
    }
    fn flush(&mut self) -> io::Result<()> {
        self.inner.flush()
    }
}

impl TerminatingWrite for TrackWriter {
    fn terminate_ref(&mut self, token: AntiCallToken) -> io::Result<()> {
        self.inner.terminate_ref(token)?;
        self.terminated = true;
        let mut log = self.log.lock().unwrap();
        log.seq += 1;
        let seq = log.seq;
        log.terminated.insert(self.path.clone(), seq);
        Ok(())
    }
}

impl Directory for TrackDir {
    fn get_file_handle(&self, path: &Path) -> Result<Arc<dyn FileHandle>, OpenReadError> {
        self.inner.get_file_handle(path)
    }
    fn delete(&self, path: &Path) -> Result<(), DeleteError> {
        self.inner.delete(path)
    }
    fn exists(&self, path: &Path) -> Result<bool, OpenReadError> {
        self.inner.exists(path)
    }
    fn open_write(&self, path: &Path) -> Result<WritePtr, OpenWriteError> {
        let inner = self.inner.open_write(path)?;
        {
            let mut log = self.log.lock().unwrap();
            log.seq += 1;
            let seq = log.seq;
            log.created.insert(path.to_path_buf(), seq);
            log.terminated.remove(path);
        }
        Ok(io::BufWriter::new(Box::new(TrackWriter {
            path: path.to_path_buf(),
            inner,
            log: self.log.clone(),
            terminated: false,
        })))
    }
    fn atomic_read(&self, path: &Path) -> Result<Vec<u8>, OpenReadError> {
        self.inner.atomic_read(path)
    }
    fn atomic_write(&self, path: &Path, data: &[u8]) -> io::Result<()> {
        if path == Path::new("meta.json") {
            let mut log = self.log.lock().unwrap();
            log.seq += 1;
            log.meta_writes += 1;
            let meta: serde_json::Value = serde_json::from_slice(data).unwrap();
            let mut problems = vec![];
            for seg in meta["segments"].as_array().unwrap() {
                let id = seg["segment_id"].as_str().unwrap().replace('-', "");
                let mut names: Vec<String> = ["idx", "pos", "term", "store", "fast", "fieldnorm"]
                    .iter()
                    .map(|e| format!("{id}.{e}"))
                    .collect();
                if let Some(del) = seg["deletes"].as_object() {
                    names.push(format!("{id}.{}.del", del["opstamp"].as_u64().unwrap()));
                }
                for name in names {
                    let p = PathBuf::from(&name);
                    match (log.created.get(&p), log.terminated.get(&p)) {
                        (None, _) => {
                            if !self.inner.exists(&p).unwrap() {
                                problems.push(format!("{name}: referenced but never created"));
                            }
                        }
                        (Some(_), None) => {
                            problems.push(format!("{name}: referenced by meta.json, not terminated"))
                        }
                        (Some(c), Some(_t)) => {
                            if log.last_dir_sync < *c {
                                problems.push(format!(
                                    "{name}: created at {c}, last dir sync {} before meta.json",
                                    log.last_dir_sync
                                ));
                            }
                        }
                    }
                }
            }
            log.problems.extend(problems);
        }
        self.inner.atomic_write(path, data)
    }
    fn sync_directory(&self) -> io::Result<()> {
        self.inner.sync_directory()?;
        let mut log = self.log.lock().unwrap();
        log.seq += 1;
        log.last_dir_sync = log.seq;
        Ok(())
    }
    fn acquire_lock(&self, lock: &Lock) -> Result<DirectoryLock, LockError> {
        self.inner.acquire_lock(lock)
    }
    fn watch(&self, watch_callback: WatchCallback) -> tantivy::Result<WatchHandle> {
        self.inner.watch(watch_callback)
    }
}

fn run(sorted: bool) {
    let tmp = tempfile::tempdir().unwrap();
    let log = Arc::new(Mutex::new(Log::default()));
    let dir = TrackDir {
        inner: MmapDirectory::open(tmp.path()).unwrap(),
        log: log.clone(),
    };
    let mut sb = Schema::builder();
    let text = sb.add_text_field("text", TEXT | STORED);
    let num = sb.add_u64_field("num", FAST | INDEXED | STORED);
    let js = sb.add_json_field("js", TEXT | STORED | FAST);
    let schema = sb.build();
    let settings = IndexSettings {
        sort_by_field: if sorted {
            Some(IndexSortByField {
                field: "num".to_string(),
                order: Order::Desc,
            })
        } else {
            None
        },
        ..Default::default()
    };
    let index = Index::create(dir, schema, settings).unwrap();
    let mut w: IndexWriter = index.writer_with_num_threads(3, 60_000_000).unwrap();
    let mut mp = LogMergePolicy::default();
    mp.set_min_num_segments(2);
    w.set_merge_policy(Box::new(mp));
    for round in 0..12u64 {
        for i in 0..30u64 {
            w.add_document(doc!(text => format!("hello world {i} {round}"), num => i + round * 100, js => serde_json::json!({"a": i, "b": format!("x{round}")})))
                .unwrap();
        }
        if round % 2 == 1 {
            w.delete_term(Term::from_field_u64(num, round * 100 - 95));
            w.delete_term(Term::from_field_text(text, "7"));
        }
        if round % 5 == 4 {
            w.rollback().unwrap();
        } else {
            w.commit().unwrap();
        }
    }
    w.wait_merging_threads().unwrap();
    let log = log.lock().unwrap();
    println!(
        "sorted={sorted} meta writes={} files={} problems={:#?} written_after_terminate={:?}",
        log.meta_writes,
        log.created.len(),
        log.problems,
        log.written_after_terminate
    );
    let unterminated: Vec<_> = log
        .created
        .keys()
        .filter(|p| !log.terminated.contains_key(*p) && tmp.path().join(p).exists())
        .collect();
    println!("created, still on disk, never terminated: {unterminated:?}");
    assert!(log.problems.is_empty());
}

#[test]
fn sync_order_unsorted() {
    run(false);
}

#[test]
fn sync_order_sorted() {
    run(true);
}
