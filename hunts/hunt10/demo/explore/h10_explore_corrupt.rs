// exploration: truncation / corruption matrix on a real directory
use std::collections::BTreeMap;
use std::fs;
use std::panic::{catch_unwind, AssertUnwindSafe};
use std::path::Path;

use tantivy::collector::{Count, TopDocs};
use tantivy::query::{AllQuery, QueryParser};
use tantivy::schema::*;
use tantivy::{doc, Index, IndexWriter, ReloadPolicy, TantivyDocument, Term};

fn build(path: &Path) -> Schema {
    let mut sb = Schema::builder();
    let text = sb.add_text_field("text", TEXT | STORED);
    let num = sb.add_u64_field("num", FAST | INDEXED | STORED);
    let schema = sb.build();
    let index = Index::create_in_dir(path, schema.clone()).unwrap();
    let mut w: IndexWriter = index.writer_with_num_threads(1, 15_000_000).unwrap();
    for i in 0..20u64 {
        w.add_document(doc!(text => format!("hello world {i}"), num => i))
            .unwrap();
    }
    w.commit().unwrap();
    w.delete_term(Term::from_field_u64(num, 3));
    w.commit().unwrap();
    w.wait_merging_threads().unwrap();
    schema
}

fn exercise(path: &Path) -> Result<String, String> {
    let index = Index::open_in_dir(path).map_err(|e| format!("open: {e}"))?;
    let damaged = index
        .validate_checksum()
        .map(|s| format!("{s:?}"))
        .unwrap_or_else(|e| format!("ERR({e})"));
    let reader = index
        .reader_builder()
        .reload_policy(ReloadPolicy::Manual)
        .try_into()
        .map_err(|e| format!("reader: {e} [validate={damaged}]"))?;
    let searcher = reader.searcher();
    let n = searcher
        .search(&AllQuery, &Count)
        .map_err(|e| format!("count: {e}"))?;
    let text = index.schema().get_field("text").unwrap();
    let qp = QueryParser::for_index(&index, vec![text]);
    let q = qp.parse_query("hello").unwrap();
    let top = searcher
        .search(&q, &TopDocs::with_limit(30).order_by_score())
        .map_err(|e| format!("search: {e}"))?;
    for (_s, addr) in &top {
        let _d: TantivyDocument = searcher.doc(*addr).map_err(|e| format!("doc: {e}"))?;
    }
    Ok(format!("ok n={n} top={} validate={damaged}", top.len()))
}

#[test]
fn truncation_matrix() {
    let dir = tempfile::tempdir().unwrap();
    build(dir.path());
    let mut files: Vec<_> = fs::read_dir(dir.path())
        .unwrap()
        .map(|e| e.unwrap().path())
        .collect();
    files.sort();
    let mut summary: BTreeMap<String, Vec<String>> = BTreeMap::new();
    for f in &files {
        let name = f.file_name().unwrap().to_str().unwrap().to_string();
        let orig = fs::read(f).unwrap();
        println!("FILE {name} len={}", orig.len());
        let mut lens: Vec<usize> = vec![0, 1, 4, 7, 8, 9];
        lens.extend((0..orig.len()).step_by(orig.len().max(40) / 40));
        for k in 1..60 {
            if orig.len() > k {
                lens.push(orig.len() - k);
            }
        }
        lens.sort();
        lens.dedup();
        for l in lens {
            if l >= orig.len() {
                continue;
            }
            fs::write(f, &orig[..l]).unwrap();
            let res = catch_unwind(AssertUnwindSafe(|| exercise(dir.path())));
            let key = match res {
                Ok(Ok(s)) => format!("{name}: {s}"),
                Ok(Err(e)) => {
                    let e: String = e.chars().take(90).collect();
                    format!("{name}: err {e}")
                }
                Err(p) => {
                    let msg = p
                        .downcast_ref::<String>()
                        .cloned()
                        .or_else(|| p.downcast_ref::<&str>().map(|s| s.to_string()))
                        .unwrap_or_default();
                    let msg: String = msg.chars().take(120).collect();
                    format!("{name}: PANIC {msg}")
                }
            };
            summary.entry(key).or_default().push(format!("{l}"));
        }
        fs::write(f, &orig).unwrap();
    }
    for (k, v) in &summary {
        println!("{k}  <= lens {}", v.join(","));
    }
}

#[test]
fn extension_and_flip_matrix() {
    let dir = tempfile::tempdir().unwrap();
    build(dir.path());
    let mut files: Vec<_> = fs::read_dir(dir.path())
        .unwrap()
        .map(|e| e.unwrap().path())
        .collect();
    files.sort();
    let mut summary: BTreeMap<String, Vec<String>> = BTreeMap::new();
    for f in &files {
        let name = f.file_name().unwrap().to_str().unwrap().to_string();
        if name.starts_with('.') || name == "meta.json" {
            continue;
        }
        let orig = fs::read(f).unwrap();
        // find body len: footer_len at [len-8..len-4]
        let n = orig.len();
        let flen = u32::from_le_bytes(orig[n - 8..n - 4].try_into().unwrap()) as usize;
        let body_len = n - 8 - flen;
        println!("FILE {name} len={n} body={body_len}");
        for pos in 0..body_len {
            for bit in [0u8, 7u8] {
                let mut c = orig.clone();
                c[pos] ^= 1 << bit;
                fs::write(f, &c).unwrap();
                let index = Index::open_in_dir(dir.path()).unwrap();
                let res = catch_unwind(AssertUnwindSafe(|| index.validate_checksum()));
                let key = match res {
                    Ok(Ok(s)) => {
                        if s.len() == 1 && s.iter().next().unwrap().to_str().unwrap() == name {
                            format!("{name}: flip detected")
                        } else {
                            format!("{name}: flip -> {s:?}")
                        }
                    }
                    Ok(Err(e)) => format!("{name}: flip ERR {e}"),
                    Err(_) => format!("{name}: flip PANIC"),
                };
                summary.entry(key).or_default().push(format!("{pos}"));
            }
        }
        // extension of the body: insert bytes at end of body
        for extra in [1usize, 4, 8, 100] {
            let mut c = orig[..body_len].to_vec();
            c.extend(std::iter::repeat(0u8).take(extra));
            c.extend_from_slice(&orig[body_len..]);
            fs::write(f, &c).unwrap();
            let index = Index::open_in_dir(dir.path()).unwrap();
            let r = index.validate_checksum();
            summary
                .entry(format!("{name}: body-extension -> {r:?}"))
                .or_default()
                .push(format!("{extra}"));
            // append after footer
            let mut c = orig.clone();
            c.extend(std::iter::repeat(0u8).take(extra));
            fs::write(f, &c).unwrap();
            let index = Index::open_in_dir(dir.path()).unwrap();
            let r = index.validate_checksum();
            let r = format!("{r:?}");
            let r: String = r.chars().take(100).collect();
            summary
                .entry(format!("{name}: file-extension -> {r}"))
                .or_default()
                .push(format!("{extra}"));
        }
        fs::write(f, &orig).unwrap();
    }
    for (k, v) in &summary {
        let v = if v.len() > 12 {
            format!("{} positions", v.len())
        } else {
            v.join(",")
        };
        println!("{k}  <= {v}");
    }
}
