// exploration: misc probes
use std::fs;
use std::panic::{catch_unwind, AssertUnwindSafe};

use tantivy::schema::{Schema, TEXT};
use tantivy::{doc, Index, IndexWriter};

#[test]
fn zero_threads() {
    let tmp = tempfile::tempdir().unwrap();
    let mut sb = Schema::builder();
    sb.add_text_field("text", TEXT);
    let index = Index::create_in_dir(tmp.path(), sb.build()).unwrap();
    let r = catch_unwind(AssertUnwindSafe(|| {
        index
            .writer_with_num_threads::<tantivy::TantivyDocument>(0, 50_000_000)
            .map(|_| ())
    }));
    println!("writer_with_num_threads(0, ..) -> {:?}", r.as_ref().map_err(|_| "PANIC"));
    let w: IndexWriter = index.writer_with_num_threads(1, 15_000_000).unwrap();
    drop(w);
}

#[test]
fn validate_checksum_without_managed_json() {
    let tmp = tempfile::tempdir().unwrap();
    let mut sb = Schema::builder();
    let text = sb.add_text_field("text", TEXT);
    let index = Index::create_in_dir(tmp.path(), sb.build()).unwrap();
    let mut w: IndexWriter = index.writer_with_num_threads(1, 15_000_000).unwrap();
    w.add_document(doc!(text => "hello")).unwrap();
    w.commit().unwrap();
    drop(w);
    drop(index);
    fs::remove_file(tmp.path().join(".managed.json")).unwrap();
    let term = fs::read_dir(tmp.path())
        .unwrap()
        .map(|e| e.unwrap().path())
        .find(|p| p.extension().map(|e| e == "term").unwrap_or(false))
        .unwrap();
    let mut bytes = fs::read(&term).unwrap();
    bytes[2] ^= 1;
    fs::write(&term, bytes).unwrap();
    let index = Index::open_in_dir(tmp.path()).unwrap();
    println!("validate_checksum without .managed.json: {:?}", index.validate_checksum());
}
