//! C05 / ReloadPolicy::OnCommitWithDelay on a real MmapDirectory: a reader that is being built while
//! a commit lands never sees that commit.
//!
//! `IndexReaderBuilder::try_into` first loads a searcher (reads meta.json, opens the segments, runs
//! the warmers - "may take hundreds of milliseconds") and only THEN subscribes to the meta.json
//! watcher. The watcher thread of the MmapDirectory is shared by all readers of the directory and
//! remembers the checksum of the last meta.json it broadcast, so a commit that is detected inside
//! that window is broadcast to the already subscribed readers only: the new reader stays on the old
//! commit until some later commit happens (possibly forever).

use std::sync::atomic::{AtomicBool, Ordering};
use std::sync::{Arc, Condvar, Mutex, Weak};
use std::time::{Duration, Instant};

use tantivy::schema::{Schema, TEXT};
use tantivy::{doc, Index, IndexWriter, ReloadPolicy, Searcher, SearcherGeneration, Warmer};

#[derive(Default)]
struct SlowWarmer {
    armed: AtomicBool,
    state: Mutex<(bool, bool)>, // (warming started, may finish)
    cond: Condvar,
}

impl Warmer for SlowWarmer {
    fn warm(&self, _searcher: &Searcher) -> tantivy::Result<()> {
        if self.armed.swap(false, Ordering::SeqCst) {
            let mut state = self.state.lock().unwrap();
            state.0 = true;
            self.cond.notify_all();
            while !state.1 {
                state = self.cond.wait(state).unwrap();
            }
        }
        Ok(())
    }
    fn garbage_collect(&self, _live_generations: &[&SearcherGeneration]) {}
}

fn wait_for(mut cond: impl FnMut() -> bool, timeout: Duration) -> bool {
    let start = Instant::now();
    while start.elapsed() < timeout {
        if cond() {
            return true;
        }
        std::thread::sleep(Duration::from_millis(20));
    }
    cond()
}

#[test]
fn reader_built_during_a_commit_misses_it() -> tantivy::Result<()> {
    let tmp = tempfile::tempdir().unwrap();
    let mut schema_builder = Schema::builder();
    let text = schema_builder.add_text_field("text", TEXT);
    let index = Index::create_in_dir(tmp.path(), schema_builder.build())?;
    let mut writer: IndexWriter = index.writer_with_num_threads(1, 15_000_000)?;
    writer.add_document(doc!(text => "a"))?;
    writer.commit()?;

    // A first reader (default policy OnCommitWithDelay): starts the meta.json watcher thread.
    let reader_1 = index
        .reader_builder()
        .reload_policy(ReloadPolicy::OnCommitWithDelay)
        .try_into()?;
    assert_eq!(reader_1.searcher().num_docs(), 1);
    // let the watcher take its first look at meta.json
    std::thread::sleep(Duration::from_millis(1_200));

    // A second reader is built on another thread; its warmer is slow.
    let warmer = Arc::new(SlowWarmer::default());
    warmer.armed.store(true, Ordering::SeqCst);
    let warmer_dyn: Arc<dyn Warmer> = warmer.clone();
    let warmer_weak: Weak<dyn Warmer> = Arc::downgrade(&warmer_dyn);
    let index_clone = index.clone();
    let builder_thread = std::thread::spawn(move || {
        index_clone
            .reader_builder()
            .reload_policy(ReloadPolicy::OnCommitWithDelay)
            .warmers(vec![warmer_weak])
            .try_into()
    });
    {
        let mut state = warmer.state.lock().unwrap();
        while !state.0 {
            state = warmer.cond.wait(state).unwrap();
        }
    }

    // A commit lands while reader 2 is warming the searcher it loaded from the first commit.
    writer.add_document(doc!(text => "b"))?;
    writer.commit()?;
    // ... and the watcher notices it: reader 1 is reloaded.
    assert!(
        wait_for(|| reader_1.searcher().num_docs() == 2, Duration::from_secs(10)),
        "reader 1 never saw the second commit"
    );

    {
        let mut state = warmer.state.lock().unwrap();
        state.1 = true;
        warmer.cond.notify_all();
    }
    let reader_2 = builder_thread.join().unwrap()?;

    // Give the watcher plenty of polling periods (500ms each).
    let saw_commit = wait_for(|| reader_2.searcher().num_docs() == 2, Duration::from_secs(5));
    println!(
        "reader_1 sees {} docs, reader_2 sees {} docs",
        reader_1.searcher().num_docs(),
        reader_2.searcher().num_docs()
    );
    assert!(
        saw_commit,
        "5 seconds after the commit returned, a reader with ReloadPolicy::OnCommitWithDelay still \
         serves the previous commit ({} doc instead of 2)",
        reader_2.searcher().num_docs()
    );
    Ok(())
}
