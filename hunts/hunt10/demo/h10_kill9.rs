//! C10 / C01 on the real file system, with a real crash: a child process indexes, commits and merges
//! in a loop on a MmapDirectory and is killed with SIGKILL at a random instant. The parent then
//! re-opens the directory, checks that it exposes exactly one commit, takes a new writer, commits,
//! waits for the merges, collects garbage and compares the content of the directory with the files
//! of the committed segments.
//!
//! Finding: `MmapDirectory::atomic_write` creates its temporary file (`.tmpXXXXXX`) inside the index
//! directory. A process that dies between the creation of that file and its rename leaves it
//! behind; its name starts with a dot so it is never registered as a managed file and no garbage
//! collection ever removes it: every such crash leaks one file for ever.

use std::collections::BTreeSet;
use std::io::{BufRead, BufReader};
use std::path::Path;
use std::process::{Command, Stdio};
use std::time::Duration;

use tantivy::collector::Count;
use tantivy::indexer::LogMergePolicy;
use tantivy::query::AllQuery;
use tantivy::schema::{Schema, FAST, INDEXED, STORED, TEXT};
use tantivy::{doc, Index, IndexWriter, ReloadPolicy, Term};

const DOCS_PER_ROUND: u64 = 20;

fn schema() -> Schema {
    let mut schema_builder = Schema::builder();
    schema_builder.add_text_field("text", TEXT | STORED);
    schema_builder.add_u64_field("id", FAST | INDEXED | STORED);
    schema_builder.build()
}

fn expected_docs(round: u64) -> u64 {
    // round r (0-based) adds DOCS_PER_ROUND docs; every round >= 1 deletes one doc of the
    // previous round.
    DOCS_PER_ROUND * (round + 1) - round
}

fn current_round(index: &Index) -> Option<u64> {
    index
        .load_metas()
        .unwrap()
        .payload
        .map(|payload| payload.parse::<u64>().unwrap())
}

/// Runs in the child process only.
#[test]
fn child_entry() {
    let Ok(dir) = std::env::var("H10_CHILD_DIR") else {
        return;
    };
    let index = Index::open_or_create(
        tantivy::directory::MmapDirectory::open(&dir).unwrap(),
        schema(),
    )
    .unwrap();
    let text = index.schema().get_field("text").unwrap();
    let id = index.schema().get_field("id").unwrap();
    let mut writer: IndexWriter = index.writer_with_num_threads(2, 40_000_000).unwrap();
    let mut merge_policy = LogMergePolicy::default();
    merge_policy.set_min_num_segments(3);
    writer.set_merge_policy(Box::new(merge_policy));
    let mut round = current_round(&index).map(|r| r + 1).unwrap_or(0);
    loop {
        for i in 0..DOCS_PER_ROUND {
            writer
                .add_document(doc!(text => format!("round {round} doc {i}"), id => round * DOCS_PER_ROUND + i))
                .unwrap();
        }
        if round >= 1 {
            writer.delete_term(Term::from_field_u64(id, (round - 1) * DOCS_PER_ROUND + 7));
        }
        let mut prepared = writer.prepare_commit().unwrap();
        prepared.set_payload(&round.to_string());
        prepared.commit().unwrap();
        println!("COMMITTED {round}");
        round += 1;
    }
}

fn list_dir(path: &Path) -> BTreeSet<String> {
    std::fs::read_dir(path)
        .unwrap()
        .map(|entry| entry.unwrap().file_name().into_string().unwrap())
        .collect()
}

/// Returns the files that are on disk and should not be.
fn recover_and_check(path: &Path, last_reported_round: Option<u64>) -> Vec<String> {
    let index = Index::open_in_dir(path).expect("re-opening the index after the crash failed");
    let round = current_round(&index);
    assert!(
        round >= last_reported_round,
        "recovered round {round:?} is older than a commit that returned ({last_reported_round:?})"
    );
    let damaged = index.validate_checksum().expect("validate_checksum failed");
    assert!(damaged.is_empty(), "damaged files after crash: {damaged:?}");
    let reader = index
        .reader_builder()
        .reload_policy(ReloadPolicy::Manual)
        .try_into()
        .expect("cannot open a reader after the crash");
    let num_docs = reader.searcher().search(&AllQuery, &Count).unwrap() as u64;
    if let Some(round) = round {
        assert_eq!(num_docs, expected_docs(round), "not the documents of commit {round}");
    } else {
        assert_eq!(num_docs, 0);
    }
    drop(reader);

    // one commit, and one collection, with a new writer
    let mut writer: IndexWriter = index
        .writer_with_num_threads(1, 15_000_000)
        .expect("cannot take a writer after the crash");
    let mut prepared = writer.prepare_commit().unwrap();
    if let Some(round) = round {
        prepared.set_payload(&round.to_string());
    }
    prepared.commit().expect("commit after crash failed");
    writer.garbage_collect_files().wait().unwrap();
    writer.wait_merging_threads().unwrap();
    let writer: IndexWriter = index.writer_with_num_threads(1, 15_000_000).unwrap();
    writer.garbage_collect_files().wait().unwrap();
    drop(writer);

    let mut expected: BTreeSet<String> = index
        .searchable_segment_metas()
        .unwrap()
        .iter()
        .flat_map(|segment_meta| segment_meta.list_files())
        .map(|p| p.to_str().unwrap().to_string())
        .collect();
    expected.insert("meta.json".to_string());
    expected.insert(".managed.json".to_string());
    expected.insert(".tantivy-writer.lock".to_string());
    expected.insert(".tantivy-meta.lock".to_string());
    list_dir(path)
        .into_iter()
        .filter(|name| !expected.contains(name))
        .collect()
}

#[test]
fn sigkill_at_random_instants() {
    if std::env::var("H10_CHILD_DIR").is_ok() {
        return;
    }
    let tmp = tempfile::tempdir().unwrap();
    let exe = std::env::current_exe().unwrap();
    let mut leaked: BTreeSet<String> = BTreeSet::new();
    let mut seed: u64 = 0x9E37_79B9_7F4A_7C15;
    for crash_no in 0..40 {
        seed = seed
            .wrapping_mul(6364136223846793005)
            .wrapping_add(1442695040888963407);
        let max_delay: u64 = std::env::var("H10_MAX_DELAY_MS")
            .ok()
            .and_then(|v| v.parse().ok())
            .unwrap_or(400);
        let delay_ms = 40 + (seed >> 33) % max_delay;
        let mut child = Command::new(&exe)
            .args(["child_entry", "--exact", "--nocapture", "--test-threads=1"])
            .env("H10_CHILD_DIR", tmp.path())
            .stdout(Stdio::piped())
            .stderr(Stdio::null())
            .spawn()
            .unwrap();
        let stdout = child.stdout.take().unwrap();
        let lines = std::thread::spawn(move || {
            let mut last = None;
            for line in BufReader::new(stdout).lines() {
                let Ok(line) = line else { break };
                if let Some(rest) = line.strip_prefix("COMMITTED ") {
                    last = rest.trim().parse::<u64>().ok();
                }
            }
            last
        });
        std::thread::sleep(Duration::from_millis(delay_ms));
        child.kill().unwrap(); // SIGKILL
        child.wait().unwrap();
        let last_reported_round = lines.join().unwrap();
        let extra = recover_and_check(tmp.path(), last_reported_round);
        let new_leaks: Vec<&String> = extra.iter().filter(|f| !leaked.contains(*f)).collect();
        println!(
            "crash #{crash_no} after {delay_ms}ms, last commit reported {last_reported_round:?}: \
             files that survive commit+gc: {new_leaks:?}"
        );
        leaked.extend(extra);
    }
    assert!(
        leaked.is_empty(),
        "files left in the index directory that no garbage collection removes: {leaked:?}"
    );
}
