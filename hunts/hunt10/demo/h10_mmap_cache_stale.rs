//! C20 ("reading it back yields exactly the content") on the real file system.
//!
//! `MmapDirectory::delete` does not evict the path from the mmap cache, although its own
//! documentation says "Any entry associated with the path in the mmap will be removed before the
//! file is deleted". As long as somebody still holds a slice of the deleted file (a searcher, a
//! merge, ...) a file that is re-created under the same path is read back with the content of the
//! DELETED file - and `validate_checksum` checks the deleted file instead of the one on disk.
//! (tantivy itself deletes and re-creates `<segment>.<opstamp>.del` in `advance_deletes`.)

use std::io::Write;
use std::path::Path;

use tantivy::directory::{ManagedDirectory, MmapDirectory, RamDirectory, TerminatingWrite};
use tantivy::Directory;

fn write_file(dir: &dyn Directory, path: &Path, content: &[u8]) {
    let mut wrt = dir.open_write(path).unwrap();
    wrt.write_all(content).unwrap();
    wrt.terminate().unwrap();
}

fn scenario(dir: &dyn Directory) -> (Vec<u8>, Vec<u8>) {
    let path = Path::new("seg.7.del");
    write_file(dir, path, b"first version");
    // somebody keeps the first version open (the contract: "Removing a file will not affect an
    // eventual existing FileSlice pointing to it")
    let old_slice = dir.open_read(path).unwrap();
    dir.delete(path).unwrap();
    assert!(!dir.exists(path).unwrap());
    write_file(dir, path, b"second, longer version");
    let new_slice = dir.open_read(path).unwrap();
    (
        old_slice.read_bytes().unwrap().as_slice().to_vec(),
        new_slice.read_bytes().unwrap().as_slice().to_vec(),
    )
}

#[test]
fn ram_directory_reads_back_what_was_written() {
    let dir = RamDirectory::create();
    let (old, new) = scenario(&dir);
    assert_eq!(old, b"first version");
    assert_eq!(new, b"second, longer version");
}

#[test]
fn mmap_directory_reads_back_what_was_written() {
    let tmp = tempfile::tempdir().unwrap();
    let dir = MmapDirectory::open(tmp.path()).unwrap();
    let (old, new) = scenario(&dir);
    assert_eq!(old, b"first version");
    assert_eq!(
        String::from_utf8_lossy(&new),
        "second, longer version",
        "open_read() of a re-created file returned the content of the deleted file"
    );
}

#[test]
fn managed_mmap_directory_validates_the_file_that_is_on_disk() {
    let tmp = tempfile::tempdir().unwrap();
    let dir = ManagedDirectory::wrap(Box::new(MmapDirectory::open(tmp.path()).unwrap())).unwrap();
    let path = Path::new("seg.7.del");
    write_file(&dir, path, b"first version");
    let _old_slice = dir.open_read(path).unwrap();
    dir.delete(path).unwrap();
    write_file(&dir, path, b"second, longer version");
    // corrupt the body of the file that is now on disk
    let full_path = tmp.path().join(path);
    let mut bytes = std::fs::read(&full_path).unwrap();
    bytes[0] ^= 0x01;
    std::fs::write(&full_path, &bytes).unwrap();
    assert_eq!(
        dir.validate_checksum(path).unwrap(),
        false,
        "the file on disk is corrupted, but validate_checksum() looked at the mmap of the deleted \
         file and reported it intact"
    );
}
