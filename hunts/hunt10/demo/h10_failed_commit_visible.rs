//! C05 ("every reload ... yields exactly the state of one completed commit - never ... uncommitted
//! work") / contract of `save_metas` ("either it fails, in which case an error is returned, and the
//! meta.json remains untouched, or it succeeds").
//!
//! `save_metas` replaces meta.json and only then calls `sync_directory()`. When that last call
//! fails (EIO on the directory fsync) `commit()` returns an error and the writer is killed, but the
//! new meta.json is in place: readers load the documents of the commit that FAILED, and
//! `rollback()` - "After calling rollback, the index is in the same state as it was after the last
//! commit" - keeps them.

use std::io;
use std::path::Path;
use std::sync::atomic::{AtomicI64, Ordering};
use std::sync::Arc;

use tantivy::directory::error::{DeleteError, LockError, OpenReadError, OpenWriteError};
use tantivy::directory::{
    DirectoryLock, FileHandle, Lock, MmapDirectory, WatchCallback, WatchHandle, WritePtr,
};
use tantivy::schema::{Schema, TEXT};
use tantivy::{doc, Directory, Index, IndexWriter, ReloadPolicy};

#[derive(Clone)]
struct FaultDir {
    inner: MmapDirectory,
    /// number of `sync_directory` calls that still succeed (negative: no fault armed)
    syncs_before_fault: Arc<AtomicI64>,
}

impl std::fmt::Debug for FaultDir {
    fn fmt(&self, f: &mut std::fmt::Formatter<'_>) -> std::fmt::Result {
        write!(f, "FaultDir({:?})", self.inner)
    }
}

impl Directory for FaultDir {
    fn get_file_handle(&self, path: &Path) -> Result<Arc<dyn FileHandle>, OpenReadError> {
        self.inner.get_file_handle(path)
    }
    fn delete(&self, path: &Path) -> Result<(), DeleteError> {
        self.inner.delete(path)
    }
    fn exists(&self, path: &Path) -> Result<bool, OpenReadError> {
        self.inner.exists(path)
    }
    fn open_write(&self, path: &Path) -> Result<WritePtr, OpenWriteError> {
        self.inner.open_write(path)
    }
    fn atomic_read(&self, path: &Path) -> Result<Vec<u8>, OpenReadError> {
        self.inner.atomic_read(path)
    }
    fn atomic_write(&self, path: &Path, data: &[u8]) -> io::Result<()> {
        self.inner.atomic_write(path, data)
    }
    fn sync_directory(&self) -> io::Result<()> {
        let remaining = self.syncs_before_fault.load(Ordering::SeqCst);
        if remaining >= 0 {
            self.syncs_before_fault.fetch_sub(1, Ordering::SeqCst);
            if remaining == 0 {
                return Err(io::Error::other("injected EIO on fsync(directory)"));
            }
        }
        self.inner.sync_directory()
    }
    fn acquire_lock(&self, lock: &Lock) -> Result<DirectoryLock, LockError> {
        self.inner.acquire_lock(lock)
    }
    fn watch(&self, watch_callback: WatchCallback) -> tantivy::Result<WatchHandle> {
        self.inner.watch(watch_callback)
    }
}

#[test]
fn a_commit_that_returned_an_error_is_not_visible() -> tantivy::Result<()> {
    let tmp = tempfile::tempdir().unwrap();
    let syncs_before_fault = Arc::new(AtomicI64::new(-1));
    let dir = FaultDir {
        inner: MmapDirectory::open(tmp.path()).unwrap(),
        syncs_before_fault: syncs_before_fault.clone(),
    };
    let mut schema_builder = Schema::builder();
    let text = schema_builder.add_text_field("text", TEXT);
    let index = Index::open_or_create(dir, schema_builder.build())?;
    let mut writer: IndexWriter = index.writer_with_num_threads(1, 15_000_000)?;
    writer.add_document(doc!(text => "a"))?;
    let first_opstamp = writer.commit()?;
    let reader = index
        .reader_builder()
        .reload_policy(ReloadPolicy::Manual)
        .try_into()?;
    assert_eq!(reader.searcher().num_docs(), 1);

    writer.add_document(doc!(text => "b"))?;
    let prepared = writer.prepare_commit()?; // the segment is flushed
    // save_metas: sync_directory (ok), atomic_write(meta.json), sync_directory (fails)
    syncs_before_fault.store(1, Ordering::SeqCst);
    let commit_result = prepared.commit();
    syncs_before_fault.store(-1, Ordering::SeqCst);
    println!("second commit: {commit_result:?}");
    assert!(commit_result.is_err(), "the fault was not hit");

    reader.reload()?;
    let visible_after_failed_commit = reader.searcher().num_docs();
    let rollback_opstamp = writer.rollback()?;
    reader.reload()?;
    let visible_after_rollback = reader.searcher().num_docs();
    println!(
        "first commit opstamp {first_opstamp}; rollback returned {rollback_opstamp}; docs visible \
         after the failed commit: {visible_after_failed_commit}, after rollback: \
         {visible_after_rollback}"
    );
    // another Index handle (another process) sees the same thing
    let other_handle = Index::open_in_dir(tmp.path())?;
    let other_docs = other_handle.reader()?.searcher().num_docs();
    assert_eq!(
        (visible_after_failed_commit, visible_after_rollback, other_docs),
        (1, 1, 1),
        "the documents of a commit whose call returned an error are served to readers (and kept \
         by rollback)"
    );
    Ok(())
}
