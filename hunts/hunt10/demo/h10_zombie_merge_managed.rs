//! C10 (and the spirit of C18): a merge thread of a writer that was dropped (writer lock released)
//! keeps writing into the directory and rewrites `.managed.json` from the stale in-memory list of
//! its own `Index` handle. The files it creates are erased from the persisted list by the next
//! writer and are never garbage collected.
//!
//! The schedule (merge thread pre-empted just before it registers its first file) is enforced with
//! a thin `Directory` wrapper around a real `MmapDirectory`.

use std::collections::BTreeSet;
use std::fs;
use std::io;
use std::path::{Path, PathBuf};
use std::sync::atomic::{AtomicBool, Ordering};
use std::sync::{Arc, Condvar, Mutex};
use std::time::Duration;

use tantivy::directory::error::{DeleteError, LockError, OpenReadError, OpenWriteError};
use tantivy::directory::{
    DirectoryLock, FileHandle, Lock, MmapDirectory, WatchCallback, WatchHandle, WritePtr,
};
use tantivy::indexer::NoMergePolicy;
use tantivy::schema::{Schema, TEXT};
use tantivy::{doc, Directory, Index, IndexWriter};

#[derive(Default)]
struct Gate {
    armed: AtomicBool,
    state: Mutex<(bool, bool)>, // (merge thread reached the gate, gate released)
    cond: Condvar,
}

#[derive(Clone)]
struct GateDir {
    inner: MmapDirectory,
    gate: Arc<Gate>,
}

impl std::fmt::Debug for GateDir {
    fn fmt(&self, f: &mut std::fmt::Formatter<'_>) -> std::fmt::Result {
        write!(f, "GateDir({:?})", self.inner)
    }
}

impl Directory for GateDir {
    fn get_file_handle(&self, path: &Path) -> Result<Arc<dyn FileHandle>, OpenReadError> {
        self.inner.get_file_handle(path)
    }
    fn delete(&self, path: &Path) -> Result<(), DeleteError> {
        self.inner.delete(path)
    }
    fn exists(&self, path: &Path) -> Result<bool, OpenReadError> {
        self.inner.exists(path)
    }
    fn open_write(&self, path: &Path) -> Result<WritePtr, OpenWriteError> {
        self.inner.open_write(path)
    }
    fn atomic_read(&self, path: &Path) -> Result<Vec<u8>, OpenReadError> {
        self.inner.atomic_read(path)
    }
    fn atomic_write(&self, path: &Path, data: &[u8]) -> io::Result<()> {
        let in_merge_thread = std::thread::current()
            .name()
            .map(|name| name.starts_with("merge_thread"))
            .unwrap_or(false);
        if in_merge_thread
            && path == Path::new(".managed.json")
            && self.gate.armed.swap(false, Ordering::SeqCst)
        {
            // The merge thread is "pre-empted" right before it registers the first file of the
            // merged segment.
            let mut state = self.gate.state.lock().unwrap();
            state.0 = true;
            self.gate.cond.notify_all();
            while !state.1 {
                state = self.gate.cond.wait(state).unwrap();
            }
        }
        self.inner.atomic_write(path, data)
    }
    fn sync_directory(&self) -> io::Result<()> {
        self.inner.sync_directory()
    }
    fn acquire_lock(&self, lock: &Lock) -> Result<DirectoryLock, LockError> {
        self.inner.acquire_lock(lock)
    }
    fn watch(&self, watch_callback: WatchCallback) -> tantivy::Result<WatchHandle> {
        self.inner.watch(watch_callback)
    }
}

fn list_dir(path: &Path) -> BTreeSet<String> {
    fs::read_dir(path)
        .unwrap()
        .map(|entry| entry.unwrap().file_name().into_string().unwrap())
        .collect()
}

#[test]
fn merge_thread_of_a_dropped_writer_leaks_its_files() -> tantivy::Result<()> {
    let tmp = tempfile::tempdir().unwrap();
    let path = tmp.path();
    let mut schema_builder = Schema::builder();
    let text = schema_builder.add_text_field("text", TEXT);
    let schema = schema_builder.build();

    let gate = Arc::new(Gate::default());
    let merge_future;
    {
        // ---- writer A, on its own Index handle
        let dir_a = GateDir {
            inner: MmapDirectory::open(path).unwrap(),
            gate: gate.clone(),
        };
        let index_a = Index::open_or_create(dir_a, schema.clone())?;
        let mut writer_a: IndexWriter = index_a.writer_with_num_threads(1, 15_000_000)?;
        writer_a.set_merge_policy(Box::new(NoMergePolicy));
        writer_a.add_document(doc!(text => "a"))?;
        writer_a.commit()?;
        writer_a.add_document(doc!(text => "b"))?;
        writer_a.commit()?;
        let segment_ids = index_a.searchable_segment_ids()?;
        assert_eq!(segment_ids.len(), 2);

        gate.armed.store(true, Ordering::SeqCst);
        merge_future = writer_a.merge(&segment_ids);
        // wait until the merge thread is about to create the files of the merged segment
        let mut state = gate.state.lock().unwrap();
        while !state.0 {
            state = gate.cond.wait(state).unwrap();
        }
        drop(state);
        // The application drops its writer without waiting for the merge: this is documented as
        // "perfectly safe" (see `wait_merging_threads`), and it releases the writer lock.
        drop(writer_a);
        drop(index_a);
    }

    // ---- writer B, another Index handle on the same directory (e.g. the index is re-opened)
    let index_b = Index::open_in_dir(path)?;
    let mut writer_b: IndexWriter = index_b.writer_with_num_threads(1, 15_000_000)?;
    writer_b.set_merge_policy(Box::new(NoMergePolicy));
    writer_b.add_document(doc!(text => "c"))?;
    writer_b.commit()?;

    // the merge thread of the dropped writer A resumes, and runs to its end
    {
        let mut state = gate.state.lock().unwrap();
        state.1 = true;
        gate.cond.notify_all();
    }
    let merge_result = merge_future.wait();
    println!("result of the merge of the dropped writer: {merge_result:?}");
    {
        // Secondary observation: at this instant the persisted list was rewritten from the stale
        // list of handle A, the files of the segment that writer B committed are not in it.
        let persisted: BTreeSet<String> =
            serde_json::from_slice(&fs::read(path.join(".managed.json")).unwrap()).unwrap();
        let committed_but_unlisted: Vec<String> = index_b
            .searchable_segment_metas()?
            .iter()
            .flat_map(|segment_meta| segment_meta.list_files())
            .map(|p: PathBuf| p.to_str().unwrap().to_string())
            .filter(|name| path.join(name).exists() && !persisted.contains(name))
            .collect();
        println!(
            "files of committed segments missing from the persisted .managed.json: \
             {committed_but_unlisted:?}"
        );
    }

    writer_b.add_document(doc!(text => "d"))?;
    writer_b.commit()?;
    writer_b.garbage_collect_files().wait()?;
    writer_b.wait_merging_threads()?;
    drop(index_b);
    std::thread::sleep(Duration::from_millis(100));

    // ---- a recovered / re-opened index: one commit and one collection
    let index_c = Index::open_in_dir(path)?;
    let mut writer_c: IndexWriter = index_c.writer_with_num_threads(1, 15_000_000)?;
    writer_c.set_merge_policy(Box::new(NoMergePolicy));
    writer_c.add_document(doc!(text => "e"))?;
    writer_c.commit()?;
    writer_c.garbage_collect_files().wait()?;
    writer_c.wait_merging_threads()?;

    let mut expected: BTreeSet<String> = index_c
        .searchable_segment_metas()?
        .iter()
        .flat_map(|segment_meta| segment_meta.list_files())
        .map(|p: PathBuf| p.to_str().unwrap().to_string())
        .filter(|name| path.join(name).exists())
        .collect();
    expected.insert("meta.json".to_string());
    expected.insert(".managed.json".to_string());
    let on_disk: BTreeSet<String> = list_dir(path)
        .into_iter()
        .filter(|name| !name.ends_with(".lock"))
        .collect();
    let orphans: Vec<&String> = on_disk.difference(&expected).collect();

    let managed: BTreeSet<String> = index_c
        .directory()
        .list_managed_files()
        .into_iter()
        .map(|p| p.to_str().unwrap().to_string())
        .collect();
    println!("managed files: {managed:?}");
    println!("orphans: {orphans:?}");
    assert!(
        orphans.is_empty(),
        "after commit + merges finished + garbage collection, the directory holds files that \
         belong to no committed segment and that nobody will ever collect: {orphans:?}"
    );
    Ok(())
}
