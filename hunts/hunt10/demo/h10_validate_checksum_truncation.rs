//! C20: "Checksum validation reports exactly the files whose content no longer matches - any single
//! bit flip, byte substitution, truncation or extension of a segment file's body is detected".
//!
//! `Index::validate_checksum` only *reports* damage that leaves the footer in place. A truncated
//! (or extended, or emptied) segment file makes the whole validation return an `Err` as soon as it
//! is met: no report is produced, and the other damaged files of the index are not reported.

use std::collections::HashSet;
use std::fs;
use std::path::{Path, PathBuf};

use tantivy::schema::{Schema, FAST, STORED, TEXT};
use tantivy::{doc, Index, IndexWriter};

fn build_index(path: &Path) -> tantivy::Result<Index> {
    let mut schema_builder = Schema::builder();
    let text = schema_builder.add_text_field("text", TEXT | STORED);
    let num = schema_builder.add_u64_field("num", FAST);
    let index = Index::create_in_dir(path, schema_builder.build())?;
    let mut writer: IndexWriter = index.writer_with_num_threads(1, 15_000_000)?;
    for i in 0..50u64 {
        writer.add_document(doc!(text => format!("hello world {i}"), num => i))?;
    }
    writer.commit()?;
    writer.wait_merging_threads()?;
    Ok(index)
}

fn file_with_extension(path: &Path, ext: &str) -> PathBuf {
    fs::read_dir(path)
        .unwrap()
        .map(|entry| entry.unwrap().path())
        .find(|p| p.extension().map(|e| e == ext).unwrap_or(false))
        .unwrap()
}

fn relative(path: &Path) -> PathBuf {
    PathBuf::from(path.file_name().unwrap())
}

#[test]
fn truncated_file_is_reported_with_the_other_damaged_files() -> tantivy::Result<()> {
    let tmp = tempfile::tempdir().unwrap();
    build_index(tmp.path())?;
    let index = Index::open_in_dir(tmp.path())?;
    assert!(index.validate_checksum()?.is_empty());

    // 1. a bit flip in the body of the .term file
    let term_file = file_with_extension(tmp.path(), "term");
    let mut bytes = fs::read(&term_file).unwrap();
    bytes[3] ^= 0x10;
    fs::write(&term_file, &bytes).unwrap();
    // 2. the .store file loses its last 100 bytes (e.g. un-synced tail lost in a crash)
    let store_file = file_with_extension(tmp.path(), "store");
    let bytes = fs::read(&store_file).unwrap();
    fs::write(&store_file, &bytes[..bytes.len() - 100]).unwrap();

    let index = Index::open_in_dir(tmp.path())?;
    let expected: HashSet<PathBuf> = [relative(&term_file), relative(&store_file)]
        .into_iter()
        .collect();
    let report = index.validate_checksum();
    println!("validate_checksum() = {report:?}");
    match report {
        Ok(damaged_files) => assert_eq!(damaged_files, expected),
        Err(err) => panic!(
            "validate_checksum() produced no report at all, expected {expected:?}; error: {err}"
        ),
    }
    Ok(())
}

#[test]
fn extended_file_is_reported() -> tantivy::Result<()> {
    let tmp = tempfile::tempdir().unwrap();
    build_index(tmp.path())?;
    let fast_file = file_with_extension(tmp.path(), "fast");
    let mut bytes = fs::read(&fast_file).unwrap();
    bytes.extend_from_slice(&[0u8; 16]);
    fs::write(&fast_file, &bytes).unwrap();
    let index = Index::open_in_dir(tmp.path())?;
    let expected: HashSet<PathBuf> = [relative(&fast_file)].into_iter().collect();
    let report = index.validate_checksum();
    println!("validate_checksum() = {report:?}");
    match report {
        Ok(damaged_files) => assert_eq!(damaged_files, expected),
        Err(err) => panic!(
            "validate_checksum() produced no report at all, expected {expected:?}; error: {err}"
        ),
    }
    Ok(())
}
