// Minimal reproductions of the defects found by the hunt3 differential tests.
// Every test FAILS on the unmodified code.
use std::ops::Bound;

use tantivy::collector::{Count, DocSetCollector, TopDocs};
use tantivy::query::{
    AllQuery, BooleanQuery, BoostQuery, EnableScoring, Occur, PhrasePrefixQuery, PhraseQuery,
    Query, RangeQuery, RegexQuery, TermQuery,
};
use tantivy::schema::{IndexRecordOption, Schema, FAST, INDEXED, TEXT};
use tantivy::{doc, DocAddress, DocSet, Index, IndexWriter, Term, TERMINATED};

fn term(index: &Index, field: &str, tok: &str) -> Box<dyn Query> {
    let f = index.schema().get_field(field).unwrap();
    Box::new(TermQuery::new(
        Term::from_field_text(f, tok),
        IndexRecordOption::WithFreqs,
    ))
}

/// Builds an index with (text, num) docs; a commit happens after each index listed in `commits`.
fn build(docs: &[(&str, u64)], commits: &[usize]) -> Index {
    let mut sb = Schema::builder();
    let text = sb.add_text_field("text", TEXT);
    let num = sb.add_u64_field("num", FAST | INDEXED);
    let index = Index::create_in_ram(sb.build());
    let mut w: IndexWriter = index.writer_with_num_threads(1, 20_000_000).unwrap();
    w.set_merge_policy(Box::new(tantivy::merge_policy::NoMergePolicy));
    for (i, (t, n)) in docs.iter().enumerate() {
        w.add_document(doc!(text => *t, num => *n)).unwrap();
        if commits.contains(&(i + 1)) {
            w.commit().unwrap();
        }
    }
    w.commit().unwrap();
    index
}

fn scores_by_num(index: &Index, query: &dyn Query) -> Vec<(u64, f32)> {
    let searcher = index.reader().unwrap().searcher();
    let top = searcher
        .search(query, &TopDocs::with_limit(100).order_by_score())
        .unwrap();
    let mut out: Vec<(u64, f32)> = top
        .into_iter()
        .map(|(score, addr)| {
            let col = searcher
                .segment_reader(addr.segment_ord)
                .fast_fields()
                .u64("num")
                .unwrap();
            (col.first(addr.doc_id).unwrap(), score)
        })
        .collect();
    out.sort_by_key(|(n, _)| *n);
    out
}

// ---------------------------------------------------------------------------------------------
// D1: BooleanWeight::complex_scorer throws the score of a clause away when the clause's scorer
// happens to be a bare `AllScorer` (AllQuery, or a fast-field range / exists query that matches
// the whole segment).
// ---------------------------------------------------------------------------------------------

/// C12: "When no deleted documents are present, a document's score does not depend on how the
/// documents are split into segments".
#[test]
fn d1_score_depends_on_segmentation() {
    // num = 1,2,3 for the first three docs, 0 for the last: `num:[1 TO *]` matches the first
    // three. Same text everywhere so that BM25 is the same for every doc.
    let docs = [("a", 1u64), ("a", 2), ("a", 3), ("a", 0)];
    let one_segment = build(&docs, &[]);
    // in this segmentation, the first segment is entirely inside the range
    let two_segments = build(&docs, &[3]);
    let make_query = |index: &Index| -> BooleanQuery {
        let num = index.schema().get_field("num").unwrap();
        BooleanQuery::new(vec![
            (
                Occur::Must,
                Box::new(RangeQuery::new(
                    Bound::Included(Term::from_field_u64(num, 1)),
                    Bound::Unbounded,
                )) as Box<dyn Query>,
            ),
            (Occur::Must, term(index, "text", "a")),
        ])
    };
    let s1 = scores_by_num(&one_segment, &make_query(&one_segment));
    let s2 = scores_by_num(&two_segments, &make_query(&two_segments));
    assert_eq!(s1.len(), 3);
    assert_eq!(s2.len(), 3);
    for ((n1, a), (n2, b)) in s1.iter().zip(s2.iter()) {
        assert_eq!(n1, n2);
        assert!(
            (a - b).abs() < 1e-5,
            "doc num={n1}: score {a} with one segment, {b} with two segments"
        );
    }
}

/// C12: "summed over the matching scoring clauses of a boolean query and multiplied by boosts;
/// explain() returns a breakdown whose value is that same score".
#[test]
fn d1_explain_disagrees_with_score_under_boost() {
    let index = build(&[("a", 1), ("a b", 2)], &[]);
    let searcher = index.reader().unwrap().searcher();
    let inner = BooleanQuery::new(vec![
        (Occur::Must, Box::new(AllQuery) as Box<dyn Query>),
        (Occur::Must, term(&index, "text", "a")),
    ]);
    let query = BoostQuery::new(Box::new(inner), 2.0);
    let top = searcher
        .search(&query, &TopDocs::with_limit(10).order_by_score())
        .unwrap();
    for (score, addr) in top {
        let explanation = query.explain(&searcher, addr).unwrap();
        assert!(
            (explanation.value() - score).abs() < 1e-5,
            "doc {addr:?}: score={score} explain={}",
            explanation.value()
        );
    }
}

/// C12: the score is "summed over the matching scoring clauses": +AllQuery (1.0) +text:a.
/// Boosting the whole query by 2 does add the AllQuery clause (2.0), not boosting it drops it:
/// score(boost 2) != 2 * score(boost 1).
#[test]
fn d1_all_clause_score_is_dropped() {
    let index = build(&[("a", 1), ("a b", 2)], &[]);
    let searcher = index.reader().unwrap().searcher();
    let term_only = term(&index, "text", "a");
    let with_all = BooleanQuery::new(vec![
        (Occur::Must, Box::new(AllQuery) as Box<dyn Query>),
        (Occur::Must, term(&index, "text", "a")),
    ]);
    let a = searcher
        .search(&*term_only, &TopDocs::with_limit(10).order_by_score())
        .unwrap();
    let b = searcher
        .search(&with_all, &TopDocs::with_limit(10).order_by_score())
        .unwrap();
    for ((sa, da), (sb, db)) in a.iter().zip(b.iter()) {
        assert_eq!(da, db);
        assert!(
            (sa + 1.0 - sb).abs() < 1e-5,
            "doc {da:?}: term score {sa}, +AllQuery +term score {sb} (expected {})",
            sa + 1.0
        );
    }
}

// ---------------------------------------------------------------------------------------------
// D2: BitSetDocSet::seek past the end reports TERMINATED but leaves the cursor where it was:
// the next advance() resurrects the docset.
// ---------------------------------------------------------------------------------------------

/// C13: "Once the end is reached every further call keeps reporting the end".
#[test]
fn d2_bitset_docset_resurrects_after_seek_to_end() {
    let index = build(&[("aa", 0), ("ab", 1), ("b", 2), ("ac", 3), ("ad", 4)], &[]);
    let searcher = index.reader().unwrap().searcher();
    let text = index.schema().get_field("text").unwrap();
    let query = RegexQuery::from_pattern("a.*", text).unwrap();
    let weight = query
        .weight(EnableScoring::disabled_from_searcher(&searcher))
        .unwrap();
    let mut scorer = weight.scorer(searcher.segment_reader(0), 1.0).unwrap();
    assert_eq!(scorer.doc(), 0);
    assert_eq!(scorer.seek(TERMINATED), TERMINATED);
    assert_eq!(scorer.doc(), TERMINATED);
    // the docset is exhausted...
    let next = scorer.advance();
    assert_eq!(
        next, TERMINATED,
        "advance() after the end returned doc {next}: the docset came back to life"
    );
}

// ---------------------------------------------------------------------------------------------
// D3: PhraseScorer takes different match decisions with and without scoring for a sloppy phrase
// of 3+ terms: `phrase_exists` (no scoring) forgets the slop already spent on the first terms.
// ---------------------------------------------------------------------------------------------

/// C03: "The answer is the same whether it is obtained by counting, by collecting document ids
/// or by ranking, with scoring enabled or disabled".
#[test]
fn d3_sloppy_phrase_matches_depend_on_scoring() {
    let index = build(&[("a x b x c", 0), ("a b c", 1), ("c b a", 2)], &[]);
    let searcher = index.reader().unwrap().searcher();
    let text = index.schema().get_field("text").unwrap();
    let mut query = PhraseQuery::new(vec![
        Term::from_field_text(text, "a"),
        Term::from_field_text(text, "b"),
        Term::from_field_text(text, "c"),
    ]);
    query.set_slop(1);
    let count = searcher.search(&query, &Count).unwrap();
    let docset = searcher.search(&query, &DocSetCollector).unwrap();
    let ranked: Vec<(f32, DocAddress)> = searcher
        .search(&query, &TopDocs::with_limit(10).order_by_score())
        .unwrap();
    assert_eq!(count, docset.len());
    assert_eq!(
        count,
        ranked.len(),
        "Count says {count} docs ({docset:?}), TopDocs ranks {} docs ({ranked:?})",
        ranked.len()
    );
}

// ---------------------------------------------------------------------------------------------
// D4: a two-term PhrasePrefixQuery scores a constant 1.0 and ignores boosts, while explain()
// applies the boost.
// ---------------------------------------------------------------------------------------------

/// C12: "... multiplied by boosts; explain() returns a breakdown whose value is that same score".
#[test]
fn d4_phrase_prefix_ignores_boost() {
    let index = build(&[("d aa", 0), ("d b", 1)], &[]);
    let searcher = index.reader().unwrap().searcher();
    let text = index.schema().get_field("text").unwrap();
    let pp = PhrasePrefixQuery::new(vec![
        Term::from_field_text(text, "d"),
        Term::from_field_text(text, "a"),
    ]);
    let plain = searcher
        .search(&pp, &TopDocs::with_limit(10).order_by_score())
        .unwrap();
    let boosted_query = BoostQuery::new(Box::new(pp), 0.5);
    let boosted = searcher
        .search(&boosted_query, &TopDocs::with_limit(10).order_by_score())
        .unwrap();
    assert_eq!(plain.len(), 1);
    assert_eq!(boosted.len(), 1);
    let explanation = boosted_query.explain(&searcher, boosted[0].1).unwrap();
    assert!(
        (boosted[0].0 - 0.5 * plain[0].0).abs() < 1e-6
            && (explanation.value() - boosted[0].0).abs() < 1e-6,
        "plain score={} boosted(x0.5) score={} explain of boosted={}",
        plain[0].0,
        boosted[0].0,
        explanation.value()
    );
}

// ---------------------------------------------------------------------------------------------
// D5 (builds with debug assertions only, i.e. `cargo test` / `cargo build`): callers seek
// scorers *backwards*, which the DocSet contract forbids ("target has to be larger or equal to
// .doc()"), and the callee asserts.
// ---------------------------------------------------------------------------------------------

/// `+a -"b c"`: Exclude::new calls `seek_danger(first doc of a)` on the phrase scorer, which is
/// already positioned further. PhraseScorer::seek_danger asserts `target >= self.doc()`.
#[test]
fn d5_must_not_phrase_panics_in_debug_builds() {
    let index = build(&[("a", 0), ("a", 1), ("a b c", 2)], &[]);
    let searcher = index.reader().unwrap().searcher();
    let text = index.schema().get_field("text").unwrap();
    let phrase = PhraseQuery::new(vec![
        Term::from_field_text(text, "b"),
        Term::from_field_text(text, "c"),
    ]);
    let query = BooleanQuery::new(vec![
        (Occur::Must, term(&index, "text", "a")),
        (Occur::MustNot, Box::new(phrase) as Box<dyn Query>),
    ]);
    let count = searcher.search(&query, &Count).unwrap();
    assert_eq!(count, 2);
}

/// explain() of a boolean query asks every clause to explain `doc`, including the clauses that
/// do not match it and whose scorer is already positioned after `doc`: their explain seeks
/// backwards (BooleanWeight, PhrasePrefixWeight, FastFieldRangeWeight, ... - only TermWeight
/// guards against it).
#[test]
fn d5_explain_panics_in_debug_builds() {
    let index = build(&[("a", 5), ("a", 5), ("a b", 0)], &[]);
    let searcher = index.reader().unwrap().searcher();
    let num = index.schema().get_field("num").unwrap();
    // matches doc 0 through `a`; the range clause only matches doc 2.
    let query = BooleanQuery::new(vec![
        (Occur::Should, term(&index, "text", "a")),
        (
            Occur::Should,
            Box::new(RangeQuery::new(
                Bound::Included(Term::from_field_u64(num, 0)),
                Bound::Included(Term::from_field_u64(num, 1)),
            )) as Box<dyn Query>,
        ),
    ]);
    let explanation = query.explain(&searcher, DocAddress::new(0, 0)).unwrap();
    assert!(explanation.value() > 0.0);
}
