// Shared helpers for the hunt3 differential tests: a random corpus with an in-memory model,
// a small query AST that can be both evaluated on the model and turned into a tantivy query.
#![allow(dead_code)]

use std::collections::{BTreeSet, HashMap};
use std::ops::Bound;

use rand::rngs::StdRng;
use rand::{Rng, SeedableRng};
use tantivy::fieldnorm::FieldNormReader;
use tantivy::query::{
    AllQuery, BooleanQuery, BoostQuery, ConstScoreQuery, DisjunctionMaxQuery, EmptyQuery,
    ExistsQuery, FuzzyTermQuery, Occur, PhrasePrefixQuery, PhraseQuery, Query, RangeQuery,
    RegexQuery, TermQuery, TermSetQuery,
};
use tantivy::schema::{
    Field, IndexRecordOption, NumericOptions, Schema, TextFieldIndexing, TextOptions, FAST,
    INDEXED, STORED, STRING,
};
use tantivy::{
    DocAddress, Index, IndexSettings, IndexWriter, Searcher, TantivyDocument, Term,
};

#[derive(Clone, Debug)]
pub struct MDoc {
    pub id: u64,
    pub text: Vec<String>,
    pub title: Vec<String>,
    pub tag: Option<String>,
    pub num: u64,
    pub opt: Option<u64>,
    pub alive: bool,
}

#[derive(Clone, Copy)]
pub struct Fields {
    pub id: Field,
    pub text: Field,
    pub title: Field,
    pub tag: Field,
    pub num: Field,
    pub opt: Field,
    pub inum: Field,
}

pub fn schema() -> (Schema, Fields) {
    let mut sb = Schema::builder();
    let id = sb.add_u64_field("id", FAST | INDEXED | STORED);
    let text = sb.add_text_field(
        "text",
        TextOptions::default().set_indexing_options(
            TextFieldIndexing::default()
                .set_tokenizer("whitespace")
                .set_index_option(IndexRecordOption::WithFreqsAndPositions),
        ),
    );
    let title = sb.add_text_field(
        "title",
        TextOptions::default().set_indexing_options(
            TextFieldIndexing::default()
                .set_tokenizer("whitespace")
                .set_index_option(IndexRecordOption::WithFreqs),
        ),
    );
    let tag = sb.add_text_field("tag", STRING | FAST);
    let num = sb.add_u64_field("num", NumericOptions::default().set_fast().set_indexed());
    let opt = sb.add_u64_field("opt", NumericOptions::default().set_fast());
    let inum = sb.add_u64_field("inum", NumericOptions::default().set_indexed());
    (
        sb.build(),
        Fields {
            id,
            text,
            title,
            tag,
            num,
            opt,
            inum,
        },
    )
}

pub const VOCAB: &[&str] = &[
    "aa", "ab", "abc", "abd", "b", "c", "d", "e", "rare", "all", "x0", "x1", "x2", "x3",
];

pub struct Corpus {
    pub index: Index,
    pub fields: Fields,
    pub docs: Vec<MDoc>,
}

pub struct CorpusSpec {
    pub seed: u64,
    pub num_docs: usize,
    /// indices (in number of docs added) after which a commit happens
    pub commit_every: Vec<usize>,
    pub delete_ratio: f64,
    pub merge: bool,
    pub long_docs: bool,
}

fn gen_tokens(rng: &mut StdRng, len: usize, weights: &[u32]) -> Vec<String> {
    let total: u32 = weights.iter().sum();
    (0..len)
        .map(|_| {
            let mut r = rng.random_range(0..total);
            for (i, w) in weights.iter().enumerate() {
                if r < *w {
                    return VOCAB[i].to_string();
                }
                r -= *w;
            }
            unreachable!()
        })
        .collect()
}

pub fn build_corpus(spec: &CorpusSpec) -> Corpus {
    let (schema, fields) = schema();
    let index = Index::builder()
        .schema(schema)
        .settings(IndexSettings::default())
        .create_in_ram()
        .unwrap();
    let mut writer: IndexWriter = index.writer_with_num_threads(1, 50_000_000).unwrap();
    writer.set_merge_policy(Box::new(tantivy::merge_policy::NoMergePolicy));
    let mut rng = StdRng::seed_from_u64(spec.seed);
    // weights for vocab: "all" handled separately (present in all docs)
    let weights: Vec<u32> = vec![30, 20, 10, 5, 40, 25, 12, 6, 0, 0, 3, 3, 2, 1];
    let mut docs = Vec::new();
    let rare_doc = rng.random_range(0..spec.num_docs);
    for i in 0..spec.num_docs {
        let len = if spec.long_docs && rng.random_range(0..10) == 0 {
            rng.random_range(40..600)
        } else {
            rng.random_range(0..12)
        };
        let mut text = gen_tokens(&mut rng, len, &weights);
        text.push("all".to_string());
        if i == rare_doc {
            let pos = rng.random_range(0..=text.len());
            text.insert(pos, "rare".to_string());
        }
        let tlen = rng.random_range(0..4);
        let title = gen_tokens(&mut rng, tlen, &weights);
        let tag = match rng.random_range(0..5) {
            0 => None,
            1 => Some("red".to_string()),
            2 => Some("green".to_string()),
            3 => Some("blue".to_string()),
            _ => Some("grey".to_string()),
        };
        let num = rng.random_range(0..20u64);
        let opt = if rng.random_range(0..3) == 0 {
            None
        } else {
            Some(rng.random_range(0..10u64))
        };
        let mdoc = MDoc {
            id: i as u64,
            text,
            title,
            tag,
            num,
            opt,
            alive: true,
        };
        let mut d = TantivyDocument::new();
        d.add_u64(fields.id, mdoc.id);
        d.add_text(fields.text, mdoc.text.join(" "));
        if !mdoc.title.is_empty() {
            d.add_text(fields.title, mdoc.title.join(" "));
        }
        if let Some(tag) = &mdoc.tag {
            d.add_text(fields.tag, tag);
        }
        d.add_u64(fields.num, mdoc.num);
        d.add_u64(fields.inum, mdoc.num);
        if let Some(opt) = mdoc.opt {
            d.add_u64(fields.opt, opt);
        }
        writer.add_document(d).unwrap();
        docs.push(mdoc);
        if spec.commit_every.contains(&(i + 1)) {
            writer.commit().unwrap();
        }
    }
    writer.commit().unwrap();
    if spec.delete_ratio > 0.0 {
        for doc in docs.iter_mut() {
            if rng.random_bool(spec.delete_ratio) {
                doc.alive = false;
                writer.delete_term(Term::from_field_u64(fields.id, doc.id));
            }
        }
        writer.commit().unwrap();
    }
    if spec.merge {
        let segment_ids = index.searchable_segment_ids().unwrap();
        if segment_ids.len() > 1 {
            writer.merge(&segment_ids).wait().unwrap();
        }
    }
    writer.wait_merging_threads().unwrap();
    Corpus {
        index,
        fields,
        docs,
    }
}

/// Maps each doc address of the searcher to the `id` of the document.
pub fn address_to_id(searcher: &Searcher) -> HashMap<DocAddress, u64> {
    let mut map = HashMap::new();
    for (ord, reader) in searcher.segment_readers().iter().enumerate() {
        let col = reader.fast_fields().u64("id").unwrap();
        for doc in 0..reader.max_doc() {
            if reader.is_deleted(doc) {
                continue;
            }
            let id = col.first(doc).unwrap();
            map.insert(DocAddress::new(ord as u32, doc), id);
        }
    }
    map
}

#[derive(Clone, Copy, Debug, PartialEq, Eq, Hash)]
pub enum TF {
    Text,
    Title,
    Tag,
}

#[derive(Clone, Debug)]
pub enum Q {
    Term(TF, String, IndexRecordOption),
    Phrase(Vec<String>, u32),
    PhrasePrefix(Vec<String>),
    RangeNum(Bound<u64>, Bound<u64>),
    RangeOpt(Bound<u64>, Bound<u64>),
    RangeInum(Bound<u64>, Bound<u64>),
    RangeText(Bound<String>, Bound<String>),
    TermSet(Vec<(TF, String)>),
    Exists(&'static str),
    All,
    Empty,
    Fuzzy(String, u8, bool, bool),
    RegexPrefix(TF, String),
    Boost(Box<Q>, f32),
    Const(Box<Q>, f32),
    DisMax(Vec<Q>, f32),
    Bool(Vec<(Occur, Q)>, Option<usize>),
}

fn field_of(f: &Fields, tf: TF) -> Field {
    match tf {
        TF::Text => f.text,
        TF::Title => f.title,
        TF::Tag => f.tag,
    }
}

fn tokens_of<'a>(d: &'a MDoc, tf: TF) -> Vec<&'a str> {
    match tf {
        TF::Text => d.text.iter().map(|s| s.as_str()).collect(),
        TF::Title => d.title.iter().map(|s| s.as_str()).collect(),
        TF::Tag => d.tag.iter().map(|s| s.as_str()).collect(),
    }
}

fn in_bounds(v: u64, lo: &Bound<u64>, hi: &Bound<u64>) -> bool {
    (match lo {
        Bound::Included(l) => v >= *l,
        Bound::Excluded(l) => v > *l,
        Bound::Unbounded => true,
    }) && (match hi {
        Bound::Included(h) => v <= *h,
        Bound::Excluded(h) => v < *h,
        Bound::Unbounded => true,
    })
}

fn lev(a: &str, b: &str, transposition_cost_one: bool) -> usize {
    // Damerau (restricted) / Levenshtein distance on bytes (ascii vocab).
    let a: Vec<u8> = a.bytes().collect();
    let b: Vec<u8> = b.bytes().collect();
    let mut d = vec![vec![0usize; b.len() + 1]; a.len() + 1];
    for i in 0..=a.len() {
        d[i][0] = i;
    }
    for j in 0..=b.len() {
        d[0][j] = j;
    }
    for i in 1..=a.len() {
        for j in 1..=b.len() {
            let cost = if a[i - 1] == b[j - 1] { 0 } else { 1 };
            d[i][j] = (d[i - 1][j] + 1)
                .min(d[i][j - 1] + 1)
                .min(d[i - 1][j - 1] + cost);
            if transposition_cost_one
                && i > 1
                && j > 1
                && a[i - 1] == b[j - 2]
                && a[i - 2] == b[j - 1]
            {
                d[i][j] = d[i][j].min(d[i - 2][j - 2] + 1);
            }
        }
    }
    d[a.len()][b.len()]
}

fn fuzzy_matches(term: &str, tok: &str, dist: u8, transp: bool, prefix: bool) -> bool {
    if prefix {
        (0..=tok.len()).any(|l| lev(term, &tok[..l], transp) <= dist as usize)
    } else {
        lev(term, tok, transp) <= dist as usize
    }
}

impl Q {
    /// Does the (alive or not) document match?
    pub fn matches(&self, d: &MDoc) -> bool {
        match self {
            Q::Term(tf, tok, _) => tokens_of(d, *tf).contains(&tok.as_str()),
            Q::Phrase(toks, slop) => {
                let text = &d.text;
                if toks.len() == 2 && *slop > 0 {
                    for (pa, a) in text.iter().enumerate() {
                        if a != &toks[0] {
                            continue;
                        }
                        for (pb, b) in text.iter().enumerate() {
                            if b != &toks[1] {
                                continue;
                            }
                            let diff = (pa as i64 + 1 - pb as i64).unsigned_abs();
                            if diff <= *slop as u64 {
                                return true;
                            }
                        }
                    }
                    false
                } else {
                    assert_eq!(*slop, 0, "model only knows slop for 2 terms");
                    text.windows(toks.len()).any(|w| w == &toks[..])
                }
            }
            Q::PhrasePrefix(toks) => {
                let n = toks.len();
                d.text.windows(n).any(|w| {
                    w[..n - 1] == toks[..n - 1] && w[n - 1].starts_with(toks[n - 1].as_str())
                })
            }
            Q::RangeNum(lo, hi) => in_bounds(d.num, lo, hi),
            Q::RangeOpt(lo, hi) => d.opt.map(|v| in_bounds(v, lo, hi)).unwrap_or(false),
            Q::RangeInum(lo, hi) => in_bounds(d.num, lo, hi),
            Q::RangeText(lo, hi) => d.text.iter().any(|t| {
                (match lo {
                    Bound::Included(l) => t >= l,
                    Bound::Excluded(l) => t > l,
                    Bound::Unbounded => true,
                }) && (match hi {
                    Bound::Included(h) => t <= h,
                    Bound::Excluded(h) => t < h,
                    Bound::Unbounded => true,
                })
            }),
            Q::TermSet(terms) => terms
                .iter()
                .any(|(tf, tok)| tokens_of(d, *tf).contains(&tok.as_str())),
            Q::Exists(name) => match *name {
                "opt" => d.opt.is_some(),
                "tag" => d.tag.is_some(),
                "num" => true,
                _ => unreachable!(),
            },
            Q::All => true,
            Q::Empty => false,
            Q::Fuzzy(term, dist, transp, prefix) => d
                .text
                .iter()
                .any(|tok| fuzzy_matches(term, tok, *dist, *transp, *prefix)),
            Q::RegexPrefix(tf, p) => tokens_of(d, *tf).iter().any(|t| t.starts_with(p.as_str())),
            Q::Boost(q, _) => q.matches(d),
            Q::Const(q, _) => q.matches(d),
            Q::DisMax(qs, _) => qs.iter().any(|q| q.matches(d)),
            Q::Bool(clauses, msm) => {
                let mut num_must = 0;
                let mut num_should = 0;
                let mut should_matching = 0;
                for (occur, q) in clauses {
                    match occur {
                        Occur::Must => {
                            num_must += 1;
                            if !q.matches(d) {
                                return false;
                            }
                        }
                        Occur::MustNot => {
                            if q.matches(d) {
                                return false;
                            }
                        }
                        Occur::Should => {
                            num_should += 1;
                            if q.matches(d) {
                                should_matching += 1;
                            }
                        }
                    }
                }
                if num_must == 0 && num_should == 0 {
                    return false;
                }
                let msm = effective_msm(clauses, *msm);
                if num_must == 0 {
                    should_matching >= msm.max(1)
                } else {
                    should_matching >= msm
                }
            }
        }
    }

    pub fn to_query(&self, f: &Fields) -> Box<dyn Query> {
        match self {
            Q::Term(tf, tok, opt) => Box::new(TermQuery::new(
                Term::from_field_text(field_of(f, *tf), tok),
                *opt,
            )),
            Q::Phrase(toks, slop) => {
                let terms = toks
                    .iter()
                    .enumerate()
                    .map(|(i, t)| (i, Term::from_field_text(f.text, t)))
                    .collect();
                Box::new(PhraseQuery::new_with_offset_and_slop(terms, *slop))
            }
            Q::PhrasePrefix(toks) => Box::new(PhrasePrefixQuery::new(
                toks.iter()
                    .map(|t| Term::from_field_text(f.text, t))
                    .collect(),
            )),
            Q::RangeNum(lo, hi) => Box::new(RangeQuery::new(
                map_bound(lo, |v| Term::from_field_u64(f.num, *v)),
                map_bound(hi, |v| Term::from_field_u64(f.num, *v)),
            )),
            Q::RangeOpt(lo, hi) => Box::new(RangeQuery::new(
                map_bound(lo, |v| Term::from_field_u64(f.opt, *v)),
                map_bound(hi, |v| Term::from_field_u64(f.opt, *v)),
            )),
            Q::RangeInum(lo, hi) => Box::new(RangeQuery::new(
                map_bound(lo, |v| Term::from_field_u64(f.inum, *v)),
                map_bound(hi, |v| Term::from_field_u64(f.inum, *v)),
            )),
            Q::RangeText(lo, hi) => Box::new(RangeQuery::new(
                map_bound(lo, |v| Term::from_field_text(f.text, v)),
                map_bound(hi, |v| Term::from_field_text(f.text, v)),
            )),
            Q::TermSet(terms) => Box::new(TermSetQuery::new(
                terms
                    .iter()
                    .map(|(tf, tok)| Term::from_field_text(field_of(f, *tf), tok)),
            )),
            Q::Exists(name) => Box::new(ExistsQuery::new(name.to_string(), false)),
            Q::All => Box::new(AllQuery),
            Q::Empty => Box::new(EmptyQuery),
            Q::Fuzzy(term, dist, transp, prefix) => {
                let t = Term::from_field_text(f.text, term);
                if *prefix {
                    Box::new(FuzzyTermQuery::new_prefix(t, *dist, *transp))
                } else {
                    Box::new(FuzzyTermQuery::new(t, *dist, *transp))
                }
            }
            Q::RegexPrefix(tf, p) => {
                Box::new(RegexQuery::from_pattern(&format!("{p}.*"), field_of(f, *tf)).unwrap())
            }
            Q::Boost(q, b) => Box::new(BoostQuery::new(q.to_query(f), *b)),
            Q::Const(q, s) => Box::new(ConstScoreQuery::new(q.to_query(f), *s)),
            Q::DisMax(qs, tie) => Box::new(DisjunctionMaxQuery::with_tie_breaker(
                qs.iter().map(|q| q.to_query(f)).collect(),
                *tie,
            )),
            Q::Bool(clauses, msm) => {
                let clauses: Vec<(Occur, Box<dyn Query>)> =
                    clauses.iter().map(|(o, q)| (*o, q.to_query(f))).collect();
                match msm {
                    None => Box::new(BooleanQuery::new(clauses)),
                    Some(n) => Box::new(BooleanQuery::with_minimum_required_clauses(clauses, *n)),
                }
            }
        }
    }
}

impl Q {
    /// True if the query contains a leaf that may be turned into a bare `AllScorer`.
    pub fn has_all_like(&self) -> bool {
        match self {
            Q::All | Q::Exists(_) | Q::RangeNum(..) | Q::RangeOpt(..) | Q::PhrasePrefix(..) => true,
            Q::Boost(q, _) | Q::Const(q, _) => q.has_all_like(),
            Q::DisMax(qs, _) => qs.iter().any(|q| q.has_all_like()),
            Q::Bool(cl, _) => cl.iter().any(|(_, q)| q.has_all_like()),
            _ => false,
        }
    }
}

pub fn effective_msm(clauses: &[(Occur, Q)], msm: Option<usize>) -> usize {
    if let Some(n) = msm {
        return n;
    }
    // BooleanQuery::new default
    let mut m = 0;
    for (occur, _) in clauses {
        match occur {
            Occur::Should => m = 1,
            _ => {
                m = 0;
                break;
            }
        }
    }
    m
}

fn map_bound<T, U>(b: &Bound<T>, f: impl Fn(&T) -> U) -> Bound<U> {
    match b {
        Bound::Included(v) => Bound::Included(f(v)),
        Bound::Excluded(v) => Bound::Excluded(f(v)),
        Bound::Unbounded => Bound::Unbounded,
    }
}

// ---------------------------------------------------------------------------------------------
// Independent BM25 model
// ---------------------------------------------------------------------------------------------

pub struct Stats {
    pub total_docs: u64,
    /// per field: total number of tokens
    pub total_tokens: HashMap<TF, u64>,
    /// doc freq per (field, token)
    pub doc_freq: HashMap<(TF, String), u64>,
}

/// Statistics over ALL documents of the model (only valid when nothing is deleted, or when
/// deleted docs are still physically present: tantivy counts deleted docs in its statistics
/// until they are merged away).
pub fn stats(docs: &[&MDoc]) -> Stats {
    let mut total_tokens: HashMap<TF, u64> = HashMap::new();
    let mut doc_freq: HashMap<(TF, String), u64> = HashMap::new();
    for d in docs {
        for tf in [TF::Text, TF::Title, TF::Tag] {
            let toks = tokens_of(d, tf);
            *total_tokens.entry(tf).or_default() += toks.len() as u64;
            let uniq: BTreeSet<&str> = toks.into_iter().collect();
            for t in uniq {
                *doc_freq.entry((tf, t.to_string())).or_default() += 1;
            }
        }
    }
    Stats {
        total_docs: docs.len() as u64,
        total_tokens,
        doc_freq,
    }
}

fn idf(doc_freq: u64, doc_count: u64) -> f32 {
    let x = ((doc_count - doc_freq) as f32 + 0.5) / (doc_freq as f32 + 0.5);
    (1.0 + x).ln()
}

fn bm25(idf_sum: f32, tf: u32, field_len: u32, avg_len: f32) -> f32 {
    const K1: f32 = 1.2;
    const B: f32 = 0.75;
    let weight = idf_sum * (1.0 + K1);
    let dl = FieldNormReader::id_to_fieldnorm(FieldNormReader::fieldnorm_to_id(field_len));
    let norm = K1 * (1.0 - B + B * dl as f32 / avg_len);
    let tf = tf as f32;
    weight * (tf / (tf + norm))
}

impl Q {
    /// Expected score of a matching document when scoring is enabled, `None` if the model does
    /// not know (then only self-consistency is checked).
    pub fn score(&self, d: &MDoc, st: &Stats, boost: f32) -> Option<f32> {
        if !self.matches(d) {
            return None;
        }
        match self {
            Q::Term(tf, tok, opt) => {
                let toks = tokens_of(d, *tf);
                let field_has_freqs = *tf != TF::Tag;
                let freq = if field_has_freqs && opt.has_freq() {
                    toks.iter().filter(|t| **t == tok.as_str()).count() as u32
                } else {
                    1
                };
                let avg = st.total_tokens[tf] as f32 / st.total_docs as f32;
                let df = *st.doc_freq.get(&(*tf, tok.clone())).unwrap_or(&0);
                Some(bm25(idf(df, st.total_docs) * boost, freq, toks.len() as u32, avg))
            }
            Q::Phrase(toks, 0) if toks.len() >= 2 => {
                let count = d.text.windows(toks.len()).filter(|w| *w == &toks[..]).count() as u32;
                let avg = st.total_tokens[&TF::Text] as f32 / st.total_docs as f32;
                let mut idf_sum = 0.0f32;
                for t in toks {
                    let df = *st.doc_freq.get(&(TF::Text, t.clone())).unwrap_or(&0);
                    idf_sum += idf(df, st.total_docs);
                }
                Some(bm25(idf_sum * boost, count, d.text.len() as u32, avg))
            }
            Q::Phrase(..) | Q::PhrasePrefix(..) => None,
            Q::RangeNum(..)
            | Q::RangeOpt(..)
            | Q::RangeInum(..)
            | Q::RangeText(..)
            | Q::TermSet(..)
            | Q::Exists(..)
            | Q::All
            | Q::Fuzzy(..)
            | Q::RegexPrefix(..) => Some(boost),
            Q::Empty => None,
            Q::Boost(q, b) => q.score(d, st, boost * b),
            Q::Const(_, s) => Some(boost * s),
            Q::DisMax(qs, tie) => {
                let mut max = 0.0f32;
                let mut sum = 0.0f32;
                for q in qs {
                    if q.matches(d) {
                        let s = q.score(d, st, boost)?;
                        max = max.max(s);
                        sum += s;
                    }
                }
                Some(max + (sum - max) * tie)
            }
            Q::Bool(clauses, _) => {
                let mut sum = 0.0f32;
                for (occur, q) in clauses {
                    if *occur != Occur::MustNot && q.matches(d) {
                        sum += q.score(d, st, boost)?;
                    }
                }
                Some(sum)
            }
        }
    }
}

// ---------------------------------------------------------------------------------------------
// Random query generation
// ---------------------------------------------------------------------------------------------

pub fn rand_tok(rng: &mut StdRng) -> String {
    let r = rng.random_range(0..100);
    if r < 3 {
        "zzz".to_string() // absent term
    } else if r < 8 {
        "rare".to_string()
    } else if r < 14 {
        "all".to_string()
    } else {
        VOCAB[rng.random_range(0..8)].to_string()
    }
}

fn rand_bounds(rng: &mut StdRng, max: u64) -> (Bound<u64>, Bound<u64>) {
    loop {
        let lo = rand_bound(rng, max);
        let hi = rand_bound(rng, max);
        if lo != Bound::Unbounded || hi != Bound::Unbounded {
            return (lo, hi);
        }
    }
}

fn rand_bound(rng: &mut StdRng, max: u64) -> Bound<u64> {
    match rng.random_range(0..3) {
        0 => Bound::Unbounded,
        1 => Bound::Included(rng.random_range(0..max)),
        _ => Bound::Excluded(rng.random_range(0..max)),
    }
}

pub struct GenOpts {
    pub slop_phrases: bool,
    pub fuzzy: bool,
}

pub fn rand_leaf(rng: &mut StdRng, o: &GenOpts) -> Q {
    match rng.random_range(0..100) {
        0..=39 => {
            let opt = match rng.random_range(0..3) {
                0 => IndexRecordOption::Basic,
                1 => IndexRecordOption::WithFreqs,
                _ => IndexRecordOption::WithFreqsAndPositions,
            };
            Q::Term(TF::Text, rand_tok(rng), opt)
        }
        40..=45 => {
            let opt = match rng.random_range(0..2) {
                0 => IndexRecordOption::Basic,
                _ => IndexRecordOption::WithFreqs,
            };
            Q::Term(TF::Title, rand_tok(rng), opt)
        }
        46..=49 => {
            let tags = ["red", "green", "blue", "grey", "pink"];
            Q::Term(
                TF::Tag,
                tags[rng.random_range(0..tags.len())].to_string(),
                IndexRecordOption::Basic,
            )
        }
        50..=57 => {
            let n = rng.random_range(2..4);
            let toks: Vec<String> = (0..n).map(|_| rand_tok(rng)).collect();
            let slop = if o.slop_phrases && n == 2 && rng.random_bool(0.4) {
                rng.random_range(1..4)
            } else {
                0
            };
            Q::Phrase(toks, slop)
        }
        58..=61 => {
            let n = rng.random_range(2..4);
            let mut toks: Vec<String> = (0..n).map(|_| rand_tok(rng)).collect();
            let prefixes = ["a", "ab", "x", "b", "abc", "q"];
            toks[n - 1] = prefixes[rng.random_range(0..prefixes.len())].to_string();
            Q::PhrasePrefix(toks)
        }
        62..=66 => {
            let (lo, hi) = rand_bounds(rng, 21);
            Q::RangeNum(lo, hi)
        }
        67..=68 => {
            let (lo, hi) = rand_bounds(rng, 21);
            Q::RangeInum(lo, hi)
        }
        69 => {
            let lo = Bound::Included(rand_tok(rng));
            let hi = match rng.random_range(0..3) {
                0 => Bound::Unbounded,
                1 => Bound::Included(rand_tok(rng)),
                _ => Bound::Excluded(rand_tok(rng)),
            };
            Q::RangeText(lo, hi)
        }
        70..=74 => {
            let (lo, hi) = rand_bounds(rng, 11);
            Q::RangeOpt(lo, hi)
        }
        75..=79 => {
            let n = rng.random_range(1..4);
            Q::TermSet((0..n).map(|_| (TF::Text, rand_tok(rng))).collect())
        }
        80..=84 => Q::Exists(["opt", "tag", "num"][rng.random_range(0..3)]),
        85..=88 => Q::All,
        89..=90 => Q::Empty,
        91..=94 => {
            if o.fuzzy {
                Q::Fuzzy(
                    rand_tok(rng),
                    rng.random_range(0..2),
                    rng.random_bool(0.5),
                    rng.random_bool(0.3),
                )
            } else {
                Q::All
            }
        }
        _ => {
            let prefixes = ["a", "ab", "x", "b", "abc", "q", "r"];
            Q::RegexPrefix(
                TF::Text,
                prefixes[rng.random_range(0..prefixes.len())].to_string(),
            )
        }
    }
}

pub fn rand_query(rng: &mut StdRng, depth: u32, o: &GenOpts) -> Q {
    if depth == 0 || rng.random_range(0..100) < 25 {
        return rand_leaf(rng, o);
    }
    match rng.random_range(0..100) {
        0..=69 => {
            let n = rng.random_range(1..5);
            let clauses: Vec<(Occur, Q)> = (0..n)
                .map(|_| {
                    let occur = match rng.random_range(0..10) {
                        0..=3 => Occur::Should,
                        4..=7 => Occur::Must,
                        _ => Occur::MustNot,
                    };
                    (occur, rand_query(rng, depth - 1, o))
                })
                .collect();
            let msm = if rng.random_bool(0.35) {
                Some(rng.random_range(0..4))
            } else {
                None
            };
            Q::Bool(clauses, msm)
        }
        70..=79 => Q::Boost(
            Box::new(rand_query(rng, depth - 1, o)),
            [0.5f32, 2.0, 1.0, 3.5][rng.random_range(0..4)],
        ),
        80..=87 => Q::Const(
            Box::new(rand_query(rng, depth - 1, o)),
            [0.25f32, 1.0, 4.0][rng.random_range(0..3)],
        ),
        _ => {
            let n = rng.random_range(1..4);
            Q::DisMax(
                (0..n).map(|_| rand_query(rng, depth - 1, o)).collect(),
                [0.0f32, 0.3, 1.0][rng.random_range(0..3)],
            )
        }
    }
}

pub fn rng(seed: u64) -> StdRng {
    StdRng::seed_from_u64(seed)
}
