// Property C13: every scorer is one sorted sequence under any mix of advance / seek /
// fill_buffer / fill_bitset_block / seek_danger / count_including_deleted.
mod hunt3_common;

use std::collections::HashMap;

use common::TinySet;
use hunt3_common::*;
use rand::rngs::StdRng;
use rand::Rng;
use tantivy::query::{EnableScoring, Scorer, Weight};
use tantivy::{DocId, DocSet, SegmentReader, COLLECT_BLOCK_BUFFER_LEN, TERMINATED};

fn reference(weight: &dyn Weight, reader: &SegmentReader) -> Vec<(DocId, f32)> {
    let mut scorer = weight.scorer(reader, 1.0).unwrap();
    let mut out = Vec::new();
    let mut doc = scorer.doc();
    while doc != TERMINATED {
        out.push((doc, scorer.score()));
        let next = scorer.advance();
        assert!(next > doc, "advance went from {doc} to {next}");
        doc = next;
    }
    out
}

fn first_ge(reference: &[(DocId, f32)], target: DocId) -> usize {
    reference.partition_point(|(d, _)| *d < target)
}

/// Runs one random program. Returns Err(description) on the first divergence.
fn run_program(
    scorer: &mut Box<dyn Scorer>,
    reference: &[(DocId, f32)],
    max_doc: DocId,
    rng: &mut StdRng,
    scoring: bool,
    log: &mut Vec<String>,
) -> Result<(), String> {
    let mut pos = 0usize; // index in reference of the current doc
    let doc_at = |pos: usize| reference.get(pos).map(|(d, _)| *d).unwrap_or(TERMINATED);
    macro_rules! check_pos {
        ($what:expr) => {
            let got = scorer.doc();
            let exp = doc_at(pos);
            if got != exp {
                return Err(format!("after {}: doc()={} expected {}", $what, got, exp));
            }
            if scoring && exp != TERMINATED && rng.random_bool(0.7) {
                let s = scorer.score();
                let es = reference[pos].1;
                if (s - es).abs() > 1e-5 * es.abs().max(1.0) {
                    return Err(format!(
                        "after {}: score at doc {} = {} expected {}",
                        $what, exp, s, es
                    ));
                }
            }
        };
    }
    check_pos!("init");
    let steps = rng.random_range(1..40);
    let skip_known = std::env::var("HUNT3_ALL").is_err();
    for _ in 0..steps {
        let cur = doc_at(pos);
        if cur == TERMINATED && skip_known {
            // known defect D-bitset: advance() after a seek past the end resurrects the docset
            return Ok(());
        }
        match rng.random_range(0..100) {
            0..=29 => {
                log.push("advance".into());
                let r = scorer.advance();
                pos = (pos + 1).min(reference.len());
                if r != doc_at(pos) {
                    return Err(format!("advance returned {r} expected {}", doc_at(pos)));
                }
                check_pos!("advance");
            }
            30..=59 => {
                // seek to a target >= current doc
                let target = if cur == TERMINATED {
                    TERMINATED
                } else {
                    match rng.random_range(0..6) {
                        0 => cur,
                        1 => cur + 1,
                        2 => doc_at((pos + rng.random_range(1..5)).min(reference.len())),
                        3 => (cur + rng.random_range(0..200)).min(TERMINATED),
                        4 => (cur + rng.random_range(0..6000)).min(TERMINATED),
                        _ => rng.random_range(cur..=max_doc + 5),
                    }
                };
                log.push(format!("seek({target})"));
                let r = scorer.seek(target);
                pos = first_ge(reference, target).max(pos);
                if r != doc_at(pos) {
                    return Err(format!("seek({target}) returned {r} expected {}", doc_at(pos)));
                }
                check_pos!(format!("seek({target})"));
            }
            60..=64 => {
                log.push("seek(TERMINATED)".into());
                let r = scorer.seek(TERMINATED);
                pos = reference.len();
                if r != TERMINATED {
                    return Err(format!("seek(TERMINATED) returned {r}"));
                }
                check_pos!("seek(TERMINATED)");
            }
            65..=79 => {
                log.push("fill_buffer".into());
                let mut buffer = [0u32; COLLECT_BLOCK_BUFFER_LEN];
                let n = scorer.fill_buffer(&mut buffer);
                let exp: Vec<DocId> = reference[pos.min(reference.len())..]
                    .iter()
                    .take(COLLECT_BLOCK_BUFFER_LEN)
                    .map(|(d, _)| *d)
                    .collect();
                if buffer[..n] != exp[..] {
                    return Err(format!(
                        "fill_buffer returned {:?} expected {:?}",
                        &buffer[..n.min(8)],
                        &exp[..exp.len().min(8)]
                    ));
                }
                pos = (pos + n).min(reference.len());
                check_pos!("fill_buffer");
            }
            80..=87 => {
                if cur == TERMINATED {
                    continue;
                }
                let min_doc = match rng.random_range(0..3) {
                    0 => cur,
                    1 => cur + rng.random_range(0..100),
                    _ => cur + rng.random_range(0..3000),
                };
                log.push(format!("fill_bitset_block({min_doc})"));
                let mut mask = [TinySet::empty(); 16];
                let r = scorer.fill_bitset_block(min_doc, &mut mask);
                let mut got = Vec::new();
                for (i, ts) in mask.iter().enumerate() {
                    for b in ts.into_iter() {
                        got.push(min_doc + i as u32 * 64 + b);
                    }
                }
                let start = first_ge(reference, min_doc).max(pos);
                let end = first_ge(reference, min_doc + 1024);
                let exp: Vec<DocId> = reference[start..end].iter().map(|(d, _)| *d).collect();
                if got != exp {
                    return Err(format!(
                        "fill_bitset_block({min_doc}) bits {:?}.. expected {:?}..",
                        &got[..got.len().min(8)],
                        &exp[..exp.len().min(8)]
                    ));
                }
                pos = end.max(pos);
                if r != doc_at(pos) {
                    return Err(format!(
                        "fill_bitset_block({min_doc}) returned {r} expected {}",
                        doc_at(pos)
                    ));
                }
                check_pos!("fill_bitset_block");
            }
            88..=95 => {
                // a seek_danger sequence, with strictly increasing targets, until Found or end
                if cur == TERMINATED {
                    continue;
                }
                let mut target = cur + rng.random_range(0..3);
                let mut found = false;
                for _ in 0..rng.random_range(1..6) {
                    if target >= TERMINATED {
                        break;
                    }
                    log.push(format!("seek_danger({target})"));
                    let r = format!("{:?}", scorer.seek_danger(target));
                    let p = first_ge(reference, target);
                    let in_set = doc_at(p) == target;
                    if r == "Found" {
                        if !in_set {
                            return Err(format!("seek_danger({target}) Found but not in set"));
                        }
                        pos = p;
                        found = true;
                        check_pos!(format!("seek_danger({target})=Found"));
                        break;
                    } else {
                        if in_set {
                            return Err(format!("seek_danger({target}) = {r} but target is in set"));
                        }
                        let lb: u32 = r
                            .trim_start_matches("SeekLowerBound(")
                            .trim_end_matches(')')
                            .parse()
                            .unwrap();
                        let next = doc_at(p);
                        if !(lb == TERMINATED || (lb > target && lb <= next)) {
                            return Err(format!(
                                "seek_danger({target}) = {r}: lower bound not in ({target}, {next}]"
                            ));
                        }
                        // next target: the lower bound or beyond
                        target = match rng.random_range(0..3) {
                            0 => lb,
                            1 => next,
                            _ => lb.max(target + 1 + rng.random_range(0..50)).min(TERMINATED),
                        };
                        if lb == TERMINATED {
                            target = TERMINATED;
                        }
                    }
                }
                if !found {
                    // bring the docset back to a valid state: keep seek_danger-ing on actual docs
                    let p = first_ge(reference, target.min(TERMINATED));
                    if doc_at(p) == TERMINATED {
                        // nothing left: the docset may stay invalid, stop here.
                        return Ok(());
                    }
                    let t = doc_at(p);
                    log.push(format!("seek_danger({t}) [resync]"));
                    let r = format!("{:?}", scorer.seek_danger(t));
                    if r != "Found" {
                        return Err(format!("seek_danger({t}) = {r} but target is in set"));
                    }
                    pos = p;
                    check_pos!(format!("seek_danger({t})=Found"));
                }
            }
            _ => {
                log.push("count_including_deleted".into());
                let c = scorer.count_including_deleted();
                let exp = (reference.len() - pos.min(reference.len())) as u32;
                if c != exp {
                    return Err(format!("count_including_deleted = {c} expected {exp}"));
                }
                return Ok(());
            }
        }
    }
    // drain to the end and check stickiness of TERMINATED
    if rng.random_bool(0.5) {
        log.push("drain".into());
        let drained = scorer.doc() != TERMINATED;
        while scorer.doc() != TERMINATED {
            let r = scorer.advance();
            pos = (pos + 1).min(reference.len());
            if r != doc_at(pos) {
                return Err(format!("drain advance returned {r} expected {}", doc_at(pos)));
            }
        }
        for _ in 0..3 {
            match rng.random_range(0..3) {
                0 => {
                    if skip_known && !drained {
                        continue;
                    }
                    log.push("advance@end".into());
                    let r = scorer.advance();
                    if r != TERMINATED || scorer.doc() != TERMINATED {
                        return Err(format!("advance after end returned {r}, doc()={}", scorer.doc()));
                    }
                }
                1 => {
                    log.push("seek(T)@end".into());
                    let r = scorer.seek(TERMINATED);
                    if r != TERMINATED || scorer.doc() != TERMINATED {
                        return Err(format!("seek(TERMINATED) after end returned {r}"));
                    }
                }
                _ => {
                    log.push("fill_buffer@end".into());
                    let mut buffer = [0u32; COLLECT_BLOCK_BUFFER_LEN];
                    let n = scorer.fill_buffer(&mut buffer);
                    if n != 0 || scorer.doc() != TERMINATED {
                        return Err(format!("fill_buffer after end returned {n}"));
                    }
                }
            }
        }
    }
    Ok(())
}

fn scale() -> usize {
    std::env::var("HUNT3_SCALE").ok().and_then(|s| s.parse().ok()).unwrap_or(1)
}

fn run(spec: CorpusSpec, num_queries: usize, depth: u32, qseed: u64) {
    std::panic::set_hook(Box::new(|_| {}));
    let corpus = build_corpus(&spec);
    let reader = corpus.index.reader().unwrap();
    let searcher = reader.searcher();
    let mut rng = rng(qseed + scale() as u64);
    let opts = GenOpts {
        slop_phrases: true,
        fuzzy: true,
    };
    let mut failures: Vec<String> = Vec::new();
    let mut kinds: HashMap<String, usize> = HashMap::new();
    for _ in 0..num_queries * scale() {
        let d = rng.random_range(0..=depth);
        let q = rand_query(&mut rng, d, &opts);
        let query = q.to_query(&corpus.fields);
        for scoring in [true, false] {
            let enable = if scoring {
                EnableScoring::enabled_from_searcher(&searcher)
            } else {
                EnableScoring::disabled_from_searcher(&searcher)
            };
            let weight = query.weight(enable).unwrap();
            for seg in searcher.segment_readers() {
                let reference = match std::panic::catch_unwind(std::panic::AssertUnwindSafe(|| {
                    reference(&*weight, seg)
                })) {
                    Ok(r) => r,
                    Err(_) => {
                        *kinds.entry("panic-in-reference".into()).or_default() += 1;
                        continue;
                    }
                };
                for _ in 0..6 {
                    let mut log = Vec::new();
                    let res = std::panic::catch_unwind(std::panic::AssertUnwindSafe(|| {
                        let mut scorer = weight.scorer(seg, 1.0).unwrap();
                        run_program(&mut scorer, &reference, seg.max_doc(), &mut rng, scoring, &mut log)
                    }));
                    let err = match res {
                        Ok(Ok(())) => continue,
                        Ok(Err(e)) => e,
                        Err(p) => {
                            let msg = p
                                .downcast_ref::<String>()
                                .cloned()
                                .or_else(|| p.downcast_ref::<&str>().map(|s| s.to_string()))
                                .unwrap_or_default();
                            format!("PANIC {}", msg.chars().take(150).collect::<String>())
                        }
                    };
                    let kind: String = err
                        .split(|c: char| c.is_ascii_digit())
                        .next()
                        .unwrap()
                        .to_string();
                    *kinds.entry(kind).or_default() += 1;
                    if failures.len() < 60 {
                        let tail: Vec<_> = log.iter().rev().take(6).rev().cloned().collect();
                        failures.push(format!(
                            "scoring={scoring} max_doc={} query={q:?}\n   ops=..{tail:?}\n   => {err}",
                            seg.max_doc()
                        ));
                    }
                }
            }
        }
    }
    let _ = std::panic::take_hook();
    if !failures.is_empty() || !kinds.is_empty() {
        panic!("kinds={kinds:#?}\n{}", failures.join("\n"));
    }
}

#[test]
fn docset_programs_small() {
    run(
        CorpusSpec {
            seed: 11,
            num_docs: 700,
            commit_every: vec![300],
            delete_ratio: 0.1,
            merge: false,
            long_docs: false,
        },
        500,
        3,
        77,
    );
}

#[test]
fn docset_programs_large() {
    run(
        CorpusSpec {
            seed: 12,
            num_docs: 12000,
            commit_every: vec![],
            delete_ratio: 0.0,
            merge: false,
            long_docs: false,
        },
        150,
        2,
        78,
    );
}
