// Differential fuzzing of whole-index query evaluation against an in-memory model.
mod hunt3_common;

use std::collections::{BTreeSet, HashMap};

use hunt3_common::*;
use rand::Rng;
use tantivy::collector::{Count, DocSetCollector, MultiCollector, TopDocs};
use tantivy::query::{EnableScoring, Query};
use tantivy::{DocAddress, Searcher};

fn specs() -> Vec<CorpusSpec> {
    vec![
        CorpusSpec {
            seed: 1,
            num_docs: 300,
            commit_every: vec![],
            delete_ratio: 0.0,
            merge: false,
            long_docs: true,
        },
        CorpusSpec {
            seed: 2,
            num_docs: 400,
            commit_every: vec![1, 130, 131, 260],
            delete_ratio: 0.0,
            merge: false,
            long_docs: true,
        },
        CorpusSpec {
            seed: 3,
            num_docs: 500,
            commit_every: vec![128, 257],
            delete_ratio: 0.2,
            merge: false,
            long_docs: false,
        },
        CorpusSpec {
            seed: 4,
            num_docs: 300,
            commit_every: vec![100, 200],
            delete_ratio: 0.3,
            merge: true,
            long_docs: true,
        },
        CorpusSpec {
            seed: 5,
            num_docs: 9000,
            commit_every: vec![4500],
            delete_ratio: 0.05,
            merge: false,
            long_docs: false,
        },
    ]
}

fn ids_of(searcher_map: &HashMap<DocAddress, u64>, addrs: impl Iterator<Item = DocAddress>) -> BTreeSet<u64> {
    addrs
        .map(|a| *searcher_map.get(&a).unwrap_or_else(|| panic!("address {a:?} is not a live doc")))
        .collect()
}

fn check_query(corpus: &Corpus, searcher: &Searcher, addr2id: &HashMap<DocAddress, u64>, q: &Q, check_model_scores: bool, failures: &mut Vec<String>) {
    let query = q.to_query(&corpus.fields);
    let expected: BTreeSet<u64> = corpus
        .docs
        .iter()
        .filter(|d| d.alive && q.matches(d))
        .map(|d| d.id)
        .collect();
    let mut fail = |what: &str, detail: String| {
        failures.push(format!("[{what}] query={q:?}\n    {detail}"));
    };

    // Count collector
    let count = searcher.search(&*query, &Count).unwrap();
    if count != expected.len() {
        fail("count", format!("Count={count} expected={}", expected.len()));
    }
    // Query::count
    let qcount = query.count(searcher).unwrap();
    if qcount != expected.len() {
        fail("query.count", format!("query.count={qcount} expected={}", expected.len()));
    }
    // DocSetCollector
    let docset = searcher.search(&*query, &DocSetCollector).unwrap();
    let docset_ids = ids_of(addr2id, docset.iter().cloned());
    if docset_ids != expected {
        let missing: Vec<_> = expected.difference(&docset_ids).take(5).collect();
        let extra: Vec<_> = docset_ids.difference(&expected).take(5).collect();
        fail("docset", format!("missing={missing:?} extra={extra:?}"));
    }
    // TopDocs with huge K
    let all_top = searcher
        .search(&*query, &TopDocs::with_limit(100_000).order_by_score())
        .unwrap();
    let top_ids = ids_of(addr2id, all_top.iter().map(|(_, a)| *a));
    if top_ids != expected || all_top.len() != expected.len() {
        let missing: Vec<_> = expected.difference(&top_ids).take(5).collect();
        let extra: Vec<_> = top_ids.difference(&expected).take(5).collect();
        fail("topdocs-all", format!("len={} expected={} missing={missing:?} extra={extra:?}", all_top.len(), expected.len()));
    }
    // sortedness
    for w in all_top.windows(2) {
        let ok = w[0].0 > w[1].0 || (w[0].0 == w[1].0 && w[0].1 < w[1].1);
        if !ok {
            fail("topdocs-order", format!("{:?} then {:?}", w[0], w[1]));
            break;
        }
    }
    // Tuple / MultiCollector
    let (c2, d2, t2) = searcher
        .search(&*query, &(Count, DocSetCollector, TopDocs::with_limit(100_000).order_by_score()))
        .unwrap();
    if c2 != expected.len() || ids_of(addr2id, d2.iter().cloned()) != expected {
        fail("tuple", format!("count={c2} docset={} expected={}", d2.len(), expected.len()));
    }
    let full_scores: HashMap<DocAddress, f32> = all_top.iter().map(|(s, a)| (*a, *s)).collect();
    if t2.len() == all_top.len() {
        for (s, a) in &t2 {
            if let Some(s0) = full_scores.get(a) {
                if (s - s0).abs() > 1e-5 * s0.abs().max(1.0) {
                    fail("tuple-score", format!("doc {a:?} score {s} vs {s0}"));
                    break;
                }
            }
        }
    } else {
        fail("tuple-top", format!("len {} vs {}", t2.len(), all_top.len()));
    }
    {
        let mut multi = MultiCollector::new();
        let ch = multi.add_collector(Count);
        let th = multi.add_collector(TopDocs::with_limit(7).order_by_score());
        let mut fruits = searcher.search(&*query, &multi).unwrap();
        let c3 = ch.extract(&mut fruits);
        let t3 = th.extract(&mut fruits);
        if c3 != expected.len() {
            fail("multi-count", format!("{c3} vs {}", expected.len()));
        }
        check_page(&all_top, &t3, 0, 7, "multi-top7", &mut fail);
    }
    // top-K pages
    for (k, o) in [(1usize, 0usize), (3, 0), (10, 0), (5, 3), (10, 95), (4, 1000000)] {
        let page = searcher
            .search(&*query, &TopDocs::with_limit(k).and_offset(o).order_by_score())
            .unwrap();
        check_page(&all_top, &page, o, k, &format!("top k={k} o={o}"), &mut fail);
    }
    // explain agrees
    let mut n_explained = 0;
    for (s, a) in all_top.iter() {
        if q.has_all_like() && std::env::var("HUNT3_ALL").is_err() {
            break;
        }
        if n_explained > 12 {
            break;
        }
        n_explained += 1;
        let res = std::panic::catch_unwind(std::panic::AssertUnwindSafe(|| query.explain(searcher, *a)));
        let res = match res {
            Ok(res) => res,
            Err(_) => {
                fail("explain-panic", format!("doc {a:?}"));
                break;
            }
        };
        match res {
            Ok(expl) => {
                let v = expl.value();
                if (v - s).abs() > 1e-4 * s.abs().max(1.0) {
                    fail("explain", format!("doc {a:?} (id {}) explain={v} score={s}", addr2id[a]));
                    break;
                }
            }
            Err(e) => {
                fail("explain-err", format!("doc {a:?} {e:?}"));
                break;
            }
        }
    }
    // model scores
    if check_model_scores && !q.has_all_like() {
        let alive: Vec<&MDoc> = corpus.docs.iter().collect();
        let st = stats(&alive);
        let by_id: HashMap<u64, &MDoc> = corpus.docs.iter().map(|d| (d.id, d)).collect();
        for (s, a) in all_top.iter() {
            let d = by_id[&addr2id[a]];
            if let Some(exp) = q.score(d, &st, 1.0) {
                if (exp - s).abs() > 2e-4 * exp.abs().max(1.0) {
                    fail("model-score", format!("doc {a:?} (id {}) score={s} model={exp} textlen={}", d.id, d.text.len()));
                    break;
                }
            }
        }
    }
    // no-scoring scorer vs scoring scorer: same docs per segment
    let _ = EnableScoring::disabled_from_searcher(searcher);
}

fn check_page(all_top: &[(f32, DocAddress)], page: &[(f32, DocAddress)], o: usize, k: usize, what: &str, fail: &mut impl FnMut(&str, String)) {
    let start = o.min(all_top.len());
    let end = (o + k).min(all_top.len());
    let exp = &all_top[start..end];
    if exp.len() != page.len() {
        fail(what, format!("page len {} expected {}", page.len(), exp.len()));
        return;
    }
    for (e, p) in exp.iter().zip(page.iter()) {
        // same doc, or at least exactly the same score at this rank (rounding of sums may differ
        // between the pruning and the exhaustive path, so do not insist on the address if scores
        // are within rounding).
        if e.1 != p.1 {
            let close = (e.0 - p.0).abs() <= 1e-5 * e.0.abs().max(1.0);
            if !close {
                fail(what, format!("rank mismatch: got {p:?} expected {e:?}"));
                return;
            }
        } else if (e.0 - p.0).abs() > 1e-5 * e.0.abs().max(1.0) {
            fail(what, format!("score mismatch for {:?}: {} vs {}", e.1, p.0, e.0));
            return;
        }
    }
}

fn scale() -> usize {
    std::env::var("HUNT3_SCALE").ok().and_then(|s| s.parse().ok()).unwrap_or(1)
}

fn run(spec_idx: usize, num_queries: usize, depth: u32) {
    std::panic::set_hook(Box::new(|info| {
        let loc = info.location().map(|l| format!("{}:{}", l.file(), l.line())).unwrap_or_default();
        if !loc.starts_with("src/") {
            eprintln!("{info}");
        } else {
            let bt = std::backtrace::Backtrace::force_capture().to_string();
            let in_explain = bt.contains("Weight>::explain");
            if !in_explain {
                let msg: String = format!("{info}").chars().take(300).collect();
                eprintln!("PANIC {msg}");
                let frames: Vec<&str> = bt.lines().filter(|l| l.contains("tantivy::") || l.contains("hunt3")).take(14).collect();
                eprintln!("{}", frames.join("\n"));
            }
        }
    }));
    let spec = &specs()[spec_idx];
    let corpus = build_corpus(spec);
    let reader = corpus.index.reader().unwrap();
    let searcher = reader.searcher();
    let addr2id = address_to_id(&searcher);
    let check_model_scores = spec.delete_ratio == 0.0;
    let mut rng = rng(1000 + spec_idx as u64 + 17 * scale() as u64);
    let opts = GenOpts { slop_phrases: true, fuzzy: true };
    let mut failures = Vec::new();
    for _ in 0..num_queries * scale() {
        let d = rng.random_range(0..=depth);
        let q = rand_query(&mut rng, d, &opts);
        check_query(&corpus, &searcher, &addr2id, &q, check_model_scores, &mut failures);
        if failures.len() > 40 {
            break;
        }
    }
    if !failures.is_empty() {
        // group by kind
        let mut kinds: HashMap<String, usize> = HashMap::new();
        for f in &failures {
            let k = f.split(']').next().unwrap().to_string();
            *kinds.entry(k).or_default() += 1;
        }
        panic!(
            "{} failures (segments={}): kinds={kinds:?}\n{}",
            failures.len(),
            searcher.segment_readers().len(),
            failures.join("\n")
        );
    }
}

#[test]
fn fuzz_single_segment() {
    run(0, 600, 3);
}

#[test]
fn fuzz_multi_segment() {
    run(1, 600, 3);
}

#[test]
fn fuzz_deletes() {
    run(2, 600, 3);
}

#[test]
fn fuzz_deletes_merged() {
    run(3, 600, 3);
}

#[test]
fn fuzz_large() {
    run(4, 150, 2);
}

fn rand_term_bool(rng: &mut rand::rngs::StdRng) -> Q {
    use tantivy::query::Occur;
    use tantivy::schema::IndexRecordOption;
    let n = rng.random_range(2..6);
    let kind = rng.random_range(0..4);
    let clauses: Vec<(Occur, Q)> = (0..n)
        .map(|i| {
            let occur = match kind {
                0 => Occur::Should,
                1 => Occur::Must,
                2 => {
                    if i == 0 {
                        Occur::Must
                    } else {
                        Occur::Should
                    }
                }
                _ => {
                    if rng.random_bool(0.5) {
                        Occur::Should
                    } else {
                        Occur::Must
                    }
                }
            };
            let tf = if rng.random_bool(0.85) { TF::Text } else { TF::Title };
            let mut q = Q::Term(tf, rand_tok(rng), IndexRecordOption::WithFreqs);
            if rng.random_bool(0.2) {
                q = Q::Boost(Box::new(q), [0.5f32, 2.0, 7.0][rng.random_range(0..3)]);
            }
            (occur, q)
        })
        .collect();
    let msm = if kind == 0 && rng.random_bool(0.2) { Some(rng.random_range(1..3)) } else { None };
    let q = Q::Bool(clauses, msm);
    if rng.random_bool(0.15) {
        Q::Boost(Box::new(q), 3.0)
    } else {
        q
    }
}

fn run_term_bools(spec: CorpusSpec, num_queries: usize) {
    let corpus = build_corpus(&spec);
    let reader = corpus.index.reader().unwrap();
    let searcher = reader.searcher();
    let addr2id = address_to_id(&searcher);
    let check_model_scores = spec.delete_ratio == 0.0;
    let mut rng = rng(spec.seed * 31 + scale() as u64);
    let mut failures = Vec::new();
    for _ in 0..num_queries * scale() {
        let q = rand_term_bool(&mut rng);
        check_query(&corpus, &searcher, &addr2id, &q, check_model_scores, &mut failures);
        if failures.len() > 20 {
            break;
        }
    }
    assert!(failures.is_empty(), "{} failures (segments={}):\n{}", failures.len(), searcher.segment_readers().len(), failures.join("\n"));
}

#[test]
fn term_bools_large_deletes() {
    run_term_bools(
        CorpusSpec { seed: 41, num_docs: 6000, commit_every: vec![700, 5000], delete_ratio: 0.1, merge: false, long_docs: true },
        120,
    );
}

#[test]
fn term_bools_large_nodeletes() {
    run_term_bools(
        CorpusSpec { seed: 42, num_docs: 5000, commit_every: vec![129, 3000], delete_ratio: 0.0, merge: false, long_docs: true },
        120,
    );
}
