// Property C06: TopDocs ordered by fast fields / tweaked scores, with offsets and paging.
mod hunt3_common;

use std::collections::HashMap;

use hunt3_common::*;
use rand::Rng;
use tantivy::collector::TopDocs;
use tantivy::schema::IndexRecordOption;
use tantivy::{DocAddress, DocId, Order, Score, Searcher, SegmentReader};

fn cmp_opt<T: PartialOrd>(a: &Option<T>, b: &Option<T>, order: Order) -> std::cmp::Ordering {
    use std::cmp::Ordering::*;
    // None is always last
    match (a, b) {
        (None, None) => Equal,
        (None, Some(_)) => Greater,
        (Some(_), None) => Less,
        (Some(x), Some(y)) => match order {
            Order::Asc => x.partial_cmp(y).unwrap(),
            Order::Desc => y.partial_cmp(x).unwrap(),
        },
    }
}

fn check_pages<K: PartialEq + std::fmt::Debug + Clone>(
    what: &str,
    expected: &[(K, DocAddress)],
    mut fetch: impl FnMut(usize, usize) -> Vec<(K, DocAddress)>,
    failures: &mut Vec<String>,
) {
    let n = expected.len();
    for (k, o) in [
        (1usize, 0usize),
        (2, 0),
        (7, 0),
        (n.max(1), 0),
        (n + 10, 0),
        (5, 3),
        (10, n.saturating_sub(4)),
        (3, n),
        (3, n + 7),
        (50, 25),
    ] {
        let got = fetch(k, o);
        let start = o.min(n);
        let end = (o + k).min(n);
        if got != expected[start..end] {
            let first_diff = got
                .iter()
                .zip(expected[start..end].iter())
                .position(|(a, b)| a != b);
            failures.push(format!(
                "{what} k={k} o={o}: got len {} expected len {}; first diff at {:?}: got {:?} expected {:?}",
                got.len(),
                end - start,
                first_diff,
                first_diff.map(|i| &got[i]),
                first_diff.map(|i| &expected[start..end][i]),
            ));
            return;
        }
    }
    // paging enumerates every match exactly once
    let page = 7;
    let mut all = Vec::new();
    let mut o = 0;
    loop {
        let got = fetch(page, o);
        if got.is_empty() {
            break;
        }
        all.extend(got);
        o += page;
        if o > n + 50 {
            break;
        }
    }
    if all != expected {
        failures.push(format!("{what}: paging by {page} enumerated {} docs, expected {}", all.len(), n));
    }
}

fn run(spec: CorpusSpec, threads: usize) {
    let mut corpus = build_corpus(&spec);
    if threads > 1 {
        corpus.index.set_multithread_executor(threads).unwrap();
    }
    let reader = corpus.index.reader().unwrap();
    let searcher: Searcher = reader.searcher();
    let addr2id = address_to_id(&searcher);
    let id2addr: HashMap<u64, DocAddress> = addr2id.iter().map(|(a, i)| (*i, *a)).collect();
    let mut failures = Vec::new();
    let mut rng = rng(spec.seed + 99);
    let opts = GenOpts {
        slop_phrases: false,
        fuzzy: false,
    };
    let mut queries = vec![
        Q::All,
        Q::Term(TF::Text, "all".into(), IndexRecordOption::WithFreqs),
        Q::Term(TF::Text, "aa".into(), IndexRecordOption::Basic),
        Q::Term(TF::Text, "rare".into(), IndexRecordOption::Basic),
        Q::Term(TF::Text, "zzz".into(), IndexRecordOption::Basic),
    ];
    for _ in 0..25 {
        queries.push(rand_query(&mut rng, 2, &opts));
    }
    for q in &queries {
        let query = q.to_query(&corpus.fields);
        let matching: Vec<(&MDoc, DocAddress)> = corpus
            .docs
            .iter()
            .filter(|d| d.alive && q.matches(d))
            .map(|d| (d, id2addr[&d.id]))
            .collect();
        for order in [Order::Asc, Order::Desc] {
            // u64 full column
            {
                let mut exp: Vec<(Option<u64>, DocAddress)> =
                    matching.iter().map(|(d, a)| (Some(d.num), *a)).collect();
                exp.sort_by(|a, b| cmp_opt(&a.0, &b.0, order).then(a.1.cmp(&b.1)));
                check_pages(
                    &format!("num {order:?} q={q:?}"),
                    &exp,
                    |k, o| {
                        searcher
                            .search(
                                &*query,
                                &TopDocs::with_limit(k)
                                    .and_offset(o)
                                    .order_by_fast_field::<u64>("num", order),
                            )
                            .unwrap()
                    },
                    &mut failures,
                );
            }
            // optional column
            {
                let mut exp: Vec<(Option<u64>, DocAddress)> =
                    matching.iter().map(|(d, a)| (d.opt, *a)).collect();
                exp.sort_by(|a, b| cmp_opt(&a.0, &b.0, order).then(a.1.cmp(&b.1)));
                check_pages(
                    &format!("opt {order:?} q={q:?}"),
                    &exp,
                    |k, o| {
                        searcher
                            .search(
                                &*query,
                                &TopDocs::with_limit(k)
                                    .and_offset(o)
                                    .order_by_u64_field("opt", order),
                            )
                            .unwrap()
                    },
                    &mut failures,
                );
            }
            // string column
            {
                let mut exp: Vec<(Option<String>, DocAddress)> =
                    matching.iter().map(|(d, a)| (d.tag.clone(), *a)).collect();
                exp.sort_by(|a, b| cmp_opt(&a.0, &b.0, order).then(a.1.cmp(&b.1)));
                check_pages(
                    &format!("tag {order:?} q={q:?}"),
                    &exp,
                    |k, o| {
                        searcher
                            .search(
                                &*query,
                                &TopDocs::with_limit(k)
                                    .and_offset(o)
                                    .order_by_string_fast_field("tag", order),
                            )
                            .unwrap()
                    },
                    &mut failures,
                );
            }
            // lexicographic (tag, num)
            for order2 in [Order::Asc, Order::Desc] {
                let mut exp: Vec<((Option<String>, Option<u64>), DocAddress)> = matching
                    .iter()
                    .map(|(d, a)| ((d.tag.clone(), Some(d.num)), *a))
                    .collect();
                exp.sort_by(|a, b| {
                    cmp_opt(&a.0 .0, &b.0 .0, order)
                        .then(cmp_opt(&a.0 .1, &b.0 .1, order2))
                        .then(a.1.cmp(&b.1))
                });
                check_pages(
                    &format!("(tag {order:?}, num {order2:?}) q={q:?}"),
                    &exp,
                    |k, o| {
                        searcher
                            .search(
                                &*query,
                                &TopDocs::with_limit(k).and_offset(o).order_by((
                                    (
                                        tantivy::collector::sort_key::SortByString::for_field("tag"),
                                        order,
                                    ),
                                    (
                                        tantivy::collector::sort_key::SortByStaticFastValue::<u64>::for_field(
                                            "num",
                                        ),
                                        order2,
                                    ),
                                )),
                            )
                            .unwrap()
                    },
                    &mut failures,
                );
            }
        }
        // tweak score: key = num (as f32) + tiny function of score sign; massive ties
        {
            let mut exp: Vec<(u64, DocAddress)> = matching.iter().map(|(d, a)| (d.num % 3, *a)).collect();
            exp.sort_by(|a, b| b.0.cmp(&a.0).then(a.1.cmp(&b.1)));
            check_pages(
                &format!("tweak num%3 q={q:?}"),
                &exp,
                |k, o| {
                    searcher
                        .search(
                            &*query,
                            &TopDocs::with_limit(k).and_offset(o).tweak_score(
                                move |segment_reader: &SegmentReader| {
                                    let col = segment_reader.fast_fields().u64("num").unwrap();
                                    move |doc: DocId, _score: Score| col.first(doc).unwrap() % 3
                                },
                            ),
                        )
                        .unwrap()
                },
                &mut failures,
            );
        }
        // score order with offsets: compare to K=everything
        {
            let all = searcher
                .search(&*query, &TopDocs::with_limit(1_000_000).order_by_score())
                .unwrap();
            if all.len() != matching.len() {
                failures.push(format!("score all: {} vs {} q={q:?}", all.len(), matching.len()));
            }
            check_pages(
                &format!("score q={q:?}"),
                &all,
                |k, o| {
                    searcher
                        .search(&*query, &TopDocs::with_limit(k).and_offset(o).order_by_score())
                        .unwrap()
                },
                &mut failures,
            );
        }
        if failures.len() > 10 {
            break;
        }
    }
    assert!(failures.is_empty(), "{} failures:\n{}", failures.len(), failures.join("\n"));
}

#[test]
fn sort_single_segment() {
    run(
        CorpusSpec {
            seed: 21,
            num_docs: 200,
            commit_every: vec![],
            delete_ratio: 0.0,
            merge: false,
            long_docs: false,
        },
        1,
    );
}

#[test]
fn sort_multi_segment_deletes() {
    run(
        CorpusSpec {
            seed: 22,
            num_docs: 300,
            commit_every: vec![1, 50, 120, 121, 250],
            delete_ratio: 0.15,
            merge: false,
            long_docs: false,
        },
        1,
    );
}

#[test]
fn sort_multi_segment_threads() {
    run(
        CorpusSpec {
            seed: 23,
            num_docs: 400,
            commit_every: vec![40, 80, 120, 160, 200, 240, 280, 320],
            delete_ratio: 0.1,
            merge: false,
            long_docs: false,
        },
        4,
    );
}
