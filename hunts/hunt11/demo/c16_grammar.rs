//! C16 - grammar level: strict vs lenient agreement, meaning-preserving white space, totality.
//! Every test in this file FAILS on the unmodified code.

use tantivy::query::QueryParser;
use tantivy::query_grammar::{parse_query, parse_query_lenient};
use tantivy::schema::*;
use tantivy::Index;

fn strict(q: &str) -> Option<String> {
    parse_query(q).ok().map(|ast| format!("{ast:?}"))
}

/// "the lenient parser [...] agrees with the strict parser, reporting no error, whenever the
/// strict parser succeeds"
#[track_caller]
fn assert_lenient_agrees(q: &str) {
    let s = strict(q).unwrap_or_else(|| panic!("strict parser rejects {q:?}"));
    let (l, errs) = parse_query_lenient(q);
    let l = format!("{l:?}");
    assert!(
        s == l && errs.is_empty(),
        "query {q:?}: strict = {s}, lenient = {l}, lenient errors = {errs:?}"
    );
}

// G1: NOT followed by a white space other than U+0020
#[test]
fn g1_lenient_not_followed_by_tab_or_newline() {
    assert_lenient_agrees("NOT a"); // control
    assert_eq!(strict("NOT\ta").as_deref(), Some("(-a)"));
    assert_lenient_agrees("NOT\ta");
}
#[test]
fn g1b_lenient_not_followed_by_newline() {
    assert_lenient_agrees("b NOT\na");
}

// G2: white space before the closing bracket of a range
#[test]
fn g2_lenient_space_before_closing_bracket() {
    assert_lenient_agrees("f:[1 TO 5]"); // control
    assert_lenient_agrees("f:[ 1 TO 5]"); // control: space after the opening bracket is fine
    assert_eq!(strict("f:[1 TO 5 ]").as_deref(), Some("\"f\":[\"1\" TO \"5\"]"));
    assert_lenient_agrees("f:[1 TO 5 ]");
}
#[test]
fn g2b_lenient_space_before_closing_brace() {
    assert_lenient_agrees("f:{1 TO 5 }");
}

// G3: escape sequences in range bounds are interpreted by the lenient parser only
#[test]
fn g3_escape_in_range_bound() {
    assert_lenient_agrees("f:[a\\-b TO c]");
}
#[test]
fn g3b_escape_in_elastic_range_bound() {
    assert_lenient_agrees("f:>=a\\-b");
}

// G4: leaves that are not separated by white space: accepted by the strict parser, an error for
// the lenient one.
#[test]
fn g4_adjacent_leaves() {
    assert_eq!(strict("a \"b\"\"c\"").as_deref(), Some("(*a *\"b\" *\"c\")"));
    assert_lenient_agrees("a \"b\"\"c\"");
}

// G5: AND / OR followed by a white space other than U+0020: the strict parser rejects the query,
// the lenient parser silently searches for the words "AND" / "OR".
#[test]
fn g5_strict_operator_followed_by_tab_or_newline() {
    assert_eq!(strict("a AND b").as_deref(), Some("(+a +b)"));
    assert_eq!(strict("a  AND  b").as_deref(), Some("(+a +b)")); // any amount of U+0020 is fine
    assert_eq!(strict("a\tAND b").as_deref(), Some("(+a +b)")); // tab before is fine
    assert_eq!(strict("a AND\tb").as_deref(), Some("(+a +b)"), "a AND<TAB>b");
}
#[test]
fn g5b_strict_or_followed_by_newline() {
    assert_eq!(strict("a OR\nb").as_deref(), Some("(?a ?b)"), "a OR<LF>b");
}
#[test]
fn g5c_lenient_operator_followed_by_newline_is_a_silent_term() {
    let (ast, errs) = parse_query_lenient("a AND\nb");
    let ast = format!("{ast:?}");
    assert!(
        ast == "(+a +b)" || !errs.is_empty(),
        "lenient `a AND<LF>b` = {ast} with no error: AND is searched as a word"
    );
}

// G6: tab / newline before the colon (or between two clauses) ends up inside the field name
#[test]
fn g6_tab_before_colon_is_part_of_the_field_name() {
    assert_eq!(strict("title :a").as_deref(), Some("\"title\":a")); // control, U+0020
    assert_eq!(strict("title\t:a").as_deref(), Some("\"title\":a"), "title<TAB>:a");
}
#[test]
fn g6b_newline_between_clauses_is_part_of_the_field_name() {
    assert_eq!(strict("a title:b").as_deref(), Some("(*a *\"title\":b)")); // control
    assert_eq!(strict("a\ntitle:b").as_deref(), Some("(*a *\"title\":b)"), "a<LF>title:b");
}

// G7: white space before the closing bracket of a set
#[test]
fn g7_strict_space_before_closing_bracket_of_set() {
    assert_eq!(strict("f: IN [ a b]").as_deref(), Some("\"f\": IN [\"a\" \"b\"]")); // control
    assert_eq!(strict("f: IN [a b ]").as_deref(), Some("\"f\": IN [\"a\" \"b\"]"), "IN [a b ]");
}

// G8: totality: an occurrence marker followed by white space and `*` panics the strict parser
#[test]
fn g8_strict_parser_panics() {
    let mut sb = Schema::builder();
    let title = sb.add_text_field("title", TEXT);
    let index = Index::create_in_ram(sb.build());
    let qp = QueryParser::for_index(&index, vec![title]);
    for q in ["+ *", "- *", "a - *", "title:a +\t*"] {
        let res = std::panic::catch_unwind(std::panic::AssertUnwindSafe(|| {
            qp.parse_query(q).map(|_| ())
        }));
        assert!(res.is_ok(), "QueryParser::parse_query({q:?}) panicked");
    }
}
