//! C16 - conformance of the query parser with its documented grammar:
//! every test prints a well-formed query, parses it with `QueryParser` and compares the matched
//! documents with what the documented grammar prescribes.
//!
//! Every test in this file FAILS on the unmodified code.

use tantivy::collector::DocSetCollector;
use tantivy::query::QueryParser;
use tantivy::schema::*;
use tantivy::{Index, IndexWriter, TantivyDocument};

struct Fx {
    index: Index,
    id: Field,
    title: Field,
    js: Field,
    js_nopos: Field,
}

/// doc ids and titles:
/// 0:"a" 1:"b" 2:"c" 3:"a b" 4:"a c" 5:"b c" 6:"a b c" 7:"d"
/// 8:"big bad wolf" 9:"big wolf" 10:"wolf big" 11:"big bad wo"
/// The json fields `js` / `js_nopos` hold {"t": <title>, "n": <id>, "fl": <id>.5, "name": "Wolf"}.
fn fx() -> Fx {
    let mut sb = Schema::builder();
    let id = sb.add_u64_field("id", INDEXED | STORED | FAST);
    let title = sb.add_text_field("title", TEXT);
    let js = sb.add_json_field("js", TEXT);
    let js_nopos = sb.add_json_field(
        "js_nopos",
        JsonObjectOptions::default().set_indexing_options(
            TextFieldIndexing::default()
                .set_tokenizer("default")
                .set_index_option(IndexRecordOption::WithFreqs),
        ),
    );
    let index = Index::create_in_ram(sb.build());
    let mut w: IndexWriter = index.writer_with_num_threads(1, 20_000_000).unwrap();
    let titles = [
        "a", "b", "c", "a b", "a c", "b c", "a b c", "d", "big bad wolf", "big wolf", "wolf big",
        "big bad wo",
    ];
    for (n, t) in titles.iter().enumerate() {
        let v = serde_json::json!({"t": t, "n": n, "fl": n as f64 + 0.5, "name": "Wolf"});
        let mut doc = TantivyDocument::default();
        doc.add_u64(id, n as u64);
        doc.add_text(title, t);
        for f in [js, js_nopos] {
            doc.add_object(
                f,
                v.as_object()
                    .unwrap()
                    .clone()
                    .into_iter()
                    .map(|(k, v)| (k, OwnedValue::from(v)))
                    .collect(),
            );
        }
        w.add_document(doc).unwrap();
    }
    w.commit().unwrap();
    Fx { index, id, title, js, js_nopos }
}

fn ids(fx: &Fx, query: &dyn tantivy::query::Query) -> Result<Vec<u64>, String> {
    let searcher = fx.index.reader().unwrap().searcher();
    let docs = searcher
        .search(query, &DocSetCollector)
        .map_err(|e| format!("search failed: {e:?}"))?;
    let mut ids: Vec<u64> = docs
        .into_iter()
        .map(|a| {
            let d: TantivyDocument = searcher.doc(a).unwrap();
            d.get_first(fx.id).unwrap().as_u64().unwrap()
        })
        .collect();
    ids.sort();
    Ok(ids)
}

/// strict parse + search
fn strict(fx: &Fx, qp: &QueryParser, q: &str) -> Result<Vec<u64>, String> {
    let query = qp.parse_query(q).map_err(|e| format!("parse error: {e:?}"))?;
    ids(fx, &*query)
}

fn default_parser(fx: &Fx) -> QueryParser {
    QueryParser::for_index(&fx.index, vec![fx.title])
}

// ---------------------------------------------------------------------------------------------
// D1: the NOT operator combined with AND yields a query that matches nothing.
// ---------------------------------------------------------------------------------------------
#[test]
fn d1_and_not_matches_nothing() {
    let fx = fx();
    let qp = default_parser(&fx);
    // the `-` marker form is right ...
    assert_eq!(strict(&fx, &qp, "a AND -b"), Ok(vec![0, 4]));
    assert_eq!(strict(&fx, &qp, "+a -b"), Ok(vec![0, 4]));
    // ... the documented NOT operator is not: docs containing a and not b are 0 and 4.
    assert_eq!(strict(&fx, &qp, "a AND NOT b"), Ok(vec![0, 4]), "a AND NOT b");
    assert_eq!(strict(&fx, &qp, "NOT b AND a"), Ok(vec![0, 4]), "NOT b AND a");
    assert_eq!(strict(&fx, &qp, "a AND (NOT b)"), Ok(vec![0, 4]), "a AND (NOT b)");
    assert_eq!(strict(&fx, &qp, "a AND NOT (b OR c)"), Ok(vec![0]), "a AND NOT (b OR c)");
}

// ---------------------------------------------------------------------------------------------
// D2: `x OR NOT y` / `x OR -y` silently drop the negated operand.
// ---------------------------------------------------------------------------------------------
#[test]
fn d2_or_not_drops_the_negated_operand() {
    let fx = fx();
    let qp = default_parser(&fx);
    // a OR (NOT b): every doc that contains a, or does not contain b: all but 1 ("b"), 5 ("b c")
    let expected = vec![0, 2, 3, 4, 6, 7, 8, 9, 10, 11];
    assert_eq!(strict(&fx, &qp, "a OR NOT b"), Ok(expected.clone()), "a OR NOT b");
    assert_eq!(strict(&fx, &qp, "a OR -b"), Ok(expected.clone()), "a OR -b");
    assert_eq!(strict(&fx, &qp, "NOT b OR a"), Ok(expected), "NOT b OR a");
}

// ---------------------------------------------------------------------------------------------
// D3: conjunction-by-default: explicit AND / OR next to a juxtaposed term become optional.
// ---------------------------------------------------------------------------------------------
#[test]
fn d3_conjunction_by_default_mixed_with_operators() {
    let fx = fx();
    let mut qp = default_parser(&fx);
    qp.set_conjunction_by_default();
    assert_eq!(strict(&fx, &qp, "a b"), Ok(vec![3, 6]));
    // juxtaposition means AND: `a AND b c` = a AND b AND c  -> doc 6 only.
    let got = strict(&fx, &qp, "a AND b c").unwrap();
    assert!(
        !got.contains(&2),
        "`a AND b c` (conjunction by default) matches doc 2 = \"c\", which has neither a nor b: \
         {got:?}"
    );
    // `a OR b c`: whether read as (a OR b) AND c or a OR (b AND c), doc 2 = "c" cannot match.
    let got = strict(&fx, &qp, "a OR b c").unwrap();
    assert!(!got.contains(&2), "`a OR b c` matches doc 2 = \"c\": {got:?}");
    // `a b OR c`: whether (a AND b) OR c or a AND (b OR c), doc 0 = "a" cannot match.
    let got = strict(&fx, &qp, "a b OR c").unwrap();
    assert!(!got.contains(&0), "`a b OR c` matches doc 0 = \"a\": {got:?}");
}

// ---------------------------------------------------------------------------------------------
// D4: slop and prefix of a quoted phrase are silently ignored on a JSON field.
// ---------------------------------------------------------------------------------------------
#[test]
fn d4_json_phrase_slop_and_prefix_are_ignored() {
    let fx = fx();
    let qp = default_parser(&fx);
    // reference: text field
    assert_eq!(strict(&fx, &qp, "title:\"big wolf\"~1"), Ok(vec![8, 9]));
    assert_eq!(strict(&fx, &qp, "title:\"big bad wo\"*"), Ok(vec![8, 11]));
    // same text in the json field
    assert_eq!(strict(&fx, &qp, "js.t:\"big wolf\"~1"), Ok(vec![8, 9]), "slop on json");
    assert_eq!(strict(&fx, &qp, "js.t:\"big bad wo\"*"), Ok(vec![8, 11]), "prefix on json");
}

// ---------------------------------------------------------------------------------------------
// D5: `field:*` (exists) is parsed by the grammar and always rejected by the query parser.
// ---------------------------------------------------------------------------------------------
#[test]
fn d5_exists_is_always_rejected() {
    let fx = fx();
    let qp = default_parser(&fx);
    let all: Vec<u64> = (0..12).collect();
    assert_eq!(strict(&fx, &qp, "title:*"), Ok(all.clone()), "title:*");
    assert_eq!(strict(&fx, &qp, "js.t:*"), Ok(all), "js.t:*");
}

// ---------------------------------------------------------------------------------------------
// D6: IN set on a JSON path: the elements are not normalised like the literal is.
// ---------------------------------------------------------------------------------------------
#[test]
fn d6_json_set_elements_bypass_the_tokenizer() {
    let fx = fx();
    let qp = default_parser(&fx);
    let all: Vec<u64> = (0..12).collect();
    // literal: "Wolf" is lower-cased by the tokenizer of the json field, all docs match
    assert_eq!(strict(&fx, &qp, "js.name:Wolf"), Ok(all.clone()));
    // text field: set elements go through the tokenizer
    assert_eq!(strict(&fx, &qp, "title: IN [A D]"), Ok(vec![0, 3, 4, 6, 7]));
    // json field: `js.name: IN [Wolf]` is documented as equivalent to `js.name:Wolf`
    assert_eq!(strict(&fx, &qp, "js.name: IN [Wolf]"), Ok(all), "js.name: IN [Wolf]");
}

// ---------------------------------------------------------------------------------------------
// D7: typed JSON literal: a fractional number / a date is rejected when the JSON field has no
// positions, although the typed term is all that is needed.
// ---------------------------------------------------------------------------------------------
#[test]
fn d7_json_float_literal_rejected_without_positions() {
    let fx = fx();
    let qp = default_parser(&fx);
    assert_eq!(strict(&fx, &qp, "js.fl:3.5"), Ok(vec![3]));
    assert_eq!(strict(&fx, &qp, "js_nopos.n:3"), Ok(vec![3]));
    assert_eq!(strict(&fx, &qp, "js_nopos.fl:3.5"), Ok(vec![3]), "js_nopos.fl:3.5");
}

// ---------------------------------------------------------------------------------------------
// D8: set_field_fuzzy on a JSON field: a literal that looks like a number / bool / date builds a
// query that cannot be executed.
// ---------------------------------------------------------------------------------------------
#[test]
fn d8_fuzzy_json_field_with_typed_literal() {
    let fx = fx();
    let mut qp = default_parser(&fx);
    qp.set_field_fuzzy(fx.js, false, 1, true);
    assert_eq!(strict(&fx, &qp, "js.t:wolg"), Ok(vec![8, 9, 10]));
    assert_eq!(strict(&fx, &qp, "js.n:3"), Ok(vec![3]), "js.n:3 on a fuzzy json field");
}

// ---------------------------------------------------------------------------------------------
// D9: field scoping through a default JSON field works for literals only.
// ---------------------------------------------------------------------------------------------
#[test]
fn d9_default_json_field_scoping_only_for_literals() {
    let fx = fx();
    let qp = QueryParser::for_index(&fx.index, vec![fx.title, fx.js]);
    // `n` is not a field of the schema: it is resolved as a path of the default json field
    assert_eq!(strict(&fx, &qp, "n:3"), Ok(vec![3]));
    assert_eq!(strict(&fx, &qp, "js.n: IN [3 4]"), Ok(vec![3, 4]));
    // the same scoping rule is not applied to sets (nor ranges)
    assert_eq!(strict(&fx, &qp, "n: IN [3 4]"), Ok(vec![3, 4]), "n: IN [3 4]");
    let _ = fx.js_nopos;
}
