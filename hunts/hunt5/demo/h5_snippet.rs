// C19: snippet invariants.
use tantivy::collector::Count;
use tantivy::query::QueryParser;
use tantivy::schema::{IndexRecordOption, Schema, TextFieldIndexing, TextOptions, STORED};
use tantivy::snippet::SnippetGenerator;
use tantivy::tokenizer::NgramTokenizer;
use tantivy::{doc, Index, IndexWriter};

fn index_with_tokenizer(tokenizer: &str, text: &str) -> (Index, tantivy::schema::Field) {
    let mut sb = Schema::builder();
    let opts = TextOptions::default()
        .set_indexing_options(
            TextFieldIndexing::default()
                .set_tokenizer(tokenizer)
                .set_index_option(IndexRecordOption::WithFreqsAndPositions),
        )
        | STORED;
    let body = sb.add_text_field("body", opts);
    let index = Index::create_in_ram(sb.build());
    index
        .tokenizers()
        .register("ngram3", NgramTokenizer::all_ngrams(3, 3).unwrap());
    let mut w: IndexWriter = index.writer_with_num_threads(1, 20_000_000).unwrap();
    w.add_document(doc!(body => text)).unwrap();
    w.commit().unwrap();
    (index, body)
}

// "each [highlighted range] covers text whose analysis yields a query term"
// The built-in "whitespace" tokenizer is case sensitive: the query term `hello` does not match
// the token `HELLO`, yet the snippet highlights it (FragmentCandidate::try_add_token lower-cases
// the token text before the lookup, whatever the field's analyzer does).
#[test]
fn highlight_of_a_token_that_is_not_a_query_term() {
    let (index, body) = index_with_tokenizer("whitespace", "HELLO big hello");
    let searcher = index.reader().unwrap().searcher();
    let qp = QueryParser::for_index(&index, vec![body]);
    // sanity: the field is case sensitive
    assert_eq!(searcher.search(&qp.parse_query("HELLO").unwrap(), &Count).unwrap(), 1);
    assert_eq!(searcher.search(&qp.parse_query("Hello").unwrap(), &Count).unwrap(), 0);
    let query = qp.parse_query("hello").unwrap();
    let generator = SnippetGenerator::create(&searcher, &*query, body).unwrap();
    let snippet = generator.snippet("HELLO big hello");
    println!("{:?} {:?} {}", snippet.fragment(), snippet.highlighted(), snippet.to_html());
    for r in snippet.highlighted() {
        assert_eq!(&snippet.fragment()[r.clone()], "hello", "highlighted text is not the query term");
    }
}

// ... and the converse: the document matches `HELLO`, but nothing is highlighted at all.
#[test]
fn no_highlight_for_a_matching_upper_case_term() {
    let (index, body) = index_with_tokenizer("whitespace", "HELLO big hello");
    let searcher = index.reader().unwrap().searcher();
    let qp = QueryParser::for_index(&index, vec![body]);
    let query = qp.parse_query("HELLO").unwrap();
    assert_eq!(searcher.search(&query, &Count).unwrap(), 1);
    let generator = SnippetGenerator::create(&searcher, &*query, body).unwrap();
    let snippet = generator.snippet("HELLO big hello");
    println!("{:?} {:?} {}", snippet.fragment(), snippet.highlighted(), snippet.to_html());
    assert_eq!(snippet.to_html(), "<b>HELLO</b> big hello");
}

// "the fragment is a substring of the text no longer than the configured number of characters"
#[test]
fn fragment_longer_than_max_num_chars() {
    let text = "a Donaudampfschifffahrtsgesellschaft b";
    let (index, body) = index_with_tokenizer("default", text);
    let searcher = index.reader().unwrap().searcher();
    let qp = QueryParser::for_index(&index, vec![body]);
    let query = qp.parse_query("donaudampfschifffahrtsgesellschaft").unwrap();
    let mut generator = SnippetGenerator::create(&searcher, &*query, body).unwrap();
    generator.set_max_num_chars(10);
    let snippet = generator.snippet(text);
    println!("{:?} ({} chars)", snippet.fragment(), snippet.fragment().chars().count());
    assert!(snippet.fragment().chars().count() <= 10);
}

// "highlighted ranges are sorted, disjoint, inside the fragment"
#[test]
fn highlighted_ranges_overlap_with_ngram_tokenizer() {
    let text = "abcdef";
    let (index, body) = index_with_tokenizer("ngram3", text);
    let searcher = index.reader().unwrap().searcher();
    let qp = QueryParser::for_index(&index, vec![body]);
    let query = qp.parse_query("abcd").unwrap(); // -> abc, bcd
    let generator = SnippetGenerator::create(&searcher, &*query, body).unwrap();
    let snippet = generator.snippet(text);
    let hl = snippet.highlighted();
    println!("{:?} {:?}", snippet.fragment(), hl);
    // a user rendering the highlights himself walks the ranges in order:
    let mut cursor = 0;
    for r in hl {
        assert!(r.start >= cursor, "ranges {hl:?} overlap: &fragment[{cursor}..{}] panics", r.start);
        cursor = r.end;
    }
}
