// Fuzz the query grammar + QueryParser for totality and strict/lenient agreement.
use std::panic::{catch_unwind, AssertUnwindSafe};

use rand::prelude::*;
use tantivy::query::QueryParser;
use tantivy::schema::*;
use tantivy::Index;

const FRAGS: &[&str] = &[
    "a", "b", "abc", "title", "title:", "body:", "num:", "date:", "ip:", "bytes:", "flag:",
    "facet:", "json:", "json.a:", "json.a.b:", "fnum:", "inum:", "\"", "'", "(", ")", "[", "]",
    "{", "}", " TO ", "TO", "*", "~", "~2", "~99999999999", "^", "^2", "^2.5", "^-1", "^1e400",
    "+", "-", " AND ", " OR ", " NOT ", "AND", "OR", "NOT", " IN ", "IN", "IN [", "\\", ":", ">",
    "<", ">=", "<=", "/", "/a.*/", " ", "  ", "\t", "\n", "\r", "\u{3000}", "\u{a0}", "\u{2028}",
    "\u{85}", "é", "日本", "😀", "\u{301}", "0", "1", "-1", "1.5", "-1.5", ".", "1e3", "NaN",
    "inf", "2020-01-01T00:00:00Z", "127.0.0.1", "::1", "true", "false", "/a/b", "aGVsbG8=", ",",
    "!", "`", "|", "&", "\0", "title:(", "a:b:c", "\\:", "\\ ", "\\(", "\\\"", "-\"", "+(", "*:",
    ":*", "*:*", "title:*", "json.a:*", "18446744073709551615", "-9223372036854775808",
    "9223372036854775808", "1.7976931348623157e309",
];

fn schema() -> (Schema, Vec<Field>) {
    let mut sb = Schema::builder();
    let title = sb.add_text_field("title", TEXT | STORED);
    let body = sb.add_text_field("body", TEXT);
    sb.add_u64_field("num", INDEXED | FAST);
    sb.add_i64_field("inum", INDEXED | FAST);
    sb.add_f64_field("fnum", INDEXED | FAST);
    sb.add_date_field("date", INDEXED | FAST);
    sb.add_ip_addr_field("ip", INDEXED | FAST);
    sb.add_bytes_field("bytes", INDEXED | FAST);
    sb.add_bool_field("flag", INDEXED | FAST);
    sb.add_facet_field("facet", FacetOptions::default());
    sb.add_json_field("json", TEXT | FAST);
    (sb.build(), vec![title, body])
}

fn gen(rng: &mut StdRng) -> String {
    loop {
        let n = rng.random_range(0..12);
        let mut s = String::new();
        for _ in 0..n {
            s.push_str(FRAGS[rng.random_range(0..FRAGS.len())]);
        }
        // known hang (see h5_qp_hang.rs): IN-set + non-ASCII white space
        if s.contains("IN") && s.chars().any(|c| c.is_whitespace() && !c.is_ascii()) {
            continue;
        }
        return s;
    }
}

#[test]
fn grammar_total_and_lenient_agrees() {
    let mut rng = StdRng::seed_from_u64(0x5eed);
    let mut failures = Vec::new();
    for _ in 0..60_000 {
        let q = gen(&mut rng);
        if std::env::var("H5_TRACE").is_ok() {
            std::fs::write("/tmp/wt/hunt5-target/last_query_grammar.txt", format!("{q:?}")).unwrap();
        }
        let strict = catch_unwind(AssertUnwindSafe(|| tantivy::query_grammar::parse_query(&q)));
        let lenient =
            catch_unwind(AssertUnwindSafe(|| tantivy::query_grammar::parse_query_lenient(&q)));
        match (&strict, &lenient) {
            (Err(_), _) => failures.push(format!("STRICT PANIC {q:?}")),
            (_, Err(_)) => failures.push(format!("LENIENT PANIC {q:?}")),
            (Ok(Ok(sast)), Ok((last, errs))) => {
                if !errs.is_empty() {
                    failures.push(format!(
                        "LENIENT ERR ON STRICT OK {q:?} strict={sast:?} errs={errs:?}"
                    ));
                } else if format!("{sast:?}") != format!("{last:?}") {
                    failures.push(format!("AST DIFF {q:?}\n   strict={sast:?}\n  lenient={last:?}"));
                }
            }
            _ => {}
        }
        if failures.len() > 60 {
            break;
        }
    }
    for f in &failures {
        println!("{f}");
    }
    assert!(failures.is_empty(), "{} failures", failures.len());
}

#[test]
fn query_parser_total_and_lenient_agrees() {
    let (schema, defaults) = schema();
    let index = Index::create_in_ram(schema);
    let mut qp = QueryParser::for_index(&index, defaults);
    qp.allow_regexes();
    let mut rng = StdRng::seed_from_u64(0xbeef);
    let mut failures = Vec::new();
    for i in 0..40_000 {
        if i == 20_000 {
            qp.set_conjunction_by_default();
        }
        let q = gen(&mut rng);
        if std::env::var("H5_TRACE").is_ok() {
            std::fs::write("/tmp/wt/hunt5-target/last_query_qp.txt", format!("{q:?}")).unwrap();
        }
        let strict = catch_unwind(AssertUnwindSafe(|| qp.parse_query(&q)));
        let lenient = catch_unwind(AssertUnwindSafe(|| qp.parse_query_lenient(&q)));
        match (&strict, &lenient) {
            (Err(_), _) => failures.push(format!("STRICT PANIC {q:?}")),
            (_, Err(_)) => failures.push(format!("LENIENT PANIC {q:?}")),
            (Ok(Ok(sq)), Ok((lq, errs))) => {
                if !errs.is_empty() {
                    failures.push(format!("LENIENT ERR ON STRICT OK {q:?} errs={errs:?}"));
                } else if format!("{sq:?}") != format!("{lq:?}") {
                    failures.push(format!("QUERY DIFF {q:?}\n   strict={sq:?}\n  lenient={lq:?}"));
                }
            }
            _ => {}
        }
        if failures.len() > 60 {
            break;
        }
    }
    for f in &failures {
        println!("{f}");
    }
    assert!(failures.is_empty(), "{} failures", failures.len());
}
