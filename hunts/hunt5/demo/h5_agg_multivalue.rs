// C14: bucket doc_count on multi-valued fields, and sub-aggregations below such buckets.
use serde_json::{json, Value};
use tantivy::aggregation::agg_req::Aggregations;
use tantivy::aggregation::AggregationCollector;
use tantivy::query::AllQuery;
use tantivy::schema::{Schema, FAST};
use tantivy::{Index, IndexWriter, TantivyDocument};

fn run(index: &Index, req: &Value) -> Value {
    let agg: Aggregations = serde_json::from_value(req.clone()).unwrap();
    let collector = AggregationCollector::from_aggs(agg, Default::default());
    let searcher = index.reader().unwrap().searcher();
    let res = searcher.search(&AllQuery, &collector).unwrap();
    serde_json::to_value(&res).unwrap()
}

/// docs: (values of the multi-valued field `vals`, value of `price`)
fn build(docs: &[(&[u64], u64)]) -> Index {
    let mut sb = Schema::builder();
    let vals = sb.add_u64_field("vals", FAST);
    let price = sb.add_u64_field("price", FAST);
    let index = Index::create_in_ram(sb.build());
    let mut w: IndexWriter = index.writer_with_num_threads(1, 20_000_000).unwrap();
    for (vs, p) in docs {
        let mut doc = TantivyDocument::default();
        for v in *vs {
            doc.add_u64(vals, *v);
        }
        doc.add_u64(price, *p);
        w.add_document(doc).unwrap();
    }
    w.commit().unwrap();
    index
}

// One single document, with two values in the same bucket.
// The terms aggregation counts it once (CHANGELOG: "deduplicate doc counts in term aggregation for
// multi-valued fields"); range and histogram count it twice: doc_count 2 for an index of 1 doc.
#[test]
fn doc_count_counts_documents_not_values() {
    let index = build(&[(&[1, 2], 10)]);
    let mut failures = vec![];
    let res = run(&index, &json!({"r": {"range": {"field": "vals", "ranges": [{"to": 100}]}}}));
    println!("range     : {res}");
    if res["r"]["buckets"][0]["doc_count"] != 1 {
        failures.push(format!("range: {res}"));
    }
    let res = run(&index, &json!({"h": {"histogram": {"field": "vals", "interval": 100}}}));
    println!("histogram : {res}");
    if res["h"]["buckets"][0]["doc_count"] != 1 {
        failures.push(format!("histogram: {res}"));
    }
    let res = run(&index, &json!({"t": {"terms": {"field": "vals"}}}));
    println!("terms     : {res}");
    assert!(failures.is_empty(), "{failures:#?}");
}

// With a sub-aggregation the document is handed twice to the sub-aggregation collector:
// its price is summed twice (release build) or the collector panics (debug assertion in
// columnar::ColumnBlockAccessor::fetch_block: "docs sorted ascending without duplicates").
#[test]
fn sub_aggregation_below_multivalued_range() {
    let index = build(&[(&[1, 2], 10), (&[3], 5)]);
    let req = json!({"r": {"range": {"field": "vals", "ranges": [{"to": 100}]},
                           "aggs": {"s": {"sum": {"field": "price"}}}}});
    let res = run(&index, &req);
    println!("{res}");
    assert_eq!(res["r"]["buckets"][0]["s"]["value"], 15.0, "{res}");
}

#[test]
fn sub_aggregation_below_multivalued_histogram() {
    let index = build(&[(&[1, 2], 10), (&[3], 5)]);
    let req = json!({"h": {"histogram": {"field": "vals", "interval": 100},
                           "aggs": {"s": {"sum": {"field": "price"}}}}});
    let res = run(&index, &req);
    println!("{res}");
    assert_eq!(res["h"]["buckets"][0]["s"]["value"], 15.0, "{res}");
}
