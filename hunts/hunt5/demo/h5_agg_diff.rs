// C14 differential: same documents, one segment vs several segments vs distributed merge
use rand::prelude::*;
use serde_json::{json, Value};
use tantivy::aggregation::agg_req::Aggregations;
use tantivy::aggregation::intermediate_agg_result::IntermediateAggregationResults;
use tantivy::aggregation::{AggregationCollector, DistributedAggregationCollector};
use tantivy::query::{AllQuery, Query, TermQuery};
use tantivy::schema::{IndexRecordOption, Schema, FAST, INDEXED, STRING};
use tantivy::{DateTime, Index, IndexWriter, TantivyDocument, Term};

#[derive(Clone, Debug)]
struct D {
    cats: Vec<String>,
    tag: String,
    num: Vec<u64>,
    inum: Option<i64>,
    fnum: Vec<f64>,
    date: Option<i64>,
}

fn schema() -> Schema {
    let mut sb = Schema::builder();
    sb.add_text_field("cat", STRING | FAST);
    sb.add_text_field("tag", STRING | FAST);
    sb.add_u64_field("num", FAST | INDEXED);
    sb.add_i64_field("inum", FAST | INDEXED);
    sb.add_f64_field("fnum", FAST | INDEXED);
    sb.add_date_field("date", FAST | INDEXED);
    sb.build()
}

fn build(segments: &[Vec<D>]) -> Index {
    let schema = schema();
    let f = |n: &str| schema.get_field(n).unwrap();
    let index = Index::create_in_ram(schema.clone());
    let mut w: IndexWriter = index.writer_with_num_threads(1, 20_000_000).unwrap();
    w.set_merge_policy(Box::new(tantivy::merge_policy::NoMergePolicy));
    for seg in segments {
        for d in seg {
            let mut doc = TantivyDocument::default();
            for c in &d.cats {
                doc.add_text(f("cat"), c);
            }
            doc.add_text(f("tag"), &d.tag);
            for n in &d.num {
                doc.add_u64(f("num"), *n);
            }
            if let Some(i) = d.inum {
                doc.add_i64(f("inum"), i);
            }
            for x in &d.fnum {
                doc.add_f64(f("fnum"), *x);
            }
            if let Some(s) = d.date {
                doc.add_date(f("date"), DateTime::from_timestamp_secs(s));
            }
            w.add_document(doc).unwrap();
        }
        if !seg.is_empty() {
            w.commit().unwrap();
        }
    }
    index
}

fn gen_doc(rng: &mut StdRng) -> D {
    let ncat = [0, 1, 1, 1, 2, 3][rng.random_range(0..6)];
    D {
        cats: (0..ncat).map(|_| format!("c{}", rng.random_range(0..6))).collect(),
        tag: if rng.random_bool(0.7) { "x".into() } else { "y".into() },
        num: (0..[0, 1, 1, 2][rng.random_range(0..4)])
            .map(|_| [0u64, 1, 5, 10, 15, 20, 99, 100][rng.random_range(0..8)])
            .collect(),
        inum: if rng.random_bool(0.8) {
            Some([-100i64, -10, -5, -1, 0, 1, 5, 10, 50][rng.random_range(0..9)])
        } else {
            None
        },
        fnum: (0..[0, 1, 1, 2][rng.random_range(0..4)])
            .map(|_| [-2.5f64, -1.0, -0.5, 0.0, 0.1, 0.3, 0.5, 1.0, 1.5, 2.0, 7.25][rng.random_range(0..11)])
            .collect(),
        date: if rng.random_bool(0.8) {
            Some(1_600_000_000 + 1800 * rng.random_range(0..10) as i64)
        } else {
            None
        },
    }
}

fn requests() -> Vec<Value> {
    let metrics = json!({
        "cnt": {"value_count": {"field": "fnum"}},
        "sum": {"sum": {"field": "inum"}},
        "min": {"min": {"field": "fnum"}},
        "max": {"max": {"field": "num"}},
        "avg": {"avg": {"field": "inum"}},
        "st": {"stats": {"field": "num"}},
        "card": {"cardinality": {"field": "cat"}},
        "cardn": {"cardinality": {"field": "num"}},
        "pct": {"percentiles": {"field": "inum", "percents": [50.0]}}
    });
    vec![
        metrics.clone(),
        json!({"t": {"terms": {"field": "cat"}, "aggs": metrics.clone()}}),
        json!({"t": {"terms": {"field": "cat", "order": {"_key": "desc"}, "size": 3}}}),
        json!({"t": {"terms": {"field": "cat", "missing": "zzz", "min_doc_count": 2}}}),
        json!({"t": {"terms": {"field": "cat", "missing": "c3"}}}),
        json!({"t": {"terms": {"field": "num", "order": {"_key": "asc"}}}}),
        json!({"t": {"terms": {"field": "num", "missing": 7}}}),
        json!({"t": {"terms": {"field": "inum", "order": {"_key": "desc"}, "size": 4}}}),
        json!({"t": {"terms": {"field": "cat", "order": {"m": "desc"}}, "aggs": {"m": {"max": {"field": "inum"}}}}}),
        json!({"t": {"terms": {"field": "cat", "order": {"m.sum": "asc"}}, "aggs": {"m": {"stats": {"field": "inum"}}}}}),
        json!({"t": {"terms": {"field": "cat", "min_doc_count": 0}}}),
        json!({"t": {"terms": {"field": "date"}}}),
        json!({"h": {"histogram": {"field": "inum", "interval": 7, "offset": 3}}}),
        json!({"h": {"histogram": {"field": "inum", "interval": 10, "min_doc_count": 1}, "aggs": metrics.clone()}}),
        json!({"h": {"histogram": {"field": "fnum", "interval": 0.5, "offset": 0.25}}}),
        json!({"h": {"histogram": {"field": "fnum", "interval": 0.1}}}),
        json!({"h": {"histogram": {"field": "num", "interval": 10, "hard_bounds": {"min": 5, "max": 50}}}}),
        json!({"h": {"histogram": {"field": "num", "interval": 10, "extended_bounds": {"min": -20, "max": 150}}}}),
        json!({"h": {"histogram": {"field": "num", "interval": 10, "extended_bounds": {"min": 0, "max": 150}, "hard_bounds": {"min": 0, "max": 120}}}}),
        json!({"h": {"histogram": {"field": "date", "interval": 3600000}}}),
        json!({"h": {"date_histogram": {"field": "date", "fixed_interval": "1h", "offset": "10m"}, "aggs": {"t": {"terms": {"field": "cat"}}}}}),
        json!({"r": {"range": {"field": "fnum", "ranges": [{"to": -1.0}, {"from": -1.0, "to": 0.5}, {"from": 0.5}]}, "aggs": metrics.clone()}}),
        json!({"r": {"range": {"field": "num", "ranges": [{"to": 10}, {"from": 10, "to": 20}, {"from": 20}], "keyed": true}}}),
        json!({"r": {"range": {"field": "inum", "ranges": [{"to": -5}, {"from": -5, "to": 5}, {"from": 5, "to": 5}, {"from": 1}]}}}),
        json!({"r": {"range": {"field": "date", "ranges": [{"to": 1600003600000000000i64}, {"from": 1600003600000000000i64}]}}}),
        json!({"f": {"filter": "tag:x", "aggs": {"t": {"terms": {"field": "cat"}}}}}),
        json!({"c": {"composite": {"sources": [{"cat": {"terms": {"field": "cat"}}}, {"n": {"histogram": {"field": "num", "interval": 10}}}], "size": 5}}}),
        json!({"c": {"composite": {"sources": [{"cat": {"terms": {"field": "cat", "missing_bucket": true}}}], "size": 4}}}),
        json!({"th": {"top_hits": {"size": 3, "sort": [{"inum": "desc"}, {"num": "asc"}], "docvalue_fields": ["inum", "num", "cat"]}}}),
        json!({"es": {"extended_stats": {"field": "fnum"}}}),
    ]
}

fn normalize(v: &mut Value) {
    match v {
        Value::Array(a) => {
            for x in a.iter_mut() {
                normalize(x);
            }
            if a.iter().all(|x| x.get("key").is_some() && x.get("doc_count").is_some()) {
                a.sort_by_key(|x| x["key"].to_string());
            }
        }
        Value::Object(o) => {
            for (_, x) in o.iter_mut() {
                normalize(x);
            }
        }
        _ => {}
    }
}

fn approx_eq_req(req: &Value, a: &Value, b: &Value) -> bool {
    if req.to_string().contains("_key") || req.to_string().contains("composite") {
        approx_eq(a, b)
    } else {
        let (mut a, mut b) = (a.clone(), b.clone());
        normalize(&mut a);
        normalize(&mut b);
        approx_eq(&a, &b)
    }
}

fn approx_eq(a: &Value, b: &Value) -> bool {
    match (a, b) {
        (Value::Number(x), Value::Number(y)) => {
            let (x, y) = (x.as_f64().unwrap(), y.as_f64().unwrap());
            (x - y).abs() <= 1e-9 * (1.0 + x.abs().max(y.abs()))
        }
        (Value::Array(x), Value::Array(y)) => {
            x.len() == y.len() && x.iter().zip(y).all(|(a, b)| approx_eq(a, b))
        }
        (Value::Object(x), Value::Object(y)) => {
            x.len() == y.len()
                && x.iter().all(|(k, v)| y.get(k).map(|w| approx_eq(v, w)).unwrap_or(false))
        }
        _ => a == b,
    }
}

fn run_final(index: &Index, q: &dyn Query, req: &Value) -> Value {
    let agg: Aggregations = serde_json::from_value(req.clone()).unwrap();
    let collector = AggregationCollector::from_aggs(agg, Default::default());
    let searcher = index.reader().unwrap().searcher();
    match std::panic::catch_unwind(std::panic::AssertUnwindSafe(|| searcher.search(q, &collector))) {
        Ok(Ok(res)) => serde_json::to_value(&res).unwrap(),
        Ok(Err(e)) => json!({ "ERROR": format!("{e:?}") }),
        Err(_) => json!({ "PANIC": true }),
    }
}

fn run_distributed(indexes: &[Index], q: &dyn Query, req: &Value, rng: &mut StdRng) -> Value {
    let agg: Aggregations = serde_json::from_value(req.clone()).unwrap();
    let mut parts: Vec<IntermediateAggregationResults> = vec![];
    for index in indexes {
        let collector = DistributedAggregationCollector::from_aggs(agg.clone(), Default::default());
        let searcher = index.reader().unwrap().searcher();
        let r = match std::panic::catch_unwind(std::panic::AssertUnwindSafe(|| searcher.search(q, &collector))) {
            Ok(Ok(r)) => r,
            Ok(Err(e)) => return json!({ "ERROR": format!("{e:?}") }),
            Err(_) => return json!({ "PANIC": true }),
        };
        let bytes = postcard::to_allocvec(&r).unwrap();
        parts.push(postcard::from_bytes(&bytes).unwrap());
    }
    parts.shuffle(rng);
    // random grouping: repeatedly merge two random parts
    while parts.len() > 1 {
        let i = rng.random_range(0..parts.len());
        let a = parts.swap_remove(i);
        let j = rng.random_range(0..parts.len());
        if let Err(e) = parts[j].merge_fruits(a) {
            return json!({ "ERROR": format!("{e:?}") });
        }
        let bytes = postcard::to_allocvec(&parts[j]).unwrap();
        parts[j] = postcard::from_bytes(&bytes).unwrap();
    }
    match parts.pop().unwrap().into_final_result(agg, Default::default()) {
        Ok(res) => serde_json::to_value(&res).unwrap(),
        Err(e) => json!({ "ERROR": format!("{e:?}") }),
    }
}

#[test]
fn partition_independence() {
    let mut rng = StdRng::seed_from_u64(14);
    let reqs = requests();
    let mut failures: Vec<String> = vec![];
    let schema = schema();
    for round in 0..40 {
        let n = rng.random_range(1..60);
        let docs: Vec<D> = (0..n).map(|_| gen_doc(&mut rng)).collect();
        let one = build(&[docs.clone()]);
        // random partition in up to 4 parts
        let k = rng.random_range(2..5);
        let mut parts: Vec<Vec<D>> = vec![vec![]; k];
        for d in &docs {
            parts[rng.random_range(0..k)].push(d.clone());
        }
        let parts: Vec<Vec<D>> = parts.into_iter().filter(|p| !p.is_empty()).collect();
        let multi = build(&parts);
        let separate: Vec<Index> = parts.iter().map(|p| build(&[p.clone()])).collect();
        let queries: Vec<(&str, Box<dyn Query>)> = vec![
            ("all", Box::new(AllQuery)),
            (
                "tag:x",
                Box::new(TermQuery::new(
                    Term::from_field_text(schema.get_field("tag").unwrap(), "x"),
                    IndexRecordOption::Basic,
                )),
            ),
        ];
        for (qname, q) in &queries {
            for req in &reqs {
                let expected = run_final(&one, q.as_ref(), req);
                if expected.get("PANIC").is_some() || expected.get("ERROR").is_some() {
                    failures.push(format!("round {round} q={qname} ONE req={req}\n  one  ={expected}"));
                    continue;
                }
                let got = run_final(&multi, q.as_ref(), req);
                if !approx_eq_req(req, &expected, &got) {
                    failures.push(format!(
                        "round {round} q={qname} SEGMENTS req={req}\n  one  ={expected}\n  multi={got}\n  parts={:?}",
                        parts.iter().map(|p| p.len()).collect::<Vec<_>>()
                    ));
                }
                let got = run_distributed(&separate, q.as_ref(), req, &mut rng);
                if !approx_eq_req(req, &expected, &got) {
                    failures.push(format!(
                        "round {round} q={qname} DISTRIBUTED req={req}\n  one  ={expected}\n  distr={got}"
                    ));
                }
            }
        }
        if failures.len() > 30 {
            break;
        }
    }
    for f in &failures {
        println!("{f}\n");
    }
    assert!(failures.is_empty(), "{} failures", failures.len());
}
