// C14: aggregation results must not depend on how documents are distributed over segments.
use serde_json::{json, Value};
use tantivy::aggregation::agg_req::Aggregations;
use tantivy::aggregation::AggregationCollector;
use tantivy::query::AllQuery;
use tantivy::schema::{Schema, FAST, INDEXED, STRING};
use tantivy::{DateTime, Index, IndexWriter, TantivyDocument};

fn run(index: &Index, req: &Value) -> Value {
    let agg: Aggregations = serde_json::from_value(req.clone()).unwrap();
    let collector = AggregationCollector::from_aggs(agg, Default::default());
    let searcher = index.reader().unwrap().searcher();
    match searcher.search(&AllQuery, &collector) {
        Ok(res) => serde_json::to_value(&res).unwrap(),
        Err(e) => json!({ "ERROR": format!("{e:?}") }),
    }
}

/// Builds an index with one segment per element of `segments`. Each doc is (id, optional date secs).
fn build(segments: &[Vec<(&str, Option<i64>)>]) -> Index {
    let mut sb = Schema::builder();
    let id = sb.add_text_field("id", STRING | FAST);
    let date = sb.add_date_field("date", INDEXED | FAST);
    let index = Index::create_in_ram(sb.build());
    let mut w: IndexWriter = index.writer_with_num_threads(1, 20_000_000).unwrap();
    w.set_merge_policy(Box::new(tantivy::merge_policy::NoMergePolicy));
    for seg in segments {
        for (i, d) in seg {
            let mut doc = TantivyDocument::default();
            doc.add_text(id, i);
            if let Some(secs) = d {
                doc.add_date(date, DateTime::from_timestamp_secs(*secs));
            }
            w.add_document(doc).unwrap();
        }
        w.commit().unwrap();
    }
    index
}

#[test]
fn date_histogram_does_not_depend_on_segment_partition() {
    let docs = vec![
        ("a", Some(1_600_000_000)),
        ("b", Some(1_600_003_600)),
        ("c", None),
        ("d", None),
    ];
    let req = json!({
        "h": { "date_histogram": { "field": "date", "fixed_interval": "1h" } }
    });
    let one = build(&[docs.clone()]);
    assert_eq!(one.searchable_segments().unwrap().len(), 1);
    let expected = run(&one, &req);
    println!("single segment : {expected}");

    // same documents, the two documents without a date live in their own (last) segment
    let two = build(&[docs[..2].to_vec(), docs[2..].to_vec()]);
    assert_eq!(two.searchable_segments().unwrap().len(), 2);
    let got = run(&two, &req);
    println!("two segments   : {got}");
    // other order of the same partition
    let two_rev = build(&[docs[2..].to_vec(), docs[..2].to_vec()]);
    let got_rev = run(&two_rev, &req);
    println!("two segments'  : {got_rev}");
    assert_eq!(expected, got_rev, "partition [no-date docs | dated docs]");
    assert_eq!(expected, got, "partition [dated docs | no-date docs]");
}

fn build_json(segments: &[Vec<Value>]) -> Index {
    let mut sb = Schema::builder();
    let js = sb.add_json_field("attr", FAST | STRING);
    let index = Index::create_in_ram(sb.build());
    let mut w: IndexWriter = index.writer_with_num_threads(1, 20_000_000).unwrap();
    w.set_merge_policy(Box::new(tantivy::merge_policy::NoMergePolicy));
    for seg in segments {
        for d in seg {
            let mut doc = TantivyDocument::default();
            let mut obj: std::collections::BTreeMap<String, tantivy::schema::OwnedValue> =
                serde_json::from_value(d.clone()).unwrap();
            if let Some(tantivy::schema::OwnedValue::I64(secs)) = obj.get("date").cloned() {
                obj.insert(
                    "date".to_string(),
                    tantivy::schema::OwnedValue::Date(DateTime::from_timestamp_secs(secs)),
                );
            }
            if let Some(tantivy::schema::OwnedValue::U64(secs)) = obj.get("date").cloned() {
                obj.insert(
                    "date".to_string(),
                    tantivy::schema::OwnedValue::Date(DateTime::from_timestamp_secs(secs as i64)),
                );
            }
            doc.add_object(js, obj);
            w.add_document(doc).unwrap();
        }
        w.commit().unwrap();
    }
    index
}

#[test]
fn json_date_histogram_does_not_depend_on_segment_partition() {
    let docs = vec![
        json!({"id": "a", "date": 1600000000}),
        json!({"id": "b", "date": 1600003600}),
        json!({"id": "c"}),
        json!({"id": "d"}),
    ];
    let mut failures = vec![];
    for req in [
        json!({ "h": { "date_histogram": { "field": "attr.date", "fixed_interval": "1h" } } }),
        json!({ "h": { "histogram": { "field": "attr.date", "interval": 3600000 } } }),
        json!({ "h": { "range": { "field": "attr.date", "ranges": [ {"to": 1600000000000000000.0f64}, {"from": 1600000000000000000.0f64} ] } } }),
    ] {
        println!("request        : {req}");
        let one = build_json(&[docs.clone()]);
        let expected = run(&one, &req);
        println!("single segment : {expected}");
        let a = build_json(&[docs[2..].to_vec(), docs[..2].to_vec()]);
        let got_a = run(&a, &req);
        println!("[c d | a b]    : {got_a}");
        let b = build_json(&[docs[..2].to_vec(), docs[2..].to_vec()]);
        let got_b = run(&b, &req);
        println!("[a b | c d]    : {got_b}");
        if expected != got_a {
            failures.push(format!("{req}: [c d | a b] differs"));
        }
        if expected != got_b {
            failures.push(format!("{req}: [a b | c d] differs"));
        }
    }
    assert!(failures.is_empty(), "{failures:#?}");
}
