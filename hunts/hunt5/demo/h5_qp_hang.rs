// C16: "Parsing never panics: every input string yields either a query or an error, the lenient
// parser always yields a query".
// The lenient parser never returns for an `IN [` set that contains a non-ASCII white space
// (U+3000 IDEOGRAPHIC SPACE, U+00A0 NO-BREAK SPACE, U+0085, U+2028 ...): set_infallible loops
// without consuming input, pushing one error per iteration, until memory is exhausted.
use std::sync::mpsc::channel;
use std::time::Duration;

use tantivy::query::QueryParser;
use tantivy::schema::{Schema, TEXT};
use tantivy::Index;

fn returns_in_time<F: FnOnce() -> String + Send + 'static>(f: F) -> Option<String> {
    let (tx, rx) = channel();
    std::thread::spawn(move || {
        let r = f();
        let _ = tx.send(r);
    });
    rx.recv_timeout(Duration::from_secs(3)).ok()
}

#[test]
fn grammar_lenient_in_set_with_ideographic_space() {
    // strict parser: fine (returns an error)
    let q = "title:IN [東京\u{3000}大阪]";
    let strict = returns_in_time(move || format!("{:?}", tantivy::query_grammar::parse_query(q)));
    println!("strict : {strict:?}");
    assert!(strict.is_some());
    let lenient =
        returns_in_time(move || format!("{:?}", tantivy::query_grammar::parse_query_lenient(q)));
    println!("lenient: {lenient:?}");
    assert!(lenient.is_some(), "parse_query_lenient({q:?}) did not return within 3 s");
}

#[test]
fn query_parser_lenient_in_set_with_nbsp() {
    let mut sb = Schema::builder();
    let title = sb.add_text_field("title", TEXT);
    let index = Index::create_in_ram(sb.build());
    let qp = QueryParser::for_index(&index, vec![title]);
    let q = "title: IN [a\u{a0}b]";
    let res = returns_in_time(move || format!("{:?}", qp.parse_query_lenient(q)));
    println!("lenient: {res:?}");
    assert!(res.is_some(), "QueryParser::parse_query_lenient({q:?}) did not return within 3 s");
}
