// Fuzz tokenizers / filter chains / snippets for offset invariants.
use std::collections::BTreeMap;
use std::panic::{catch_unwind, AssertUnwindSafe};

use rand::prelude::*;
use tantivy::schema::Field;
use tantivy::snippet::{collapse_overlapped_ranges, SnippetGenerator};
use tantivy::tokenizer::*;

const PIECES: &[&str] = &[
    "a", "b", "hello", "Hello", "HELLO", "world", "the", "running", "dampfschifffahrt", "foobar",
    "foo", "bar", " ", "  ", "\t", "\n", "\u{3000}", "\u{a0}", "é", "É", "İ", "ı", "ß", "ẞ", "ǅ",
    "ﬁ", "Σ", "ς", "日本語", "😀", "👨‍👩‍👧", "e\u{301}", "\u{301}", "\0", "\u{7f}", "-", "_", ".",
    ",", "'", "<", ">", "&", "\"", "<b>", "1", "23", "Ⅷ", "²", "Straße", "ÀÉÎ", "Ǆ", "K", "Å",
    "/", "\u{0}", "x",
];

fn gen_text(rng: &mut StdRng) -> String {
    let n = rng.random_range(0..14);
    let mut s = String::new();
    for _ in 0..n {
        s.push_str(PIECES[rng.random_range(0..PIECES.len())]);
    }
    s
}

fn base(rng: &mut StdRng) -> (String, TextAnalyzerBuilder) {
    match rng.random_range(0..7) {
        0 => ("simple".into(), TextAnalyzer::builder(SimpleTokenizer::default()).dynamic()),
        1 => (
            "whitespace".into(),
            TextAnalyzer::builder(WhitespaceTokenizer::default()).dynamic(),
        ),
        2 => ("raw".into(), TextAnalyzer::builder(RawTokenizer::default()).dynamic()),
        3 | 4 => {
            let min = rng.random_range(1..4);
            let max = rng.random_range(min..6);
            let prefix = rng.random_bool(0.5);
            (
                format!("ngram({min},{max},{prefix})"),
                TextAnalyzer::builder(NgramTokenizer::new(min, max, prefix).unwrap()).dynamic(),
            )
        }
        5 => {
            let pats = [r"\w+", r"[^\s]+", r"\S*", r"(?i)h\w*", r"\b\w", r"^\w+", r".", r"\pL+"];
            let p = pats[rng.random_range(0..pats.len())];
            (
                format!("regex({p})"),
                TextAnalyzer::builder(RegexTokenizer::new(p).unwrap()).dynamic(),
            )
        }
        _ => ("simple".into(), TextAnalyzer::builder(SimpleTokenizer::default()).dynamic()),
    }
}

fn chain(rng: &mut StdRng) -> (String, TextAnalyzer, bool) {
    let (mut name, mut b) = base(rng);
    let mut normalises = false;
    let n = rng.random_range(0..4);
    for _ in 0..n {
        match rng.random_range(0..7) {
            0 => {
                name.push_str("|lower");
                normalises = true;
                b = b.filter_dynamic(LowerCaser);
            }
            1 => {
                name.push_str("|ascii");
                normalises = true;
                b = b.filter_dynamic(AsciiFoldingFilter);
            }
            2 => {
                let l = rng.random_range(0..8);
                name.push_str(&format!("|long({l})"));
                b = b.filter_dynamic(RemoveLongFilter::limit(l));
            }
            3 => {
                name.push_str("|alnum");
                b = b.filter_dynamic(AlphaNumOnlyFilter);
            }
            4 => {
                name.push_str("|stop");
                b = b.filter_dynamic(StopWordFilter::remove(vec![
                    "the".to_string(),
                    "a".to_string(),
                    "é".to_string(),
                ]));
            }
            5 => {
                name.push_str("|stem");
                normalises = true;
                b = b.filter_dynamic(Stemmer::new(Language::English));
            }
            _ => {
                name.push_str("|split");
                normalises = true; // parts keep the parent's offsets
                b = b.filter_dynamic(
                    SplitCompoundWords::from_dictionary([
                        "dampf", "schiff", "fahrt", "foo", "bar", "hel", "lo", "é", "日", "本語",
                    ])
                    .unwrap(),
                );
            }
        }
    }
    (name, b.build(), normalises)
}

fn check_tokens(name: &str, an: &mut TextAnalyzer, text: &str, normalises: bool) -> Vec<String> {
    let mut errs = vec![];
    let mut last_pos: Option<usize> = None;
    let mut ts = an.token_stream(text);
    let mut n = 0;
    while ts.advance() {
        n += 1;
        if n > 100_000 {
            errs.push(format!("{name} {text:?}: too many tokens"));
            break;
        }
        let t = ts.token().clone();
        if t.offset_from > t.offset_to {
            errs.push(format!("{name} {text:?}: from>to {t:?}"));
            continue;
        }
        if t.offset_to > text.len() {
            errs.push(format!("{name} {text:?}: to>len {t:?}"));
            continue;
        }
        if !text.is_char_boundary(t.offset_from) || !text.is_char_boundary(t.offset_to) {
            errs.push(format!("{name} {text:?}: not char boundary {t:?}"));
            continue;
        }
        if let Some(lp) = last_pos {
            if t.position < lp {
                errs.push(format!("{name} {text:?}: position decreased {lp} -> {t:?}"));
            }
        }
        last_pos = Some(t.position);
        if !normalises && t.text != text[t.offset_from..t.offset_to] {
            errs.push(format!(
                "{name} {text:?}: token text {:?} != slice {:?}",
                t.text,
                &text[t.offset_from..t.offset_to]
            ));
        }
    }
    errs
}

#[test]
fn tokenizer_offsets() {
    let mut rng = StdRng::seed_from_u64(19);
    let mut failures: Vec<String> = vec![];
    for _ in 0..3000 {
        let (name, mut an, normalises) = chain(&mut rng);
        for _ in 0..20 {
            let text = gen_text(&mut rng);
            let r = catch_unwind(AssertUnwindSafe(|| {
                check_tokens(&name, &mut an, &text, normalises)
            }));
            match r {
                Ok(e) => failures.extend(e),
                Err(_) => failures.push(format!("PANIC {name} {text:?}")),
            }
        }
        if failures.len() > 40 {
            break;
        }
    }
    for f in &failures {
        println!("{f}");
    }
    assert!(failures.is_empty());
}

fn analyse(an: &mut TextAnalyzer, text: &str) -> Vec<String> {
    let mut v = vec![];
    let mut ts = an.token_stream(text);
    while ts.advance() {
        v.push(ts.token().text.clone());
    }
    v
}

#[test]
fn snippet_invariants() {
    let mut rng = StdRng::seed_from_u64(1919);
    let mut failures: Vec<String> = vec![];
    for _ in 0..3000 {
        let (name, mut an, _) = chain(&mut rng);
        for _ in 0..10 {
            let text = gen_text(&mut rng);
            // pick query terms among the tokens of the text (as a query parser would produce
            // them) plus a few extras
            let toks = analyse(&mut an, &text);
            let mut terms: BTreeMap<String, f32> = BTreeMap::new();
            for t in toks.iter() {
                if rng.random_bool(0.3) {
                    terms.insert(t.clone(), rng.random_range(0.1..1.0));
                }
            }
            let max_chars = rng.random_range(0..30usize);
            let generator =
                SnippetGenerator::new(terms.clone(), an.clone(), Field::from_field_id(0), max_chars);
            let r = catch_unwind(AssertUnwindSafe(|| {
                let sn = generator.snippet(&text);
                let html = sn.to_html();
                (sn.fragment().to_string(), sn.highlighted().to_vec(), html)
            }));
            let (frag, hl, html) = match r {
                Ok(x) => x,
                Err(_) => {
                    failures.push(format!(
                        "PANIC {name} text={text:?} terms={terms:?} max={max_chars}"
                    ));
                    continue;
                }
            };
            let ctx = format!("{name} text={text:?} terms={terms:?} max={max_chars} frag={frag:?} hl={hl:?}");
            if !text.contains(&frag) {
                failures.push(format!("NOT SUBSTRING {ctx}"));
            }
            if frag.chars().count() > max_chars {
                failures.push(format!("TOO LONG {ctx}"));
            }
            for r in &hl {
                if r.start > r.end
                    || r.end > frag.len()
                    || !frag.is_char_boundary(r.start)
                    || !frag.is_char_boundary(r.end)
                {
                    failures.push(format!("BAD RANGE {ctx}"));
                    continue;
                }
                let covered = &frag[r.clone()];
                let analysed = analyse(&mut an, covered);
                if !analysed.iter().any(|t| terms.contains_key(t)) {
                    failures.push(format!("HL NOT TERM {covered:?}->{analysed:?} {ctx}"));
                }
            }
            let col = collapse_overlapped_ranges(&hl);
            // html: strip tags and unescape must equal the fragment
            let _ = (col, html);
        }
        if failures.len() > 60 {
            break;
        }
    }
    for f in &failures {
        println!("{f}");
    }
    assert!(failures.is_empty());
}
