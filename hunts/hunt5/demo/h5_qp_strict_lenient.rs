// C16: totality of the strict parser, and strict / lenient agreement.
use std::panic::{catch_unwind, AssertUnwindSafe};

use tantivy::query::QueryParser;
use tantivy::query_grammar::{parse_query, parse_query_lenient};
use tantivy::schema::{Schema, TEXT};
use tantivy::Index;

fn query_parser() -> QueryParser {
    let mut sb = Schema::builder();
    let title = sb.add_text_field("title", TEXT);
    let index = Index::create_in_ram(sb.build());
    QueryParser::for_index(&index, vec![title])
}

// "Parsing never panics: every input string yields either a query or an error"
#[test]
fn strict_parser_panics_on_star_followed_by_unicode_space() {
    let qp = query_parser();
    let mut failures = vec![];
    for q in ["*\u{3000}", "*\u{a0}foo", "title:foo AND *\u{2028}", "(*\u{85})"] {
        let r = catch_unwind(AssertUnwindSafe(|| parse_query(q).is_ok()));
        println!("grammar parse_query({q:?}) -> {r:?}");
        if r.is_err() {
            failures.push(format!("query_grammar::parse_query({q:?}) panicked"));
        }
        let r = catch_unwind(AssertUnwindSafe(|| qp.parse_query(q).is_ok()));
        if r.is_err() {
            failures.push(format!("QueryParser::parse_query({q:?}) panicked"));
        }
        let r = catch_unwind(AssertUnwindSafe(|| qp.parse_query_lenient(q).1.len()));
        if r.is_err() {
            failures.push(format!("QueryParser::parse_query_lenient({q:?}) panicked"));
        }
    }
    assert!(failures.is_empty(), "{failures:#?}");
}

// "the lenient parser ... agrees with the strict parser, reporting no error, whenever the strict
// parser succeeds"
#[test]
fn lenient_reports_errors_where_strict_succeeds() {
    let qp = query_parser();
    let mut failures = vec![];
    for q in ["/usr/bin", "title:/usr/bin", "a < b", "x >= 3", "<", "1/2", "tcp/ip /etc"] {
        let strict = parse_query(q);
        let (lenient, errs) = parse_query_lenient(q);
        println!("{q:?}: strict={strict:?} lenient={lenient:?} errs={errs:?}");
        if let Ok(strict) = strict {
            if !errs.is_empty() {
                failures.push(format!("grammar {q:?}: strict ok ({strict:?}) but lenient errors {errs:?}"));
            } else if format!("{strict:?}") != format!("{lenient:?}") {
                failures.push(format!("grammar {q:?}: strict {strict:?} != lenient {lenient:?}"));
            }
        }
        let strict = qp.parse_query(q);
        let (lenient, errs) = qp.parse_query_lenient(q);
        if let Ok(strict) = strict {
            if !errs.is_empty() {
                failures.push(format!(
                    "QueryParser {q:?}: strict ok ({strict:?}) but lenient errors {errs:?}, query {lenient:?}"
                ));
            }
        }
    }
    assert!(failures.is_empty(), "{failures:#?}");
}
