// C14: terms aggregation ordering / size / missing equal a direct computation.
use serde_json::{json, Value};
use tantivy::aggregation::agg_req::Aggregations;
use tantivy::aggregation::AggregationCollector;
use tantivy::query::AllQuery;
use tantivy::schema::{Schema, FAST, STRING};
use tantivy::{Index, IndexWriter, TantivyDocument};

fn run(index: &Index, req: &Value) -> Value {
    let agg: Aggregations = serde_json::from_value(req.clone()).unwrap();
    let collector = AggregationCollector::from_aggs(agg, Default::default());
    let searcher = index.reader().unwrap().searcher();
    match searcher.search(&AllQuery, &collector) {
        Ok(res) => serde_json::to_value(&res).unwrap(),
        Err(e) => json!({ "ERROR": format!("{e:?}") }),
    }
}

fn build(segments: &[Vec<(Option<&str>, Option<f64>)>]) -> Index {
    let mut sb = Schema::builder();
    let cat = sb.add_text_field("cat", STRING | FAST);
    let val = sb.add_f64_field("val", FAST);
    let index = Index::create_in_ram(sb.build());
    let mut w: IndexWriter = index.writer_with_num_threads(1, 20_000_000).unwrap();
    w.set_merge_policy(Box::new(tantivy::merge_policy::NoMergePolicy));
    for seg in segments {
        for (c, v) in seg {
            let mut doc = TantivyDocument::default();
            if let Some(c) = c {
                doc.add_text(cat, c);
            }
            if let Some(v) = v {
                doc.add_f64(val, *v);
            }
            w.add_document(doc).unwrap();
        }
        w.commit().unwrap();
    }
    index
}

fn keys(res: &Value) -> Vec<f64> {
    res["t"]["buckets"]
        .as_array()
        .unwrap_or_else(|| panic!("no buckets in {res}"))
        .iter()
        .map(|b| b["key"].as_f64().unwrap())
        .collect()
}

#[test]
fn terms_on_f64_ordered_by_key() {
    // fractional and integral, negative and positive values in one f64 fast field
    let vals = [-2.5, -1.0, 0.5, 2.0, 3.5, 4.0];
    let docs: Vec<_> = vals.iter().map(|v| (Some("x"), Some(*v))).collect();
    let index = build(&[docs]);
    let res = run(&index, &json!({"t": {"terms": {"field": "val", "order": {"_key": "asc"}}}}));
    println!("asc        : {res}");
    let mut failures = vec![];
    if keys(&res) != vals.to_vec() {
        failures.push(format!("asc: expected {vals:?} got {:?}", keys(&res)));
    }
    let res = run(&index, &json!({"t": {"terms": {"field": "val", "order": {"_key": "desc"}}}}));
    println!("desc       : {res}");
    let mut rev = vals.to_vec();
    rev.reverse();
    if keys(&res) != rev {
        failures.push(format!("desc: expected {rev:?} got {:?}", keys(&res)));
    }
    // with size the wrong buckets are returned, not just a wrong order
    let res =
        run(&index, &json!({"t": {"terms": {"field": "val", "size": 2, "order": {"_key": "asc"}}}}));
    println!("asc size 2 : {res}");
    if keys(&res) != vec![-2.5, -1.0] {
        failures.push(format!("asc size 2: expected [-2.5, -1.0] got {:?}", keys(&res)));
    }
    assert!(failures.is_empty(), "{failures:#?}");
}

#[test]
fn terms_missing_with_key_order_and_segment_cut() {
    // 12 distinct terms b00..b11, and 3 docs without a value: missing => "a" sorts first.
    let mut docs: Vec<(Option<&str>, Option<f64>)> = vec![];
    let names: Vec<String> = (0..12).map(|i| format!("b{i:02}")).collect();
    for n in &names {
        docs.push((Some(n.as_str()), Some(1.0)));
    }
    for _ in 0..3 {
        docs.push((None, Some(1.0)));
    }
    let index = build(&[docs]);
    let req = json!({"t": {"terms": {"field": "cat", "missing": "a", "size": 1, "order": {"_key": "asc"}}}});
    let res = run(&index, &req);
    println!("{res}");
    assert_eq!(res["t"]["buckets"][0]["key"], "a", "{res}");
    assert_eq!(res["t"]["buckets"][0]["doc_count"], 3, "{res}");
}

#[test]
fn terms_missing_equal_to_existing_term() {
    // 2 docs with cat=c3, 3 docs without cat, 1 doc with cat=c1.
    // `missing: "c3"` must put the 3 docs without a value in the c3 bucket: 5 docs.
    let docs = vec![
        (Some("c3"), Some(1.0)),
        (Some("c3"), Some(1.0)),
        (None, Some(1.0)),
        (None, Some(1.0)),
        (None, Some(1.0)),
        (Some("c1"), Some(1.0)),
    ];
    let req = json!({"t": {"terms": {"field": "cat", "missing": "c3"}}});
    let one = run(&build(&[docs.clone()]), &req);
    println!("one segment            : {one}");
    // same documents, docs without a value in a segment of their own
    let split = run(&build(&[vec![docs[0], docs[1], docs[5]], vec![docs[2], docs[3], docs[4]]]), &req);
    println!("[c3 c3 c1 | - - -]     : {split}");
    let count = |res: &Value, key: &str| -> u64 {
        res["t"]["buckets"]
            .as_array()
            .unwrap()
            .iter()
            .filter(|b| b["key"] == key)
            .map(|b| b["doc_count"].as_u64().unwrap())
            .sum()
    };
    assert_eq!(count(&split, "c3"), 5, "split: {split}");
    assert_eq!(count(&one, "c3"), 5, "one segment: {one}");
}
