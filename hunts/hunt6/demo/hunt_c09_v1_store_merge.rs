//! C09: a stored date of a segment written with doc store format V1 (index format 6, dates stored
//! as microseconds) must still be returned unchanged after the segment went through a merge.

use std::path::Path;

use tantivy::collector::{Count, DocSetCollector};
use tantivy::directory::RamDirectory;
use tantivy::query::AllQuery;
use tantivy::schema::Value;
use tantivy::{DateTime, Directory, Index, IndexWriter, TantivyDocument};

fn load_v6_index() -> Index {
    let src = Path::new(env!("CARGO_MANIFEST_DIR")).join("tests/compat_tests_data/index_v6");
    let ram = RamDirectory::create();
    for entry in std::fs::read_dir(&src).unwrap() {
        let entry = entry.unwrap();
        let name = entry.file_name();
        let name = name.to_str().unwrap();
        if name.ends_with(".lock") {
            continue;
        }
        let data = std::fs::read(entry.path()).unwrap();
        ram.atomic_write(Path::new(name), &data).unwrap();
    }
    Index::open(ram).unwrap()
}

fn all_dates(index: &Index) -> Vec<DateTime> {
    let date_field = index.schema().get_field("date").unwrap();
    let searcher = index.reader().unwrap().searcher();
    let mut dates = Vec::new();
    for addr in searcher.search(&AllQuery, &DocSetCollector).unwrap() {
        let doc: TantivyDocument = searcher.doc(addr).unwrap();
        dates.push(doc.get_first(date_field).unwrap().as_datetime().unwrap());
    }
    dates.sort();
    dates
}

#[test]
fn stored_date_of_v1_segment_survives_merge() {
    let index = load_v6_index();
    // what the (unmerged) V1 segment returns: 123456ns truncated to micro seconds.
    let before = all_dates(&index);
    assert_eq!(before, vec![DateTime::from_timestamp_nanos(123_000)]);

    let schema = index.schema();
    let label = schema.get_field("label").unwrap();
    let date = schema.get_field("date").unwrap();
    let mut writer: IndexWriter = index.writer_with_num_threads(1, 20_000_000).unwrap();
    let mut doc = TantivyDocument::default();
    doc.add_text(label, "second");
    doc.add_date(date, DateTime::from_timestamp_nanos(5_000_000_000));
    writer.add_document(doc).unwrap();
    writer.commit().unwrap();

    let mut expected = before.clone();
    expected.push(DateTime::from_timestamp_nanos(5_000_000_000));
    expected.sort();
    assert_eq!(all_dates(&index), expected, "before the merge");

    let segment_ids = index.searchable_segment_ids().unwrap();
    assert_eq!(segment_ids.len(), 2);
    writer.merge(&segment_ids).wait().unwrap();
    writer.wait_merging_threads().unwrap();

    let searcher = index.reader().unwrap().searcher();
    assert_eq!(searcher.segment_readers().len(), 1);
    assert_eq!(searcher.search(&AllQuery, &Count).unwrap(), 2);
    assert_eq!(all_dates(&index), expected, "after the merge");
}
