//! C09 exploration: store round trips.

use std::net::Ipv6Addr;

use tantivy::collector::DocSetCollector;
use tantivy::query::AllQuery;
use tantivy::schema::document::OwnedValue;
use tantivy::schema::{
    BytesOptions, DateOptions, Facet, FacetOptions, IpAddrOptions, JsonObjectOptions,
    NumericOptions, Schema, TextOptions, FAST, INDEXED, STORED, STRING, TEXT,
};
use tantivy::store::Compressor;
use tantivy::tokenizer::{PreTokenizedString, Token};
use tantivy::{DateTime, Index, IndexSettings, IndexWriter, TantivyDocument, Term};

fn exotic_values() -> Vec<OwnedValue> {
    vec![
        OwnedValue::Null,
        OwnedValue::Str(String::new()),
        OwnedValue::Str("héllo wörld \u{0} \u{10FFFF} 日本語".to_string()),
        OwnedValue::U64(0),
        OwnedValue::U64(u64::MAX),
        OwnedValue::I64(i64::MIN),
        OwnedValue::I64(-1),
        OwnedValue::F64(-0.0),
        OwnedValue::F64(f64::INFINITY),
        OwnedValue::F64(f64::MIN_POSITIVE),
        OwnedValue::F64(1e300),
        OwnedValue::Bool(true),
        OwnedValue::Bool(false),
        OwnedValue::Date(DateTime::from_timestamp_nanos(i64::MIN)),
        OwnedValue::Date(DateTime::from_timestamp_nanos(i64::MAX)),
        OwnedValue::Date(DateTime::from_timestamp_nanos(1_234_567_891)),
        OwnedValue::Facet(Facet::root()),
        OwnedValue::Facet(Facet::from("/a/b c/d")),
        OwnedValue::Bytes(vec![]),
        OwnedValue::Bytes((0..=255u8).collect()),
        OwnedValue::IpAddr(Ipv6Addr::LOCALHOST),
        OwnedValue::IpAddr("1.2.3.4".parse::<std::net::Ipv4Addr>().unwrap().to_ipv6_mapped()),
        OwnedValue::Array(vec![]),
        OwnedValue::Object(vec![]),
        OwnedValue::PreTokStr(PreTokenizedString {
            text: "pre tok".to_string(),
            tokens: vec![Token {
                offset_from: 0,
                offset_to: 3,
                position: 7,
                text: "pre".to_string(),
                position_length: 2,
            }],
        }),
    ]
}

fn deep(depth: usize) -> OwnedValue {
    let mut v = OwnedValue::Array(exotic_values());
    for i in 0..depth {
        if i % 2 == 0 {
            v = OwnedValue::Object(vec![
                ("z".to_string(), v.clone()),
                ("a".to_string(), OwnedValue::U64(i as u64)),
                ("z".to_string(), OwnedValue::Null),
                (String::new(), v),
            ]);
        } else {
            v = OwnedValue::Array(vec![v, OwnedValue::I64(-(i as i64))]);
        }
    }
    v
}

fn to_owned_doc(doc: &TantivyDocument) -> Vec<(u32, OwnedValue)> {
    doc.field_values()
        .map(|(f, v)| (f.field_id(), OwnedValue::from(v)))
        .collect()
}

fn normalize(v: &OwnedValue) -> String {
    // Debug repr distinguishes -0.0 / NaN etc.
    format!("{v:?}")
}

#[test]
fn exotic_values_in_stored_json() {
    for compressor in [Compressor::None, Compressor::Lz4] {
        for dedicated in [false, true] {
            for blocksize in [1usize, 50, 16_384] {
                let mut sb = Schema::builder();
                let json = sb.add_json_field("json", STORED);
                let other = sb.add_json_field("other", STORED);
                let notstored = sb.add_text_field("notstored", TEXT);
                let schema = sb.build();
                let settings = IndexSettings {
                    docstore_compression: compressor,
                    docstore_compress_dedicated_thread: dedicated,
                    docstore_blocksize: blocksize,
                    ..Default::default()
                };
                let index = Index::builder()
                    .schema(schema)
                    .settings(settings)
                    .create_in_ram()
                    .unwrap();
                let mut writer: IndexWriter = index.writer_with_num_threads(1, 50_000_000).unwrap();
                let mut expected = Vec::new();
                for d in 0..6 {
                    let mut doc = TantivyDocument::default();
                    let mut exp = Vec::new();
                    let val = deep(d);
                    let obj = OwnedValue::Object(vec![("k".to_string(), val)]);
                    doc.add_field_value(other, &OwnedValue::Object(vec![]));
                    exp.push((other.field_id(), OwnedValue::Object(vec![])));
                    doc.add_field_value(json, &obj);
                    exp.push((json.field_id(), obj.clone()));
                    doc.add_text(notstored, "hidden");
                    doc.add_field_value(json, &obj);
                    exp.push((json.field_id(), obj));
                    writer.add_document(doc).unwrap();
                    expected.push(exp);
                }
                // an empty doc
                writer.add_document(TantivyDocument::default()).unwrap();
                expected.push(vec![]);
                writer.commit().unwrap();
                let searcher = index.reader().unwrap().searcher();
                let store = searcher.segment_reader(0).get_store_reader(1).unwrap();
                for (doc_id, exp) in expected.iter().enumerate() {
                    let got: TantivyDocument = store.get(doc_id as u32).unwrap();
                    let got = to_owned_doc(&got);
                    assert_eq!(got.len(), exp.len());
                    for ((gf, gv), (ef, ev)) in got.iter().zip(exp.iter()) {
                        assert_eq!(gf, ef);
                        assert_eq!(
                            normalize(gv),
                            normalize(ev),
                            "{compressor:?} dedicated={dedicated} blocksize={blocksize} doc={doc_id}"
                        );
                    }
                }
                let iterated: Vec<TantivyDocument> =
                    store.iter(None).map(|d| d.unwrap()).collect();
                assert_eq!(iterated.len(), expected.len());
            }
        }
    }
}

#[test]
fn typed_fields_roundtrip() {
    let mut sb = Schema::builder();
    let text = sb.add_text_field("text", TEXT | STORED);
    let string = sb.add_text_field("string", STRING | STORED);
    let u = sb.add_u64_field("u", INDEXED | STORED | FAST);
    let i = sb.add_i64_field("i", INDEXED | STORED);
    let f = sb.add_f64_field("f", INDEXED | STORED);
    let b = sb.add_bool_field("b", INDEXED | STORED);
    let d = sb.add_date_field("d", DateOptions::default().set_indexed().set_stored());
    let facet = sb.add_facet_field("facet", FacetOptions::default().set_stored());
    let bytes = sb.add_bytes_field("bytes", BytesOptions::default().set_indexed().set_stored());
    let ip = sb.add_ip_addr_field("ip", IpAddrOptions::default().set_indexed().set_stored());
    let hidden = sb.add_u64_field("hidden", NumericOptions::default().set_indexed().set_fast());
    let schema = sb.build();
    let index = Index::create_in_ram(schema.clone());
    let mut writer: IndexWriter = index.writer_with_num_threads(1, 50_000_000).unwrap();
    let mut doc = TantivyDocument::default();
    doc.add_u64(hidden, 3);
    doc.add_ip_addr(ip, Ipv6Addr::LOCALHOST);
    doc.add_text(text, "b");
    doc.add_bytes(bytes, &[]);
    doc.add_bytes(bytes, &[0, 255]);
    doc.add_text(text, "");
    doc.add_text(text, "a");
    doc.add_pre_tokenized_text(
        text,
        PreTokenizedString {
            text: "pre tok".to_string(),
            tokens: vec![Token {
                offset_from: 0,
                offset_to: 3,
                position: 0,
                text: "pre".to_string(),
                position_length: 1,
            }],
        },
    );
    doc.add_text(string, "s");
    doc.add_u64(u, u64::MAX);
    doc.add_u64(u, 0);
    doc.add_i64(i, i64::MIN);
    doc.add_f64(f, -0.0);
    doc.add_f64(f, f64::NEG_INFINITY);
    doc.add_bool(b, false);
    doc.add_bool(b, true);
    doc.add_date(d, DateTime::from_timestamp_nanos(-1));
    doc.add_date(d, DateTime::from_timestamp_nanos(1_999_999_999));
    doc.add_facet(facet, Facet::from("/x/y"));
    doc.add_facet(facet, Facet::root());
    let expected: Vec<String> = doc
        .field_values()
        .filter(|(f, _)| *f != hidden)
        .map(|(f, v)| {
            let v = OwnedValue::from(v);
            let v = match v {
                OwnedValue::PreTokStr(p) => OwnedValue::Str(p.text),
                v => v,
            };
            format!("{}={:?}", f.field_id(), v)
        })
        .collect();
    writer.add_document(doc).unwrap();
    writer.commit().unwrap();
    let searcher = index.reader().unwrap().searcher();
    let addrs = searcher.search(&AllQuery, &DocSetCollector).unwrap();
    let addr = *addrs.iter().next().unwrap();
    let got: TantivyDocument = searcher.doc(addr).unwrap();
    let got: Vec<String> = got
        .field_values()
        .map(|(f, v)| format!("{}={:?}", f.field_id(), OwnedValue::from(v)))
        .collect();
    assert_eq!(got, expected);
    let _ = Term::from_field_u64(u, 0);
}

fn _unused(_: TextOptions, _: JsonObjectOptions) {}
