//! C09 exploration: many blocks, skip index layers, merges that stack, deletes.

use tantivy::collector::DocSetCollector;
use tantivy::query::AllQuery;
use tantivy::schema::{Schema, Value, FAST, INDEXED, STORED, STRING};
use tantivy::store::Compressor;
use tantivy::{Index, IndexSettings, IndexWriter, TantivyDocument, Term};

fn body(i: u64) -> String {
    let len = match i % 7 {
        0 => 0,
        1 => 1,
        2 => 30,
        3 => 300,
        4 => 5,
        5 => 2000,
        _ => 64,
    };
    format!("{i}:{}", "x".repeat(len))
}

fn run(compressor: Compressor, dedicated: bool, blocksize: usize, docs_per_segment: &[u64]) {
    let mut sb = Schema::builder();
    let id = sb.add_u64_field("id", INDEXED | STORED | FAST);
    let text = sb.add_text_field("body", STRING | STORED);
    let schema = sb.build();
    let settings = IndexSettings {
        docstore_compression: compressor,
        docstore_compress_dedicated_thread: dedicated,
        docstore_blocksize: blocksize,
        ..Default::default()
    };
    let index = Index::builder()
        .schema(schema)
        .settings(settings)
        .create_in_ram()
        .unwrap();
    let mut writer: IndexWriter = index.writer_with_num_threads(1, 50_000_000).unwrap();
    writer.set_merge_policy(Box::new(tantivy::merge_policy::NoMergePolicy));
    let mut next = 0u64;
    let mut alive = std::collections::BTreeSet::new();
    for (seg, &n) in docs_per_segment.iter().enumerate() {
        for _ in 0..n {
            let mut doc = TantivyDocument::default();
            doc.add_u64(id, next);
            doc.add_text(text, body(next));
            writer.add_document(doc).unwrap();
            alive.insert(next);
            next += 1;
        }
        if seg % 2 == 1 {
            // delete something in odd segments
            let victim = next - 2;
            writer.delete_term(Term::from_field_u64(id, victim));
            alive.remove(&victim);
        }
        writer.commit().unwrap();
    }
    let check = |label: &str, alive: &std::collections::BTreeSet<u64>| {
        let reader = index.reader().unwrap();
        let searcher = reader.searcher();
        let mut seen = std::collections::BTreeSet::new();
        for addr in searcher.search(&AllQuery, &DocSetCollector).unwrap() {
            let doc: TantivyDocument = searcher.doc(addr).unwrap();
            let i = doc.get_first(id).unwrap().as_u64().unwrap();
            assert_eq!(doc.get_first(text).unwrap().as_str().unwrap(), body(i), "{label}");
            let fast = searcher
                .segment_reader(addr.segment_ord)
                .fast_fields()
                .u64("id")
                .unwrap()
                .first(addr.doc_id)
                .unwrap();
            assert_eq!(fast, i, "{label}: store and fast field disagree");
            assert!(seen.insert(i));
        }
        assert_eq!(&seen, alive, "{label}");
        // iter in doc id order, live docs only, with a cache of 1 block and backward access
        for segment_reader in searcher.segment_readers() {
            let store = segment_reader.get_store_reader(1).unwrap();
            let ids: Vec<u64> = store
                .iter::<TantivyDocument>(segment_reader.alive_bitset())
                .map(|d| d.unwrap().get_first(id).unwrap().as_u64().unwrap())
                .collect();
            let fast = segment_reader.fast_fields().u64("id").unwrap();
            let expected: Vec<u64> = (0..segment_reader.max_doc())
                .filter(|d| !segment_reader.is_deleted(*d))
                .map(|d| fast.first(d).unwrap())
                .collect();
            assert_eq!(ids, expected, "{label}: iter order");
            for d in (0..segment_reader.max_doc()).rev().step_by(3) {
                let doc: TantivyDocument = store.get(d).unwrap();
                assert_eq!(
                    doc.get_first(id).unwrap().as_u64().unwrap(),
                    fast.first(d).unwrap()
                );
            }
        }
    };
    check("before merge", &alive);
    let segment_ids = index.searchable_segment_ids().unwrap();
    writer.merge(&segment_ids).wait().unwrap();
    check("after merge", &alive);
    // merge again with a few more docs
    for _ in 0..3 {
        let mut doc = TantivyDocument::default();
        doc.add_u64(id, next);
        doc.add_text(text, body(next));
        writer.add_document(doc).unwrap();
        alive.insert(next);
        next += 1;
    }
    writer.commit().unwrap();
    let segment_ids = index.searchable_segment_ids().unwrap();
    writer.merge(&segment_ids).wait().unwrap();
    check("after second merge", &alive);
    writer.wait_merging_threads().unwrap();
}

#[test]
fn many_blocks_none() {
    run(Compressor::None, false, 64, &[5000, 3, 700, 1, 4000]);
}

#[test]
fn many_blocks_lz4_dedicated() {
    run(Compressor::Lz4, true, 100, &[5000, 3, 700, 1, 4000]);
}

#[test]
fn tiny_blocks() {
    run(Compressor::Lz4, true, 1, &[700, 520, 65, 64, 9]);
}

#[test]
fn default_blocks() {
    run(Compressor::Lz4, false, 16_384, &[20_000, 3, 10_000, 1]);
}
