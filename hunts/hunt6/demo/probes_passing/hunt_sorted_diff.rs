//! C07 exploration: the inverted index of (several segments, merged) must equal the inverted index
//! of (one segment holding the same live documents).

use tantivy::postings::Postings;
use tantivy::schema::{
    BytesOptions, DateOptions, FacetOptions, IndexRecordOption, IpAddrOptions, JsonObjectOptions,
    Schema, TextFieldIndexing, TextOptions, FAST, INDEXED, STORED,
};
use tantivy::schema::Value;
use tantivy::{DocSet, Index, IndexSettings, IndexSortByField, IndexWriter, Order, TantivyDocument, Term, TERMINATED};

struct Rng(u64);
impl Rng {
    fn next(&mut self) -> u64 {
        self.0 ^= self.0 << 13;
        self.0 ^= self.0 >> 7;
        self.0 ^= self.0 << 17;
        self.0
    }
    fn below(&mut self, n: u64) -> u64 {
        self.next() % n
    }
}

fn schema(record: IndexRecordOption) -> Schema {
    let mut sb = Schema::builder();
    sb.add_u64_field("id", INDEXED | FAST | STORED);
    sb.add_u64_field("sortnum", FAST);
    sb.add_i64_field("sortneg", FAST);
    sb.add_text_field("sortstr", tantivy::schema::STRING | FAST);
    sb.add_text_field(
        "text",
        TextOptions::default().set_indexing_options(
            TextFieldIndexing::default()
                .set_tokenizer("whitespace")
                .set_index_option(record),
        ),
    );
    sb.add_json_field(
        "json",
        JsonObjectOptions::default().set_indexing_options(
            TextFieldIndexing::default()
                .set_tokenizer("whitespace")
                .set_index_option(record),
        ),
    );
    sb.add_i64_field("i", INDEXED);
    sb.add_f64_field("f", INDEXED);
    sb.add_bool_field("b", INDEXED);
    sb.add_date_field("d", DateOptions::default().set_indexed());
    sb.add_bytes_field("bytes", BytesOptions::default().set_indexed());
    sb.add_ip_addr_field("ip", IpAddrOptions::default().set_indexed());
    sb.add_facet_field("facet", FacetOptions::default());
    sb.build()
}

fn make_doc(schema: &Schema, id: u64) -> TantivyDocument {
    let mut rng = Rng(id.wrapping_mul(0x9E37_79B9_7F4A_7C15) | 1);
    rng.next();
    let words = |rng: &mut Rng, n: u64| -> String {
        (0..n)
            .map(|_| match rng.below(4) {
                0 => "common".to_string(),
                1 => format!("w{}", rng.below(20)),
                _ => format!("x{}", rng.below(2000)),
            })
            .collect::<Vec<_>>()
            .join(" ")
    };
    let n1 = rng.below(5);
    let t1 = words(&mut rng, n1);
    let n2 = rng.below(3);
    let t2 = words(&mut rng, n2);
    let burst = if id % 50 == 0 {
        "burst ".repeat(200 + (id % 150) as usize)
    } else {
        String::new()
    };
    let num = rng.below(3);
    let js1 = words(&mut rng, 3);
    let js2 = words(&mut rng, 2);
    let json = format!(
        r#"{{
        "id": {id},
        {sortnum}
        "sortneg": {sortneg},
        "sortstr": "{sortstr}",
        "text": ["{t1}", "{t2} {burst}"],
        "json": {{"k": ["{js1}", {num}, "{js2}", true], "n": {num}, "mixed": {mixed}, "o": {{"p.q": "common {js2}"}}}},
        "i": [{i}, -5],
        "f": {f},
        "b": {b},
        "d": "2020-01-0{day}T00:00:00Z",
        "bytes": "{bytes}",
        "ip": "10.0.0.{ip}",
        "facet": ["/a/{fa}", "/b"]
    }}"#,
        sortnum = if id % 11 == 0 { String::new() } else { format!("\"sortnum\": {},", (id * 7919) % 13) },
        sortneg = ((id * 31) % 17) as i64 - 8,
        sortstr = ["b", "a", "", "zz", "a b", "é"][((id * 5) % 6) as usize],
        mixed = if id % 2 == 0 { "7".to_string() } else { "\"common\"".to_string() },
        i = (id % 7) as i64 - 3,
        f = (id % 5) as f64 * 0.5,
        b = id % 3 == 0,
        day = 1 + id % 9,
        bytes = ["YQ==", "YWI=", ""][(id % 3) as usize],
        ip = id % 200,
        fa = id % 4,
    );
    TantivyDocument::parse_json(schema, &json).unwrap()
}

/// Dumps the inverted index of all fields, with doc ids translated to the `id` fast field.
fn dump(index: &Index) -> Vec<String> {
    let searcher = index.reader().unwrap().searcher();
    assert_eq!(searcher.segment_readers().len(), 1);
    let segment_reader = searcher.segment_reader(0);
    let ids = segment_reader.fast_fields().u64("id").unwrap();
    let schema = index.schema();
    let mut out = Vec::new();
    {
        let id_field = schema.get_field("id").unwrap();
        let store = segment_reader.get_store_reader(10).unwrap();
        let mut n = 0;
        for doc in 0..segment_reader.max_doc() {
            let d: TantivyDocument = store.get(doc).unwrap();
            assert_eq!(
                d.get_first(id_field).unwrap().as_u64().unwrap(),
                ids.first(doc).unwrap(),
                "store and fast field disagree on doc {doc}"
            );
        }
        for (d, doc) in store
            .iter::<TantivyDocument>(segment_reader.alive_bitset())
            .zip((0..segment_reader.max_doc()).filter(|d| !segment_reader.is_deleted(*d)))
        {
            assert_eq!(
                d.unwrap().get_first(id_field).unwrap().as_u64().unwrap(),
                ids.first(doc).unwrap()
            );
            n += 1;
        }
        assert_eq!(n, segment_reader.num_docs());
    }
    let mut positions = Vec::new();
    for (field, entry) in schema.fields() {
        if !entry.is_indexed() {
            continue;
        }
        let inv = segment_reader.inverted_index(field).unwrap();
        let mut stream = inv.terms().stream().unwrap();
        let mut prev_key: Option<Vec<u8>> = None;
        while stream.advance() {
            let key = stream.key().to_vec();
            if let Some(prev) = &prev_key {
                assert!(prev < &key, "term dictionary not in strict byte order");
            }
            prev_key = Some(key.clone());
            let term_info = stream.value().clone();
            let mut p = inv
                .read_postings_from_terminfo(&term_info, IndexRecordOption::WithFreqsAndPositions)
                .unwrap();
            let is_json_non_text = entry.field_type().value_type() == tantivy::schema::Type::Json
                && {
                    let end = key.iter().position(|&b| b == 0).unwrap();
                    key[end + 1] != b's'
                };
            let mut line = format!("{}:{:?} df={} ->", entry.name(), key, term_info.doc_freq);
            let mut entries: Vec<(u64, String)> = Vec::new();
            let mut n = 0;
            let mut prev_doc = None;
            while p.doc() != TERMINATED {
                let doc = p.doc();
                assert!(!segment_reader.is_deleted(doc));
                if let Some(prev) = prev_doc {
                    assert!(prev < doc);
                }
                prev_doc = Some(doc);
                let id = ids.first(doc).unwrap();
                if is_json_non_text {
                    entries.push((id, format!(" {id}")));
                } else {
                    p.positions(&mut positions);
                    let pos = format!("{positions:?}").replace(' ', "");
                    entries.push((id, format!(" {id}/{}/{pos}", p.term_freq())));
                }
                n += 1;
                p.advance();
            }
            assert_eq!(n, term_info.doc_freq, "doc_freq of {line}");
            entries.sort();
            for (_, e) in entries {
                line.push_str(&e);
            }
            out.push(line);
        }
    }
    out
}

fn build(
    sort: Option<(&str, Order)>,
    record: IndexRecordOption,
    segments: &[std::ops::Range<u64>],
    deleted: &[u64],
    merge: bool,
) -> Index {
    let schema = schema(record);
    let id_field = schema.get_field("id").unwrap();
    let settings = IndexSettings {
        sort_by_field: sort.map(|(f, o)| IndexSortByField {
            field: f.to_string(),
            order: o,
        }),
        ..Default::default()
    };
    let index = Index::builder()
        .schema(schema.clone())
        .settings(settings)
        .create_in_ram()
        .unwrap();
    let mut writer: IndexWriter = index.writer_with_num_threads(1, 100_000_000).unwrap();
    writer.set_merge_policy(Box::new(tantivy::merge_policy::NoMergePolicy));
    for seg in segments {
        for id in seg.clone() {
            if !merge && deleted.contains(&id) {
                continue;
            }
            writer.add_document(make_doc(&schema, id)).unwrap();
        }
        writer.commit().unwrap();
    }
    if merge {
        for id in deleted {
            writer.delete_term(Term::from_field_u64(id_field, *id));
        }
        writer.commit().unwrap();
        let segment_ids = index.searchable_segment_ids().unwrap();
        writer.merge(&segment_ids).wait().unwrap();
    }
    writer.wait_merging_threads().unwrap();
    index
}

fn compare(sort: (&str, Order), record: IndexRecordOption, segments: &[std::ops::Range<u64>], deleted: &[u64]) {
    let total = segments.first().unwrap().start..segments.last().unwrap().end;
    let reference = build(None, record, &[total.clone()], deleted, false);
    let sorted_one = build(Some(sort), record, &[total], deleted, false);
    let merged = build(Some(sort), record, segments, deleted, true);
    check_sorted(&sorted_one, sort);
    check_sorted(&merged, sort);
    let a0 = dump(&reference);
    let b0 = dump(&sorted_one);
    assert_eq!(a0.len(), b0.len(), "number of terms");
    for (x, y) in a0.iter().zip(b0.iter()) {
        assert!(x == y, "single sorted segment differs on {}", &x[..x.len().min(200)]);
    }
    let a = dump(&reference);
    let b = dump(&merged);
    assert_eq!(a.len(), b.len(), "number of terms");
    for (x, y) in a.iter().zip(b.iter()) {
        if x != y {
            let xs: Vec<&str> = x.split(' ').collect();
            let ys: Vec<&str> = y.split(' ').collect();
            let i = xs.iter().zip(ys.iter()).position(|(a, b)| a != b).unwrap_or(0);
            let lo = i.saturating_sub(3);
            panic!(
                "term {} {} differs at token {i}: reference: {:?} merged: {:?} (lens {} {})",
                xs[0],
                xs[1],
                &xs[lo..(i + 6).min(xs.len())],
                &ys[lo..(i + 6).min(ys.len())],
                xs.len(),
                ys.len()
            );
        }
    }
}

fn check_sorted(index: &Index, sort: (&str, Order)) {
    let searcher = index.reader().unwrap().searcher();
    let segment_reader = searcher.segment_reader(0);
    let ff = segment_reader.fast_fields();
    let keys: Vec<Option<Vec<u8>>> = match sort.0 {
        "sortstr" => {
            let col = ff.str("sortstr").unwrap().unwrap();
            (0..segment_reader.max_doc())
                .map(|d| {
                    col.term_ords(d).next().map(|ord| {
                        let mut s = Vec::new();
                        col.ord_to_bytes(ord, &mut s).unwrap();
                        s
                    })
                })
                .collect()
        }
        "sortneg" => {
            let col = ff.i64("sortneg").unwrap();
            (0..segment_reader.max_doc())
                .map(|d| col.first(d).map(|v| ((v as u64) ^ (1 << 63)).to_be_bytes().to_vec()))
                .collect()
        }
        f => {
            let col = ff.u64(f).unwrap();
            (0..segment_reader.max_doc())
                .map(|d| col.first(d).map(|v| v.to_be_bytes().to_vec()))
                .collect()
        }
    };
    for w in keys.windows(2) {
        let ok = match sort.1 {
            Order::Asc => w[0] <= w[1],
            Order::Desc => w[0] >= w[1],
        };
        assert!(ok, "segment not sorted by {sort:?}: {:?} then {:?}", w[0], w[1]);
    }
}

#[test]
fn sorted_id_desc() {
    let deleted: Vec<u64> = (0..1000).filter(|i| i % 3 == 1).collect();
    compare(
        ("id", Order::Desc),
        IndexRecordOption::WithFreqsAndPositions,
        &[0..300, 300..301, 301..700, 700..1000],
        &deleted,
    );
}

#[test]
fn sorted_sortnum_asc_with_missing() {
    let deleted: Vec<u64> = (0..1000).filter(|i| i % 4 == 1).collect();
    compare(
        ("sortnum", Order::Asc),
        IndexRecordOption::WithFreqsAndPositions,
        &[0..300, 300..301, 301..700, 700..1000],
        &deleted,
    );
}

#[test]
fn sorted_sortnum_desc_with_missing() {
    compare(
        ("sortnum", Order::Desc),
        IndexRecordOption::WithFreqs,
        &[0..300, 300..301, 301..700, 700..1000],
        &[],
    );
}

#[test]
fn sorted_sortneg_asc() {
    compare(
        ("sortneg", Order::Asc),
        IndexRecordOption::WithFreqsAndPositions,
        &[0..500, 500..1000],
        &[3, 4, 5, 600],
    );
}

#[test]
fn sorted_sortstr_asc() {
    compare(
        ("sortstr", Order::Asc),
        IndexRecordOption::WithFreqsAndPositions,
        &[0..500, 500..1000],
        &[3, 4, 5, 600],
    );
}

#[test]
fn sorted_sortstr_desc() {
    compare(
        ("sortstr", Order::Desc),
        IndexRecordOption::Basic,
        &[0..500, 500..777, 777..1000],
        &[3, 4, 5, 600],
    );
}
