//! C07 exploration: model check of a multi-valued text field.

use std::collections::BTreeMap;

use tantivy::postings::Postings;
use tantivy::schema::{IndexRecordOption, Schema, TextFieldIndexing, TextOptions};
use tantivy::{DocSet, Index, IndexWriter, TantivyDocument, Term, TERMINATED};

struct Rng(u64);
impl Rng {
    fn next(&mut self) -> u64 {
        self.0 ^= self.0 << 13;
        self.0 ^= self.0 >> 7;
        self.0 ^= self.0 << 17;
        self.0
    }
    fn below(&mut self, n: u64) -> u64 {
        self.next() % n
    }
}

// term -> doc -> positions
type Model = BTreeMap<String, BTreeMap<u32, Vec<u32>>>;

fn run(record: IndexRecordOption, fieldnorms: bool, seed: u64, num_docs: u32) {
    let mut sb = Schema::builder();
    let text = sb.add_text_field(
        "text",
        TextOptions::default().set_indexing_options(
            TextFieldIndexing::default()
                .set_tokenizer("whitespace")
                .set_fieldnorms(fieldnorms)
                .set_index_option(record),
        ),
    );
    let index = Index::create_in_ram(sb.build());
    let mut writer: IndexWriter = index.writer_with_num_threads(1, 200_000_000).unwrap();
    let mut rng = Rng(seed);
    let mut model: Model = BTreeMap::new();
    let mut num_tokens_per_doc = Vec::new();
    // vocabulary: "all" in every doc, "t127", "t128", "t129", "t256" with exactly that many docs,
    // "rare{n}" with sparse docs, "big" with high tf in some docs.
    for doc_id in 0..num_docs {
        let mut doc = TantivyDocument::default();
        let num_values = rng.below(4);
        let mut pos = 0u32;
        let mut ntok = 0u32;
        for _ in 0..num_values {
            let mut tokens: Vec<String> = Vec::new();
            let n = rng.below(6);
            for _ in 0..n {
                let t = match rng.below(10) {
                    0..=2 => "all".to_string(),
                    3 => format!("r{}", rng.below(50)),
                    4 => format!("sparse{}", rng.below(3000)),
                    5 => "common".to_string(),
                    6 => format!("w{}", rng.below(5)),
                    _ => format!("m{}", rng.below(300)),
                };
                tokens.push(t);
            }
            if doc_id % 97 == 0 && rng.below(2) == 0 {
                // a burst: high tf crossing 128 positions
                let burst = 100 + rng.below(400);
                for _ in 0..burst {
                    tokens.push("burst".to_string());
                    if rng.below(5) == 0 {
                        tokens.push("all".to_string());
                    }
                }
            }
            for limit in [127u32, 128, 129, 256, 1] {
                if doc_id * 3 < limit * 3 && doc_id % 1 == 0 && rng.below(1) == 0 {
                    // first `limit` docs that have at least one value get t{limit} once
                }
            }
            for (i, t) in tokens.iter().enumerate() {
                model
                    .entry(t.clone())
                    .or_default()
                    .entry(doc_id)
                    .or_default()
                    .push(pos + i as u32);
            }
            ntok += tokens.len() as u32;
            // position gap: end_position = last pos + 1 (position_length 1), +1 gap
            pos += tokens.len() as u32 + 1;
            doc.add_text(text, tokens.join(" "));
        }
        // exact-length posting lists
        for limit in [1u32, 127, 128, 129, 256, 384] {
            if doc_id >= 5 && doc_id < 5 + limit {
                let t = format!("exact{limit}");
                model
                    .entry(t.clone())
                    .or_default()
                    .entry(doc_id)
                    .or_default()
                    .push(pos);
                ntok += 1;
                pos += 2;
                doc.add_text(text, t);
            }
        }
        num_tokens_per_doc.push(ntok);
        writer.add_document(doc).unwrap();
    }
    writer.commit().unwrap();
    let searcher = index.reader().unwrap().searcher();
    assert_eq!(searcher.segment_readers().len(), 1);
    let segment_reader = searcher.segment_reader(0);
    let inv = segment_reader.inverted_index(text).unwrap();

    // total tokens / fieldnorms
    let total: u64 = num_tokens_per_doc.iter().map(|&n| n as u64).sum();
    assert_eq!(inv.total_num_tokens(), total);
    if fieldnorms {
        let fnr = segment_reader.get_fieldnorms_reader(text).unwrap();
        for (doc, &n) in num_tokens_per_doc.iter().enumerate() {
            let got = fnr.fieldnorm(doc as u32);
            assert!(got <= n, "fieldnorm {got} > {n}");
            if n < 40 {
                assert_eq!(got, n);
            }
        }
    }

    // term dictionary
    let mut stream = inv.terms().stream().unwrap();
    let mut dict_terms = Vec::new();
    while stream.advance() {
        dict_terms.push((
            String::from_utf8(stream.key().to_vec()).unwrap(),
            stream.value().doc_freq,
        ));
    }
    let model_terms: Vec<(String, u32)> = model
        .iter()
        .map(|(t, docs)| (t.clone(), docs.len() as u32))
        .collect();
    assert_eq!(dict_terms, model_terms);

    let mut positions = Vec::new();
    for (t, docs) in &model {
        let term = Term::from_field_text(text, t);
        let doc_ids: Vec<u32> = docs.keys().copied().collect();
        for requested in [
            IndexRecordOption::Basic,
            IndexRecordOption::WithFreqs,
            IndexRecordOption::WithFreqsAndPositions,
        ] {
            // sequential
            let mut p = inv.read_postings(&term, requested).unwrap().unwrap();
            assert_eq!(p.doc_freq(), docs.len() as u32);
            for (&doc, pos) in docs {
                assert_eq!(p.doc(), doc, "term {t}");
                if record.has_freq() && requested.has_freq() {
                    assert_eq!(p.term_freq(), pos.len() as u32, "term {t} doc {doc}");
                }
                if record.has_positions() && requested.has_positions() {
                    p.positions(&mut positions);
                    assert_eq!(&positions, pos, "term {t} doc {doc}");
                }
                p.advance();
            }
            assert_eq!(p.doc(), TERMINATED);

            // seeks with random strides; positions only read on some docs
            for stride in [1usize, 2, 7, 63, 127, 128, 129, 500] {
                let mut p = inv.read_postings(&term, requested).unwrap().unwrap();
                let mut idx = (rng.below(stride as u64 + 1)) as usize;
                while idx < doc_ids.len() {
                    let target_doc = doc_ids[idx];
                    // seek to a target that is <= doc and > previous doc
                    let prev = if idx == 0 { 0 } else { doc_ids[idx - 1] + 1 };
                    let target = prev + (rng.below((target_doc - prev + 1) as u64)) as u32;
                    let target = target.max(p.doc());
                    if target > target_doc {
                        idx += 1;
                        continue;
                    }
                    assert_eq!(p.seek(target), target_doc, "term {t} seek {target}");
                    let pos = &docs[&target_doc];
                    if record.has_freq() && requested.has_freq() {
                        assert_eq!(p.term_freq(), pos.len() as u32);
                    }
                    if record.has_positions() && requested.has_positions() && rng.below(2) == 0 {
                        p.positions(&mut positions);
                        assert_eq!(&positions, pos, "term {t} doc {target_doc} after seek");
                    }
                    idx += 1 + rng.below(stride as u64) as usize;
                }
                let last = *doc_ids.last().unwrap();
                if p.doc() <= last {
                    assert_eq!(p.seek(last + 1), TERMINATED);
                }
            }
        }
        // block postings + rank
        let mut bp = inv
            .read_block_postings(&term, IndexRecordOption::WithFreqs)
            .unwrap()
            .unwrap();
        let mut targets: Vec<u32> = (0..20).map(|_| rng.below(num_docs as u64 + 5) as u32).collect();
        targets.sort();
        for target in targets {
            let expected = doc_ids.iter().filter(|&&d| d < target).count() as u32;
            assert_eq!(bp.rank(target), expected, "rank term {t} target {target}");
        }
    }
}

#[test]
fn model_positions_fieldnorms() {
    run(IndexRecordOption::WithFreqsAndPositions, true, 0x1234_5678_9abc_def1, 3000);
}

#[test]
fn model_freqs_no_fieldnorms() {
    run(IndexRecordOption::WithFreqs, false, 0x9999_5678_9abc_def1, 3000);
}

#[test]
fn model_basic() {
    run(IndexRecordOption::Basic, true, 0x7777_5678_9abc_def1, 3000);
}
