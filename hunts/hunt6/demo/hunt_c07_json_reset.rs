//! C07: re-using a BlockSegmentPostings cursor (reset_block_postings_from_terminfo) across the
//! text terms and the numeric terms of one JSON field.

use tantivy::postings::BlockSegmentPostings;
use tantivy::schema::{IndexRecordOption, JsonObjectOptions, Schema, TextFieldIndexing, STORED};
use tantivy::{Index, IndexWriter, InvertedIndexReader, TantivyDocument, Term};

fn build(record: IndexRecordOption, num_docs: u32) -> (Index, tantivy::schema::Field) {
    let mut schema_builder = Schema::builder();
    let opts = JsonObjectOptions::default().set_indexing_options(
        TextFieldIndexing::default()
            .set_tokenizer("raw")
            .set_index_option(record),
    );
    let json = schema_builder.add_json_field("json", opts | STORED);
    let schema = schema_builder.build();
    let index = Index::create_in_ram(schema.clone());
    let mut writer: IndexWriter = index.writer_with_num_threads(1, 50_000_000).unwrap();
    for i in 0..num_docs {
        // every doc has the text term, every second doc (the even ones) has the number
        let doc_json = if i % 2 == 0 {
            r#"{"k": "hello", "n": 5}"#
        } else {
            r#"{"k": "hello"}"#
        };
        let doc =
            TantivyDocument::parse_json(&schema, &format!(r#"{{"json": {doc_json}}}"#)).unwrap();
        writer.add_document(doc).unwrap();
    }
    writer.commit().unwrap();
    (index, json)
}

fn collect_docs(cursor: &mut BlockSegmentPostings) -> Vec<u32> {
    let mut docs = Vec::new();
    loop {
        let block = cursor.docs();
        if block.is_empty() {
            break;
        }
        docs.extend_from_slice(block);
        cursor.advance();
    }
    docs
}

fn terms(json: tantivy::schema::Field) -> (Term, Term) {
    let mut text_term = Term::from_field_json_path(json, "k", false);
    text_term.append_type_and_str("hello");
    let mut num_term = Term::from_field_json_path(json, "n", false);
    num_term.append_type_and_fast_value(5i64);
    (text_term, num_term)
}

#[derive(Clone, Copy, Debug, PartialEq)]
enum Dir {
    TextToNumber,
    NumberToText,
}

fn check(record: IndexRecordOption, requested: IndexRecordOption, num_docs: u32, dir: Dir) {
    let (index, json) = build(record, num_docs);
    let searcher = index.reader().unwrap().searcher();
    assert_eq!(searcher.segment_readers().len(), 1);
    let inv: std::sync::Arc<InvertedIndexReader> =
        searcher.segment_reader(0).inverted_index(json).unwrap();
    let (text_term, num_term) = terms(json);
    let text_info = inv.get_term_info(&text_term).unwrap().unwrap();
    let num_info = inv.get_term_info(&num_term).unwrap().unwrap();
    assert_eq!(text_info.doc_freq, num_docs);
    assert_eq!(num_info.doc_freq, num_docs / 2);

    let expected_text: Vec<u32> = (0..num_docs).collect();
    let expected_num: Vec<u32> = (0..num_docs).filter(|d| d % 2 == 0).collect();

    // Fresh cursors are fine.
    let mut fresh_text = inv
        .read_block_postings_from_terminfo(&text_info, requested)
        .unwrap();
    assert_eq!(collect_docs(&mut fresh_text), expected_text);
    let mut fresh_num = inv
        .read_block_postings_from_terminfo(&num_info, requested)
        .unwrap();
    assert_eq!(collect_docs(&mut fresh_num), expected_num);

    if dir == Dir::TextToNumber {
        // text -> number
        let mut cursor = inv
            .read_block_postings_from_terminfo(&text_info, requested)
            .unwrap();
        inv.reset_block_postings_from_terminfo(&num_info, &mut cursor)
            .unwrap();
        assert_eq!(cursor.doc_freq(), num_docs / 2);
        assert_eq!(
            collect_docs(&mut cursor),
            expected_num,
            "text->number reset ({record:?}, requested {requested:?})"
        );

        return;
    }
    // number -> text
    let mut cursor = inv
        .read_block_postings_from_terminfo(&num_info, requested)
        .unwrap();
    inv.reset_block_postings_from_terminfo(&text_info, &mut cursor)
        .unwrap();
    assert_eq!(cursor.doc_freq(), num_docs);
    assert_eq!(
        collect_docs(&mut cursor),
        expected_text,
        "number->text reset ({record:?}, requested {requested:?})"
    );
}

#[test]
fn text_to_number_withfreqs_one_block() {
    check(
        IndexRecordOption::WithFreqs,
        IndexRecordOption::WithFreqs,
        300,
        Dir::TextToNumber,
    );
}

#[test]
fn text_to_number_withfreqs_many_blocks() {
    check(
        IndexRecordOption::WithFreqs,
        IndexRecordOption::WithFreqs,
        4000,
        Dir::TextToNumber,
    );
}

#[test]
fn text_to_number_positions_many_blocks_basic_requested() {
    check(
        IndexRecordOption::WithFreqsAndPositions,
        IndexRecordOption::Basic,
        4000,
        Dir::TextToNumber,
    );
}

#[test]
fn number_to_text_withfreqs() {
    check(
        IndexRecordOption::WithFreqs,
        IndexRecordOption::WithFreqs,
        4000,
        Dir::NumberToText,
    );
}

#[test]
fn number_to_text_positions_basic_requested() {
    check(
        IndexRecordOption::WithFreqsAndPositions,
        IndexRecordOption::Basic,
        4000,
        Dir::NumberToText,
    );
}

/// Control: on a JSON field indexed with `Basic` both kinds of terms share one layout and the
/// re-used cursor is correct.
#[test]
fn control_basic_field() {
    check(
        IndexRecordOption::Basic,
        IndexRecordOption::Basic,
        4000,
        Dir::TextToNumber,
    );
    check(
        IndexRecordOption::Basic,
        IndexRecordOption::Basic,
        4000,
        Dir::NumberToText,
    );
}

/// Sub-case without skip data (< 128 docs): the term frequencies of the previous (text) term stay
/// in the cursor after it was reset to a numeric term, which has no recorded frequency.
#[test]
fn text_to_number_short_lists_stale_freqs() {
    let mut schema_builder = Schema::builder();
    let opts = JsonObjectOptions::default().set_indexing_options(
        TextFieldIndexing::default()
            .set_tokenizer("whitespace")
            .set_index_option(IndexRecordOption::WithFreqs),
    );
    let json = schema_builder.add_json_field("json", opts);
    let schema = schema_builder.build();
    let index = Index::create_in_ram(schema.clone());
    let mut writer: IndexWriter = index.writer_with_num_threads(1, 50_000_000).unwrap();
    for _ in 0..5 {
        let doc = TantivyDocument::parse_json(
            &schema,
            r#"{"json": {"k": "hello hello hello", "n": 5}}"#,
        )
        .unwrap();
        writer.add_document(doc).unwrap();
    }
    writer.commit().unwrap();
    let searcher = index.reader().unwrap().searcher();
    let inv = searcher.segment_reader(0).inverted_index(json).unwrap();
    let (text_term, num_term) = terms(json);
    let text_info = inv.get_term_info(&text_term).unwrap().unwrap();
    let num_info = inv.get_term_info(&num_term).unwrap().unwrap();

    let fresh = inv
        .read_block_postings_from_terminfo(&num_info, IndexRecordOption::WithFreqs)
        .unwrap();
    let fresh_freqs: Vec<u32> = (0..fresh.block_len()).map(|i| fresh.freq(i)).collect();
    assert_eq!(fresh_freqs, vec![1; 5]);

    let mut cursor = inv
        .read_block_postings_from_terminfo(&text_info, IndexRecordOption::WithFreqs)
        .unwrap();
    assert_eq!(cursor.freqs(), &[3; 5]);
    inv.reset_block_postings_from_terminfo(&num_info, &mut cursor)
        .unwrap();
    assert_eq!(cursor.docs(), &[0, 1, 2, 3, 4]);
    let reset_freqs: Vec<u32> = (0..cursor.block_len()).map(|i| cursor.freq(i)).collect();
    assert_eq!(
        reset_freqs, fresh_freqs,
        "term frequencies of the numeric term through a re-used cursor"
    );
}

/// Not JSON specific: a cursor created with `BlockSegmentPostings::empty()` (the natural way to
/// get a re-usable cursor "while avoiding reallocating") and then reset on a term of a plain text
/// field indexed with frequencies.
#[test]
fn empty_cursor_reset_on_text_field_with_freqs() {
    let mut schema_builder = Schema::builder();
    let text = schema_builder.add_text_field(
        "text",
        tantivy::schema::TextOptions::default().set_indexing_options(
            TextFieldIndexing::default()
                .set_tokenizer("raw")
                .set_index_option(IndexRecordOption::WithFreqs),
        ),
    );
    let index = Index::create_in_ram(schema_builder.build());
    let mut writer: IndexWriter = index.writer_with_num_threads(1, 50_000_000).unwrap();
    for _ in 0..1000 {
        let mut doc = TantivyDocument::default();
        doc.add_text(text, "hello");
        writer.add_document(doc).unwrap();
    }
    writer.commit().unwrap();
    let searcher = index.reader().unwrap().searcher();
    let inv = searcher.segment_reader(0).inverted_index(text).unwrap();
    let info = inv
        .get_term_info(&Term::from_field_text(text, "hello"))
        .unwrap()
        .unwrap();
    let mut cursor = BlockSegmentPostings::empty();
    inv.reset_block_postings_from_terminfo(&info, &mut cursor)
        .unwrap();
    assert_eq!(collect_docs(&mut cursor), (0..1000).collect::<Vec<u32>>());
}
