//! C07: terms near / above the 64 KiB key limit of the indexing hash map.
//!
//! The in-memory term hash map (stacker `ArenaHashMap` / `SharedArenaHashMap`) silently truncates
//! keys to `u16::MAX` bytes. The key is `field id (4 bytes) + value bytes`; for a JSON field the
//! value bytes are `path id (4) + type code (1) + token`. `MAX_TOKEN_LEN` (= 65535 - 5) only
//! protects plain text fields.

use tantivy::schema::{
    BytesOptions, IndexRecordOption, JsonObjectOptions, Schema, TextFieldIndexing, TextOptions,
    INDEXED,
};
use tantivy::tokenizer::MAX_TOKEN_LEN;
use tantivy::{Index, IndexWriter, TantivyDocument, Term};

fn all_terms(index: &Index, field: tantivy::schema::Field) -> Vec<(Vec<u8>, u32)> {
    let searcher = index.reader().unwrap().searcher();
    let mut res = Vec::new();
    for segment_reader in searcher.segment_readers() {
        let inv = segment_reader.inverted_index(field).unwrap();
        let mut stream = inv.terms().stream().unwrap();
        while stream.advance() {
            res.push((stream.key().to_vec(), stream.value().doc_freq));
        }
    }
    res
}

/// Control: a plain text field keeps a token of MAX_TOKEN_LEN bytes intact.
#[test]
fn control_text_field_max_token_len() {
    let mut schema_builder = Schema::builder();
    let text = schema_builder.add_text_field(
        "text",
        TextOptions::default().set_indexing_options(
            TextFieldIndexing::default()
                .set_tokenizer("raw")
                .set_index_option(IndexRecordOption::Basic),
        ),
    );
    let index = Index::create_in_ram(schema_builder.build());
    let mut writer: IndexWriter = index.writer_with_num_threads(1, 50_000_000).unwrap();
    let a = format!("{}{}", "a".repeat(MAX_TOKEN_LEN - 1), "x");
    let b = format!("{}{}", "a".repeat(MAX_TOKEN_LEN - 1), "y");
    let mut doc = TantivyDocument::default();
    doc.add_text(text, &a);
    writer.add_document(doc).unwrap();
    let mut doc = TantivyDocument::default();
    doc.add_text(text, &b);
    writer.add_document(doc).unwrap();
    writer.commit().unwrap();
    let terms = all_terms(&index, text);
    assert_eq!(terms.len(), 2);
    assert_eq!(terms[0], (a.into_bytes(), 1));
    assert_eq!(terms[1], (b.into_bytes(), 1));
}

/// A JSON string value whose (raw) token is MAX_TOKEN_LEN bytes long - i.e. a token the indexer
/// accepts - must be recorded as is. Two documents whose tokens differ only in their last byte
/// must yield two distinct terms with doc_freq 1.
#[test]
fn json_text_token_of_max_token_len() {
    let mut schema_builder = Schema::builder();
    let json = schema_builder.add_json_field(
        "json",
        JsonObjectOptions::default().set_indexing_options(
            TextFieldIndexing::default()
                .set_tokenizer("raw")
                .set_index_option(IndexRecordOption::Basic),
        ),
    );
    let schema = schema_builder.build();
    let index = Index::create_in_ram(schema.clone());
    let mut writer: IndexWriter = index.writer_with_num_threads(1, 50_000_000).unwrap();
    let a = format!("{}{}", "a".repeat(MAX_TOKEN_LEN - 1), "x");
    let b = format!("{}{}", "a".repeat(MAX_TOKEN_LEN - 1), "y");
    for val in [&a, &b] {
        let doc =
            TantivyDocument::parse_json(&schema, &format!(r#"{{"json": {{"k": "{val}"}}}}"#))
                .unwrap();
        writer.add_document(doc).unwrap();
    }
    writer.commit().unwrap();

    let searcher = index.reader().unwrap().searcher();
    let inv = searcher.segment_reader(0).inverted_index(json).unwrap();
    let mut term_a = Term::from_field_json_path(json, "k", false);
    term_a.append_type_and_str(&a);
    let mut term_b = Term::from_field_json_path(json, "k", false);
    term_b.append_type_and_str(&b);

    let terms = all_terms(&index, json);
    let lens: Vec<(usize, u32)> = terms.iter().map(|(k, df)| (k.len(), *df)).collect();
    // "k" + \0 + 's' + token
    let expected_len = 1 + 1 + 1 + MAX_TOKEN_LEN;
    assert_eq!(
        lens,
        vec![(expected_len, 1), (expected_len, 1)],
        "(term length, doc_freq) of the terms in the dictionary"
    );
    assert_eq!(inv.doc_freq(&term_a).unwrap(), 1);
    assert_eq!(inv.doc_freq(&term_b).unwrap(), 1);
}

/// An indexed bytes field has no tokenizer and no documented length limit. Two values that differ
/// after byte 65531 must be two terms.
#[test]
fn bytes_field_long_values() {
    let mut schema_builder = Schema::builder();
    let bytes = schema_builder.add_bytes_field("bytes", BytesOptions::default() | INDEXED);
    let index = Index::create_in_ram(schema_builder.build());
    let mut writer: IndexWriter = index.writer_with_num_threads(1, 50_000_000).unwrap();
    let mut a = vec![7u8; 70_000];
    let mut b = vec![7u8; 70_000];
    *a.last_mut().unwrap() = 1;
    *b.last_mut().unwrap() = 2;
    for val in [&a, &b] {
        let mut doc = TantivyDocument::default();
        doc.add_bytes(bytes, val);
        writer.add_document(doc).unwrap();
    }
    writer.commit().unwrap();

    let terms = all_terms(&index, bytes);
    let lens: Vec<(usize, u32)> = terms.iter().map(|(k, df)| (k.len(), *df)).collect();
    assert_eq!(
        lens,
        vec![(70_000, 1), (70_000, 1)],
        "(term length, doc_freq) of the terms in the dictionary"
    );
    let searcher = index.reader().unwrap().searcher();
    let inv = searcher.segment_reader(0).inverted_index(bytes).unwrap();
    assert_eq!(inv.doc_freq(&Term::from_field_bytes(bytes, &a)).unwrap(), 1);
    assert_eq!(inv.doc_freq(&Term::from_field_bytes(bytes, &b)).unwrap(), 1);
}
