//! C07: reading the postings of a numeric term of a JSON field indexed with positions.

use tantivy::postings::Postings;
use tantivy::schema::{IndexRecordOption, JsonObjectOptions, Schema, TextFieldIndexing};
use tantivy::{DocSet, Index, IndexWriter, TantivyDocument, Term, TERMINATED};

fn run(num_docs: u32) {
    let mut sb = Schema::builder();
    let json = sb.add_json_field(
        "json",
        JsonObjectOptions::default().set_indexing_options(
            TextFieldIndexing::default()
                .set_tokenizer("whitespace")
                .set_index_option(IndexRecordOption::WithFreqsAndPositions),
        ),
    );
    let schema = sb.build();
    let index = Index::create_in_ram(schema.clone());
    let mut writer: IndexWriter = index.writer_with_num_threads(1, 50_000_000).unwrap();
    for _ in 0..num_docs {
        let doc = TantivyDocument::parse_json(
            &schema,
            r#"{"json": {"k": ["hello hello world", 5, 5, "hello"]}}"#,
        )
        .unwrap();
        writer.add_document(doc).unwrap();
    }
    writer.commit().unwrap();
    let searcher = index.reader().unwrap().searcher();
    let inv = searcher.segment_reader(0).inverted_index(json).unwrap();

    let mut text_term = Term::from_field_json_path(json, "k", false);
    text_term.append_type_and_str("hello");
    let mut num_term = Term::from_field_json_path(json, "k", false);
    num_term.append_type_and_fast_value(5i64);

    let mut positions = Vec::new();
    let mut p = inv
        .read_postings(&text_term, IndexRecordOption::WithFreqsAndPositions)
        .unwrap()
        .unwrap();
    let mut n = 0;
    while p.doc() != TERMINATED {
        assert_eq!(p.term_freq(), 3);
        p.positions(&mut positions);
        assert_eq!(positions, vec![0, 1, 4]);
        n += 1;
        p.advance();
    }
    assert_eq!(n, num_docs);

    let mut p = inv
        .read_postings(&num_term, IndexRecordOption::WithFreqsAndPositions)
        .unwrap()
        .unwrap();
    let mut n = 0;
    while p.doc() != TERMINATED {
        let tf = p.term_freq();
        p.positions(&mut positions);
        // whatever the term frequency reported for a term without recorded frequency is, the
        // positions must be consistent with it and must not be garbage.
        assert!(
            positions.is_empty() || positions == vec![0],
            "doc {} tf {tf} positions {positions:?}",
            p.doc()
        );
        n += 1;
        p.advance();
    }
    assert_eq!(n, num_docs);
}

#[test]
fn numeric_term_positions_short_list() {
    run(3);
}

#[test]
fn numeric_term_positions_long_list() {
    run(300);
}
