//! Property C02: commit opstamp / delete_all_documents / stamper.
use tantivy::collector::Count;
use tantivy::query::AllQuery;
use tantivy::schema::{Schema, Value, STORED, STRING};
use tantivy::{doc, Index, IndexWriter, TantivyDocument, Term};

fn schema() -> (Schema, tantivy::schema::Field) {
    let mut sb = Schema::builder();
    let id = sb.add_text_field("id", STRING | STORED);
    (sb.build(), id)
}

fn ids(index: &Index, id: tantivy::schema::Field) -> Vec<String> {
    let reader = index.reader().unwrap();
    let searcher = reader.searcher();
    let mut out = vec![];
    for sr in searcher.segment_readers() {
        let store = sr.get_store_reader(1).unwrap();
        for doc_id in sr.doc_ids_alive() {
            let d: TantivyDocument = store.get(doc_id).unwrap();
            out.push(d.get_first(id).unwrap().as_str().unwrap().to_string());
        }
    }
    out.sort();
    out
}

/// "The opstamp returned by commit ... is what the writer and the index metadata report as the
/// last commit."
#[test]
fn commit_opstamp_is_reported_by_writer() {
    let (schema, id) = schema();
    let index = Index::create_in_ram(schema);
    let mut w: IndexWriter = index.writer_with_num_threads(1, 15_000_000).unwrap();
    w.add_document(doc!(id => "a")).unwrap();
    w.add_document(doc!(id => "b")).unwrap();
    let op = w.commit().unwrap();
    assert_eq!(index.load_metas().unwrap().opstamp, op, "meta.json opstamp");
    assert_eq!(
        w.commit_opstamp(),
        op,
        "IndexWriter::commit_opstamp() must report the last commit"
    );
}

/// delete_all_documents must remove the documents added before it, even if they are still in the
/// indexing pipeline.
#[test]
fn delete_all_removes_docs_added_before_it() {
    let (schema, id) = schema();
    let index = Index::create_in_ram(schema);
    let mut w: IndexWriter = index.writer_with_num_threads(1, 15_000_000).unwrap();
    w.add_document(doc!(id => "a")).unwrap();
    w.delete_all_documents().unwrap();
    w.add_document(doc!(id => "b")).unwrap();
    w.commit().unwrap();
    assert_eq!(ids(&index, id), vec!["b".to_string()]);
}

/// A delete issued BEFORE an add must not remove the later document; delete_all_documents
/// rewinds the opstamp generator so stale deletes in the queue become "newer" than later adds.
#[test]
fn stale_delete_does_not_kill_doc_added_after_delete_all() {
    let (schema, id) = schema();
    let index = Index::create_in_ram(schema);
    let mut w: IndexWriter = index.writer_with_num_threads(1, 15_000_000).unwrap();
    for i in 0..5 {
        w.add_document(doc!(id => format!("old{i}"))).unwrap();
    }
    w.commit().unwrap();
    // no-op in call order: there is no document "x" yet.
    for _ in 0..3 {
        w.delete_term(Term::from_field_text(id, "x"));
    }
    w.delete_all_documents().unwrap();
    w.add_document(doc!(id => "x")).unwrap();
    w.add_document(doc!(id => "y")).unwrap();
    w.commit().unwrap();
    // a few more commits so that every queued delete gets its chance
    for i in 0..3 {
        w.add_document(doc!(id => format!("z{i}"))).unwrap();
        w.commit().unwrap();
    }
    let got = ids(&index, id);
    assert_eq!(
        got,
        vec!["x", "y", "z0", "z1", "z2"]
            .into_iter()
            .map(String::from)
            .collect::<Vec<_>>()
    );
}

/// Commit opstamps must grow, and be larger than every operation they include.
#[test]
fn commit_opstamp_monotonic_across_delete_all() {
    let (schema, id) = schema();
    let index = Index::create_in_ram(schema);
    let mut w: IndexWriter = index.writer_with_num_threads(1, 15_000_000).unwrap();
    let mut last_add = 0;
    for i in 0..10 {
        last_add = w.add_document(doc!(id => format!("old{i}"))).unwrap();
    }
    let c1 = w.commit().unwrap();
    assert!(c1 > last_add);
    let extra = w.add_document(doc!(id => "extra")).unwrap();
    assert!(extra > c1);
    w.delete_all_documents().unwrap();
    let c2 = w.commit().unwrap();
    assert!(
        c2 > c1,
        "second commit opstamp {c2} must be larger than first commit opstamp {c1}"
    );
    assert!(c2 > extra, "commit {c2} includes op {extra}");
    let searcher = index.reader().unwrap().searcher();
    assert_eq!(searcher.search(&AllQuery, &Count).unwrap(), 0);
}
