//! Properties C04 / C05 / C02: a merge of committed segments must not change the logical
//! content of the index, and readers must never see uncommitted work.
//!
//! After a writer is (re-)opened, or after a rollback, the opstamp generator restarts AT the
//! opstamp of the last commit, so the first operation gets an opstamp equal to the last commit
//! opstamp. A merge of committed segments applies all deletes with `opstamp <= commit_opstamp`
//! (`compute_deleted_bitset` stops only at `opstamp > target`), i.e. including that first,
//! uncommitted delete. The merged segment is then published in meta.json.
use tantivy::indexer::NoMergePolicy;
use tantivy::schema::{Schema, Value, STORED, STRING};
use tantivy::{doc, Index, IndexWriter, TantivyDocument, Term};

fn ids(index: &Index, id: tantivy::schema::Field) -> Vec<String> {
    // a brand new reader: it loads the last published meta.json
    let reader = index.reader().unwrap();
    let searcher = reader.searcher();
    let mut out = vec![];
    for sr in searcher.segment_readers() {
        let store = sr.get_store_reader(1).unwrap();
        for doc_id in sr.doc_ids_alive() {
            let d: TantivyDocument = store.get(doc_id).unwrap();
            out.push(d.get_first(id).unwrap().as_str().unwrap().to_string());
        }
    }
    out.sort();
    out
}

fn build_two_segments() -> (Index, tantivy::schema::Field) {
    let mut sb = Schema::builder();
    let id = sb.add_text_field("id", STRING | STORED);
    let index = Index::create_in_ram(sb.build());
    {
        let mut w: IndexWriter = index.writer_with_num_threads(1, 15_000_000).unwrap();
        w.set_merge_policy(Box::new(NoMergePolicy));
        w.add_document(doc!(id => "a")).unwrap();
        w.add_document(doc!(id => "b")).unwrap();
        w.commit().unwrap();
        w.add_document(doc!(id => "c")).unwrap();
        w.add_document(doc!(id => "d")).unwrap();
        w.commit().unwrap();
        w.wait_merging_threads().unwrap();
    }
    assert_eq!(index.searchable_segment_ids().unwrap().len(), 2);
    (index, id)
}

#[test]
fn merge_after_reopen_must_not_publish_uncommitted_delete() {
    let (index, id) = build_two_segments();
    let all = vec!["a", "b", "c", "d"];
    assert_eq!(ids(&index, id), all);

    // re-open a writer, issue a delete but DO NOT commit it
    let mut w: IndexWriter = index.writer_with_num_threads(1, 15_000_000).unwrap();
    w.set_merge_policy(Box::new(NoMergePolicy));
    w.delete_term(Term::from_field_text(id, "a"));
    let segment_ids = index.searchable_segment_ids().unwrap();
    w.merge(&segment_ids).wait().unwrap();

    // Nothing was committed: a fresh reader must still see the last commit.
    assert_eq!(
        ids(&index, id),
        all,
        "a merge published a delete that was never committed"
    );
    // ... and rollback must restore precisely the last committed state.
    w.rollback().unwrap();
    assert_eq!(ids(&index, id), all, "state after rollback");
}

#[test]
fn merge_after_rollback_must_not_publish_uncommitted_delete() {
    let (index, id) = build_two_segments();
    let all = vec!["a", "b", "c", "d"];

    let mut w: IndexWriter = index.writer_with_num_threads(1, 15_000_000).unwrap();
    w.set_merge_policy(Box::new(NoMergePolicy));
    w.add_document(doc!(id => "e")).unwrap();
    w.commit().unwrap();
    w.add_document(doc!(id => "tmp")).unwrap();
    w.rollback().unwrap();
    w.set_merge_policy(Box::new(NoMergePolicy));
    let all5 = vec!["a", "b", "c", "d", "e"];
    assert_eq!(ids(&index, id), all5);

    w.delete_term(Term::from_field_text(id, "c"));
    let segment_ids = index.searchable_segment_ids().unwrap();
    w.merge(&segment_ids).wait().unwrap();
    assert_eq!(
        ids(&index, id),
        all5,
        "a merge published a delete that was never committed"
    );
    drop(w);
    let _ = all;
}
