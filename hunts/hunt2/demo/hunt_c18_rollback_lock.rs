//! Property C18: "At most one IndexWriter can exist for an index directory at any time ...
//! while one is alive every attempt to create another fails with a lock error ... The lock is
//! kept across rollback".
//!
//! `IndexWriter::rollback` moves the directory lock out of `self` and hands it to
//! `IndexWriter::new`. If that construction fails (here: a transient read error on meta.json),
//! the lock guard is dropped, but the original writer object is still there, alive, and now
//! lock-less.
use std::io;
use std::path::{Path, PathBuf};
use std::sync::atomic::{AtomicBool, Ordering};
use std::sync::Arc;

use tantivy::directory::error::{DeleteError, OpenReadError, OpenWriteError};
use tantivy::directory::{
    Directory, FileHandle, RamDirectory, WatchCallback, WatchHandle, WritePtr,
};
use tantivy::schema::{Schema, STORED, STRING};
use tantivy::{doc, Index, IndexSettings, IndexWriter};

#[derive(Clone, Debug)]
struct FaultyDirectory {
    inner: RamDirectory,
    fail_meta_read: Arc<AtomicBool>,
}

impl Directory for FaultyDirectory {
    fn get_file_handle(&self, path: &Path) -> Result<Arc<dyn FileHandle>, OpenReadError> {
        self.inner.get_file_handle(path)
    }
    fn delete(&self, path: &Path) -> Result<(), DeleteError> {
        self.inner.delete(path)
    }
    fn exists(&self, path: &Path) -> Result<bool, OpenReadError> {
        self.inner.exists(path)
    }
    fn open_write(&self, path: &Path) -> Result<WritePtr, OpenWriteError> {
        self.inner.open_write(path)
    }
    fn atomic_read(&self, path: &Path) -> Result<Vec<u8>, OpenReadError> {
        if path == Path::new("meta.json") && self.fail_meta_read.load(Ordering::SeqCst) {
            return Err(OpenReadError::IoError {
                io_error: Arc::new(io::Error::other("injected transient read error")),
                filepath: PathBuf::from(path),
            });
        }
        self.inner.atomic_read(path)
    }
    fn atomic_write(&self, path: &Path, data: &[u8]) -> io::Result<()> {
        self.inner.atomic_write(path, data)
    }
    fn sync_directory(&self) -> io::Result<()> {
        self.inner.sync_directory()
    }
    fn watch(&self, watch_callback: WatchCallback) -> tantivy::Result<WatchHandle> {
        self.inner.watch(watch_callback)
    }
}

#[test]
fn failed_rollback_must_not_release_the_writer_lock() {
    let mut sb = Schema::builder();
    let id = sb.add_text_field("id", STRING | STORED);
    let fail_meta_read = Arc::new(AtomicBool::new(false));
    let dir = FaultyDirectory {
        inner: RamDirectory::create(),
        fail_meta_read: fail_meta_read.clone(),
    };
    let index = Index::create(dir, sb.build(), IndexSettings::default()).unwrap();

    let mut w1: IndexWriter = index.writer_with_num_threads(1, 15_000_000).unwrap();
    w1.add_document(doc!(id => "a")).unwrap();
    w1.commit().unwrap();

    // sanity: while w1 is alive, no second writer.
    assert!(index
        .writer_with_num_threads::<tantivy::TantivyDocument>(1, 15_000_000)
        .is_err());

    // a transient I/O error makes the rollback fail
    w1.add_document(doc!(id => "b")).unwrap();
    fail_meta_read.store(true, Ordering::SeqCst);
    assert!(w1.rollback().is_err());
    fail_meta_read.store(false, Ordering::SeqCst);

    // w1 still exists (it has not been dropped). A second writer must be refused.
    let w2 = index.writer_with_num_threads::<tantivy::TantivyDocument>(1, 15_000_000);
    assert!(
        w2.is_err(),
        "a second IndexWriter was created while the first one is still alive"
    );
    drop(w1);
}

#[test]
fn rollback_can_be_retried_after_a_failed_rollback() {
    let mut sb = Schema::builder();
    let id = sb.add_text_field("id", STRING | STORED);
    let fail_meta_read = Arc::new(AtomicBool::new(false));
    let dir = FaultyDirectory {
        inner: RamDirectory::create(),
        fail_meta_read: fail_meta_read.clone(),
    };
    let index = Index::create(dir, sb.build(), IndexSettings::default()).unwrap();
    let mut w1: IndexWriter = index.writer_with_num_threads(1, 15_000_000).unwrap();
    w1.add_document(doc!(id => "a")).unwrap();
    w1.commit().unwrap();
    w1.add_document(doc!(id => "b")).unwrap();
    fail_meta_read.store(true, Ordering::SeqCst);
    assert!(w1.rollback().is_err());
    fail_meta_read.store(false, Ordering::SeqCst);
    // retrying panics: "The IndexWriter does not have any lock. This is a bug, please report."
    let res = std::panic::catch_unwind(std::panic::AssertUnwindSafe(|| w1.rollback()));
    assert!(res.is_ok(), "rollback panicked instead of returning");
}
