//! C18 exploration on both Directory implementations.
use std::sync::{Arc, Barrier};

use tantivy::directory::MmapDirectory;
use tantivy::schema::{Schema, STORED, STRING};
use tantivy::{doc, Index, IndexWriter, TantivyDocument};

fn schema() -> (Schema, tantivy::schema::Field) {
    let mut sb = Schema::builder();
    let id = sb.add_text_field("id", STRING | STORED);
    (sb.build(), id)
}

fn try_writer(index: &Index) -> tantivy::Result<IndexWriter<TantivyDocument>> {
    index.writer_with_num_threads(1, 15_000_000)
}

fn sequences(index: Index, other: Index, id: tantivy::schema::Field) {
    // failed constructions
    assert!(index
        .writer_with_num_threads::<TantivyDocument>(1, 1_000)
        .is_err());
    assert!(index
        .writer_with_num_threads::<TantivyDocument>(2, usize::MAX)
        .is_err());
    let mut w = try_writer(&index).expect("writer after failed constructions");
    assert!(try_writer(&index).is_err());
    assert!(try_writer(&other).is_err());
    // failed construction while locked does not disturb
    assert!(other
        .writer_with_num_threads::<TantivyDocument>(1, 1_000)
        .is_err());
    w.add_document(doc!(id => "a")).unwrap();
    w.commit().unwrap();
    w.add_document(doc!(id => "b")).unwrap();
    w.rollback().unwrap();
    assert!(try_writer(&index).is_err(), "after rollback");
    assert!(try_writer(&other).is_err(), "after rollback (other)");
    w.add_document(doc!(id => "c")).unwrap();
    w.prepare_commit().unwrap().abort().unwrap();
    assert!(try_writer(&other).is_err(), "after abort");
    w.add_document(doc!(id => "d")).unwrap();
    w.commit().unwrap();
    w.wait_merging_threads().unwrap();
    let w2 = try_writer(&other).expect("after wait_merging_threads");
    assert!(try_writer(&index).is_err());
    drop(w2);

    // racing creations
    for _ in 0..20 {
        let barrier = Arc::new(Barrier::new(4));
        let handles: Vec<_> = (0..4)
            .map(|i| {
                let idx = if i % 2 == 0 { index.clone() } else { other.clone() };
                let barrier = barrier.clone();
                std::thread::spawn(move || {
                    barrier.wait();
                    let r = try_writer(&idx);
                    barrier.wait();
                    r.is_ok()
                })
            })
            .collect();
        let oks = handles
            .into_iter()
            .map(|h| h.join().unwrap())
            .filter(|b| *b)
            .count();
        assert_eq!(oks, 1, "exactly one of the racing creations must succeed");
    }
    let w3 = try_writer(&index).expect("after races");
    drop(w3);
}

#[test]
fn ram_directory_sequences() {
    let (schema, id) = schema();
    let index = Index::create_in_ram(schema);
    let other = index.clone();
    sequences(index, other, id);
}

#[test]
fn mmap_directory_sequences() {
    let (schema, id) = schema();
    let tmp = tempfile::tempdir().unwrap();
    let index = Index::create_in_dir(tmp.path(), schema).unwrap();
    let other = Index::open(MmapDirectory::open(tmp.path()).unwrap()).unwrap();
    sequences(index, other, id);
}
