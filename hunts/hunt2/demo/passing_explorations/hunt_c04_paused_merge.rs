//! C04 exploration: a merge thread paused (by the Directory) right after it has applied the
//! deletes to its sources and before it writes the merged segment; other operations run
//! meanwhile.
use std::io;
use std::path::Path;
use std::sync::{Arc, Condvar, Mutex};
use std::time::Duration;

use tantivy::directory::error::{DeleteError, OpenReadError, OpenWriteError};
use tantivy::directory::{
    Directory, FileHandle, RamDirectory, WatchCallback, WatchHandle, WritePtr,
};
use tantivy::indexer::{MergeCandidate, MergePolicy, NoMergePolicy, UserOperation};
use tantivy::schema::{Field, Schema, Value, STORED, STRING};
use tantivy::{doc, Index, IndexSettings, IndexWriter, SegmentMeta, TantivyDocument, Term};

#[derive(Default, Debug)]
struct GateState {
    armed: bool,
    paused: bool,
    released: bool,
}
#[derive(Default, Debug)]
struct Gate {
    state: Mutex<GateState>,
    cv: Condvar,
}
impl Gate {
    fn arm(&self) {
        let mut s = self.state.lock().unwrap();
        s.armed = true;
        s.paused = false;
        s.released = false;
    }
    fn wait_paused(&self) {
        let mut s = self.state.lock().unwrap();
        while !s.paused {
            let (g, t) = self.cv.wait_timeout(s, Duration::from_secs(20)).unwrap();
            s = g;
            assert!(!t.timed_out(), "merge thread never reached the gate");
        }
    }
    fn release(&self) {
        let mut s = self.state.lock().unwrap();
        s.released = true;
        s.armed = false;
        self.cv.notify_all();
    }
    fn pass(&self) {
        let mut s = self.state.lock().unwrap();
        if !s.armed {
            return;
        }
        s.armed = false;
        s.paused = true;
        self.cv.notify_all();
        while !s.released {
            s = self.cv.wait(s).unwrap();
        }
    }
}

#[derive(Clone, Debug)]
struct PausingDirectory {
    inner: RamDirectory,
    gate: Arc<Gate>,
}

impl Directory for PausingDirectory {
    fn get_file_handle(&self, path: &Path) -> Result<Arc<dyn FileHandle>, OpenReadError> {
        self.inner.get_file_handle(path)
    }
    fn delete(&self, path: &Path) -> Result<(), DeleteError> {
        self.inner.delete(path)
    }
    fn exists(&self, path: &Path) -> Result<bool, OpenReadError> {
        self.inner.exists(path)
    }
    fn open_write(&self, path: &Path) -> Result<WritePtr, OpenWriteError> {
        let is_merge_thread = std::thread::current()
            .name()
            .map(|n| n.starts_with("merge_thread"))
            .unwrap_or(false);
        if is_merge_thread && path.to_string_lossy().ends_with(".store") {
            self.gate.pass();
        }
        self.inner.open_write(path)
    }
    fn atomic_read(&self, path: &Path) -> Result<Vec<u8>, OpenReadError> {
        self.inner.atomic_read(path)
    }
    fn atomic_write(&self, path: &Path, data: &[u8]) -> io::Result<()> {
        self.inner.atomic_write(path, data)
    }
    fn sync_directory(&self) -> io::Result<()> {
        self.inner.sync_directory()
    }
    fn watch(&self, watch_callback: WatchCallback) -> tantivy::Result<WatchHandle> {
        self.inner.watch(watch_callback)
    }
}

fn ids(index: &Index, id: Field) -> Vec<String> {
    let reader = index.reader().unwrap();
    let searcher = reader.searcher();
    let mut out = vec![];
    for sr in searcher.segment_readers() {
        let store = sr.get_store_reader(1).unwrap();
        for doc_id in sr.doc_ids_alive() {
            let d: TantivyDocument = store.get(doc_id).unwrap();
            out.push(d.get_first(id).unwrap().as_str().unwrap().to_string());
        }
    }
    out.sort();
    out
}

fn setup() -> (Index, Field, Arc<Gate>, IndexWriter) {
    let mut sb = Schema::builder();
    let id = sb.add_text_field("id", STRING | STORED);
    let gate = Arc::new(Gate::default());
    let dir = PausingDirectory {
        inner: RamDirectory::create(),
        gate: gate.clone(),
    };
    let index = Index::create(dir, sb.build(), IndexSettings::default()).unwrap();
    let mut w: IndexWriter = index.writer_with_num_threads(1, 15_000_000).unwrap();
    w.set_merge_policy(Box::new(NoMergePolicy));
    w.add_document(doc!(id => "a")).unwrap();
    w.add_document(doc!(id => "b")).unwrap();
    w.commit().unwrap();
    w.add_document(doc!(id => "c")).unwrap();
    w.add_document(doc!(id => "d")).unwrap();
    w.commit().unwrap();
    (index, id, gate, w)
}

#[test]
fn delete_committed_during_merge_is_reflected() {
    let (index, id, gate, mut w) = setup();
    let seg_ids = index.searchable_segment_ids().unwrap();
    gate.arm();
    let fut = w.merge(&seg_ids);
    gate.wait_paused();
    w.delete_term(Term::from_field_text(id, "a"));
    w.add_document(doc!(id => "e")).unwrap();
    w.commit().unwrap();
    w.delete_term(Term::from_field_text(id, "d")); // uncommitted
    assert_eq!(ids(&index, id), vec!["b", "c", "d", "e"]);
    gate.release();
    let merged = fut.wait().unwrap();
    assert!(merged.is_some());
    assert_eq!(ids(&index, id), vec!["b", "c", "d", "e"]);
    assert_eq!(index.searchable_segment_ids().unwrap().len(), 2);
    w.commit().unwrap();
    assert_eq!(ids(&index, id), vec!["b", "c", "e"]);
}

#[test]
fn source_wiped_during_merge() {
    let (index, id, gate, mut w) = setup();
    let seg_ids = index.searchable_segment_ids().unwrap();
    gate.arm();
    let fut = w.merge(&seg_ids);
    gate.wait_paused();
    w.delete_term(Term::from_field_text(id, "a"));
    w.delete_term(Term::from_field_text(id, "b"));
    w.commit().unwrap();
    assert_eq!(ids(&index, id), vec!["c", "d"]);
    gate.release();
    let _ = fut.wait();
    assert_eq!(ids(&index, id), vec!["c", "d"]);
    w.add_document(doc!(id => "e")).unwrap();
    w.commit().unwrap();
    assert_eq!(ids(&index, id), vec!["c", "d", "e"]);
}

#[test]
fn rollback_during_merge() {
    let (index, id, gate, mut w) = setup();
    let seg_ids = index.searchable_segment_ids().unwrap();
    gate.arm();
    let fut = w.merge(&seg_ids);
    gate.wait_paused();
    w.delete_term(Term::from_field_text(id, "a"));
    w.add_document(doc!(id => "e")).unwrap();
    w.rollback().unwrap();
    w.set_merge_policy(Box::new(NoMergePolicy));
    w.run(Vec::<UserOperation>::new()).unwrap();
    w.add_document(doc!(id => "f")).unwrap();
    w.commit().unwrap();
    gate.release();
    let _ = fut.wait();
    assert_eq!(ids(&index, id), vec!["a", "b", "c", "d", "f"]);
    w.add_document(doc!(id => "g")).unwrap();
    w.commit().unwrap();
    assert_eq!(ids(&index, id), vec!["a", "b", "c", "d", "f", "g"]);
}

#[test]
fn writer_replaced_during_merge() {
    let (index, id, gate, mut w) = setup();
    let seg_ids = index.searchable_segment_ids().unwrap();
    gate.arm();
    let fut = w.merge(&seg_ids);
    gate.wait_paused();
    drop(w);
    let mut w2: IndexWriter = index.writer_with_num_threads(1, 15_000_000).unwrap();
    w2.set_merge_policy(Box::new(NoMergePolicy));
    w2.run(Vec::<UserOperation>::new()).unwrap();
    w2.delete_term(Term::from_field_text(id, "a"));
    w2.add_document(doc!(id => "f")).unwrap();
    w2.commit().unwrap();
    gate.release();
    let _ = fut.wait();
    std::thread::sleep(Duration::from_millis(200));
    assert_eq!(ids(&index, id), vec!["b", "c", "d", "f"]);
    w2.add_document(doc!(id => "g")).unwrap();
    w2.commit().unwrap();
    assert_eq!(ids(&index, id), vec!["b", "c", "d", "f", "g"]);
}

#[test]
fn delete_all_during_merge() {
    let (index, id, gate, mut w) = setup();
    let seg_ids = index.searchable_segment_ids().unwrap();
    gate.arm();
    let fut = w.merge(&seg_ids);
    gate.wait_paused();
    w.delete_all_documents().unwrap();
    gate.release();
    let _ = fut.wait();
    assert_eq!(ids(&index, id), vec!["a", "b", "c", "d"], "nothing committed yet");
    w.add_document(doc!(id => "z")).unwrap();
    w.commit().unwrap();
    assert_eq!(ids(&index, id), vec!["z"]);
}

/// merges every group of >= 2 segments it is shown (used for uncommitted segments)
#[derive(Debug)]
struct MergeAll;
impl MergePolicy for MergeAll {
    fn compute_merge_candidates(&self, segments: &[SegmentMeta]) -> Vec<MergeCandidate> {
        if segments.len() >= 2 {
            vec![MergeCandidate(segments.iter().map(|s| s.id()).collect())]
        } else {
            vec![]
        }
    }
}

#[test]
fn uncommitted_merge_with_commit_in_between() {
    let mut sb = Schema::builder();
    let id = sb.add_text_field("id", STRING | STORED);
    let gate = Arc::new(Gate::default());
    let dir = PausingDirectory {
        inner: RamDirectory::create(),
        gate: gate.clone(),
    };
    let index = Index::create(dir, sb.build(), IndexSettings::default()).unwrap();
    let mut w: IndexWriter = index.writer_with_num_threads(1, 15_000_000).unwrap();
    w.set_merge_policy(Box::new(MergeAll));
    w.add_document(doc!(id => "a")).unwrap();
    w.add_document(doc!(id => "x")).unwrap();
    w.delete_term(Term::from_field_text(id, "x")); // in-memory alive bitset
    w.add_document(doc!(id => "b")).unwrap();
    drop(w.prepare_commit().unwrap()); // uncommitted segment #1
    gate.arm();
    w.add_document(doc!(id => "c")).unwrap();
    w.add_document(doc!(id => "d")).unwrap();
    drop(w.prepare_commit().unwrap()); // uncommitted segment #2 -> merge starts
    gate.wait_paused();
    w.set_merge_policy(Box::new(NoMergePolicy));
    w.delete_term(Term::from_field_text(id, "a"));
    w.add_document(doc!(id => "e")).unwrap();
    w.commit().unwrap();
    assert_eq!(ids(&index, id), vec!["b", "c", "d", "e"]);
    w.delete_term(Term::from_field_text(id, "d")); // uncommitted
    gate.release();
    // wait for the merge to be over
    for _ in 0..200 {
        if index.searchable_segment_ids().unwrap().len() == 2 {
            break;
        }
        std::thread::sleep(Duration::from_millis(20));
    }
    assert_eq!(index.searchable_segment_ids().unwrap().len(), 2, "merge published");
    assert_eq!(ids(&index, id), vec!["b", "c", "d", "e"]);
    w.commit().unwrap();
    assert_eq!(ids(&index, id), vec!["b", "c", "e"]);
    w.wait_merging_threads().unwrap();
    assert_eq!(ids(&index, id), vec!["b", "c", "e"]);
}
