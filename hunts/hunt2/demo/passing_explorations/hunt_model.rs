//! Model-based exploration for C02 / C04 (random histories, full content oracle).
use std::collections::BTreeMap;

use tantivy::indexer::{LogMergePolicy, NoMergePolicy, UserOperation};
use tantivy::postings::Postings;
use tantivy::schema::{
    Field, IndexRecordOption, Schema, Value, FAST, INDEXED, STORED, STRING, TEXT,
};
use tantivy::{
    doc, DocSet, Index, IndexSettings, IndexSortByField, IndexWriter, Order, TantivyDocument, Term,
    TERMINATED,
};

struct Rng(u64);
impl Rng {
    fn next(&mut self) -> u64 {
        self.0 ^= self.0 << 13;
        self.0 ^= self.0 >> 7;
        self.0 ^= self.0 << 17;
        self.0
    }
    fn below(&mut self, n: u64) -> u64 {
        self.next() % n
    }
}

#[derive(Clone, Debug, PartialEq, Eq, PartialOrd, Ord)]
struct MDoc {
    id: String,
    val: Option<u64>,
    text: String,
}

fn mkdoc(id: Field, val: Field, text: Field, m: &MDoc) -> TantivyDocument {
    let mut d = doc!(id => m.id.clone(), text => m.text.clone());
    if let Some(v) = m.val {
        d.add_u64(val, v);
    }
    d
}

struct Fields {
    id: Field,
    val: Field,
    text: Field,
}

fn check(index: &Index, f: &Fields, model: &[MDoc], sort: Option<Order>, ctx: &str) {
    let reader = index.reader().unwrap();
    let searcher = reader.searcher();
    let mut got: Vec<MDoc> = vec![];
    for sr in searcher.segment_readers() {
        let store = sr.get_store_reader(1).unwrap();
        let ff = sr.fast_fields().u64("val").unwrap();
        let norms = sr.get_fieldnorms_reader(f.text).unwrap();
        let mut seg_docs: BTreeMap<u32, MDoc> = BTreeMap::new();
        let mut prev_val: Option<u64> = None;
        for d in sr.doc_ids_alive() {
            let sd: TantivyDocument = store.get(d).unwrap();
            let m = MDoc {
                id: sd.get_first(f.id).unwrap().as_str().unwrap().to_string(),
                val: sd.get_first(f.val).map(|v| v.as_u64().unwrap()),
                text: sd.get_first(f.text).unwrap().as_str().unwrap().to_string(),
            };
            assert_eq!(ff.first(d), m.val, "{ctx}: fast field of {m:?}");
            let ntok = m.text.split_whitespace().count() as u32;
            assert_eq!(norms.fieldnorm(d), ntok, "{ctx}: fieldnorm of {m:?}");
            if let Some(order) = sort {
                let v = m.val.unwrap_or(0);
                if let Some(p) = prev_val {
                    match order {
                        Order::Asc => assert!(p <= v, "{ctx}: segment not sorted asc"),
                        Order::Desc => assert!(p >= v, "{ctx}: segment not sorted desc"),
                    }
                }
                prev_val = Some(v);
            }
            seg_docs.insert(d, m.clone());
            got.push(m);
        }
        // reconstruct texts from postings+positions
        let inv = sr.inverted_index(f.text).unwrap();
        let mut recon: BTreeMap<u32, BTreeMap<u32, String>> = BTreeMap::new();
        let mut stream = inv.terms().stream().unwrap();
        while stream.advance() {
            let tok = String::from_utf8(stream.key().to_vec()).unwrap();
            let ti = stream.value().clone();
            let mut p = inv
                .read_postings_from_terminfo(&ti, IndexRecordOption::WithFreqsAndPositions)
                .unwrap();
            let mut positions = vec![];
            while p.doc() != TERMINATED {
                let d = p.doc();
                p.positions(&mut positions);
                assert_eq!(p.term_freq() as usize, positions.len(), "{ctx}: tf");
                if seg_docs.contains_key(&d) {
                    for &pos in &positions {
                        let prev = recon.entry(d).or_default().insert(pos, tok.clone());
                        assert!(prev.is_none(), "{ctx}: two tokens at the same position");
                    }
                }
                p.advance();
            }
        }
        for (d, m) in &seg_docs {
            let toks: Vec<String> = recon
                .get(d)
                .map(|m| m.values().cloned().collect())
                .unwrap_or_default();
            let exp: Vec<String> = m.text.split_whitespace().map(String::from).collect();
            assert_eq!(toks, exp, "{ctx}: postings/positions of {m:?}");
            if let Some(pm) = recon.get(d) {
                let ps: Vec<u32> = pm.keys().cloned().collect();
                assert_eq!(ps, (0..exp.len() as u32).collect::<Vec<_>>(), "{ctx}: positions");
            }
        }
        // id postings
        let inv_id = sr.inverted_index(f.id).unwrap();
        for (d, m) in &seg_docs {
            let mut p = inv_id
                .read_postings(&Term::from_field_text(f.id, &m.id), IndexRecordOption::Basic)
                .unwrap()
                .expect("id term");
            let mut found = false;
            while p.doc() != TERMINATED {
                if p.doc() == *d {
                    found = true;
                }
                p.advance();
            }
            assert!(found, "{ctx}: id posting of {m:?}");
        }
        // val postings
        let inv_val = sr.inverted_index(f.val).unwrap();
        for (d, m) in &seg_docs {
            let Some(mval) = m.val else { continue };
            let mut p = inv_val
                .read_postings(&Term::from_field_u64(f.val, mval), IndexRecordOption::Basic)
                .unwrap()
                .expect("val term");
            let mut found = false;
            while p.doc() != TERMINATED {
                if p.doc() == *d {
                    found = true;
                }
                p.advance();
            }
            assert!(found, "{ctx}: val posting of {m:?}");
        }
    }
    got.sort();
    let mut exp = model.to_vec();
    exp.sort();
    assert_eq!(got, exp, "{ctx}: live documents");
}

fn run_history(seed: u64, sort: Option<Order>, threads: usize, merge: bool, steps: usize) {
    run_history_bs(seed, sort, threads, merge, steps, 16_384, true)
}

fn run_history_bs(
    seed: u64,
    sort: Option<Order>,
    threads: usize,
    merge: bool,
    steps: usize,
    blocksize: usize,
    dedicated: bool,
) {
    let mut sb = Schema::builder();
    let id = sb.add_text_field("id", STRING | STORED);
    let val = sb.add_u64_field("val", FAST | STORED | INDEXED);
    let text = sb.add_text_field("text", TEXT | STORED);
    let f = Fields { id, val, text };
    let settings = IndexSettings {
        sort_by_field: sort.map(|order| IndexSortByField {
            field: "val".to_string(),
            order,
        }),
        docstore_blocksize: blocksize,
        docstore_compress_dedicated_thread: dedicated,
        ..Default::default()
    };
    let index = Index::builder()
        .schema(sb.build())
        .settings(settings)
        .create_in_ram()
        .unwrap();
    let mut rng = Rng(seed.wrapping_mul(0x9E3779B97F4A7C15) | 1);
    let new_writer = |index: &Index, rng: &mut Rng| -> IndexWriter {
        let w: IndexWriter = index
            .writer_with_num_threads(threads, 15_000_000 * threads)
            .unwrap();
        if merge {
            let mut p = LogMergePolicy::default();
            p.set_min_num_segments(2 + rng.below(3) as usize);
            w.set_merge_policy(Box::new(p));
        } else {
            w.set_merge_policy(Box::new(NoMergePolicy));
        }
        // consume the opstamp equal to the last commit opstamp (known defect, see
        // hunt_c04_merge_uncommitted_delete.rs)
        w.run(Vec::<UserOperation>::new()).unwrap();
        w
    };
    let mut w = new_writer(&index, &mut rng);
    let mut committed: Vec<MDoc> = vec![];
    let mut pending: Vec<MDoc> = vec![];
    let mut next_id = 0u64;
    let mut last_commit = 0u64;
    let mk = |rng: &mut Rng, next_id: &mut u64| -> MDoc {
        let n = rng.below(6);
        let text: Vec<String> = (0..n).map(|_| format!("t{}", rng.below(5))).collect();
        let m = MDoc {
            id: format!("id{}", *next_id),
            val: if rng.below(6) == 0 { None } else { Some(rng.below(7)) },
            text: text.join(" "),
        };
        *next_id += 1;
        m
    };
    for step in 0..steps {
        let ctx = format!("seed={seed} sort={sort:?} threads={threads} merge={merge} step={step}");
        match rng.below(100) {
            0..=39 => {
                let n = 1 + rng.below(if blocksize < 100 { 12 } else { 4 });
                for _ in 0..n {
                    let m = mk(&mut rng, &mut next_id);
                    w.add_document(mkdoc(id, val, text, &m))
                        .unwrap();
                    pending.push(m);
                }
            }
            40..=54 => {
                if next_id > 0 {
                    let target = format!("id{}", rng.below(next_id));
                    w.delete_term(Term::from_field_text(id, &target));
                    pending.retain(|m| m.id != target);
                }
            }
            55..=59 => {
                let tok = format!("t{}", rng.below(5));
                w.delete_term(Term::from_field_text(text, &tok));
                pending.retain(|m| !m.text.split_whitespace().any(|t| t == tok));
            }
            60..=64 => {
                let v = rng.below(7);
                w.delete_term(Term::from_field_u64(val, v));
                pending.retain(|m| m.val != Some(v));
            }
            65..=72 => {
                // batch
                let mut ops = vec![];
                let n = rng.below(5);
                for _ in 0..n {
                    if rng.below(3) == 0 && next_id > 0 {
                        let target = format!("id{}", rng.below(next_id));
                        ops.push(UserOperation::Delete(Term::from_field_text(id, &target)));
                        pending.retain(|m| m.id != target);
                    } else {
                        let m = mk(&mut rng, &mut next_id);
                        ops.push(UserOperation::Add(
                            mkdoc(id, val, text, &m),
                        ));
                        pending.push(m);
                    }
                }
                w.run(ops).unwrap();
            }
            73..=84 => {
                let op = if rng.below(2) == 0 {
                    w.commit().unwrap()
                } else {
                    let mut pc = w.prepare_commit().unwrap();
                    pc.set_payload("p");
                    pc.commit().unwrap()
                };
                assert!(op > last_commit || last_commit == 0, "{ctx}: commit opstamp");
                last_commit = op;
                assert_eq!(index.load_metas().unwrap().opstamp, op);
                committed = pending.clone();
                check(&index, &f, &committed, sort, &ctx);
            }
            85..=87 => {
                w.rollback().unwrap();
                if !merge {
                    w.set_merge_policy(Box::new(NoMergePolicy));
                }
                w.run(Vec::<UserOperation>::new()).unwrap();
                pending = committed.clone();
                check(&index, &f, &committed, sort, &ctx);
            }
            88..=90 => {
                // flush to uncommitted segments without committing
                drop(w.prepare_commit().unwrap());
                check(&index, &f, &committed, sort, &ctx);
            }
            91..=93 => {
                let ids = index.searchable_segment_ids().unwrap();
                if ids.len() >= 2 {
                    let k = 2 + rng.below(ids.len() as u64 - 1) as usize;
                    let _ = w.merge(&ids[..k]).wait();
                    check(&index, &f, &committed, sort, &ctx);
                }
            }
            94..=96 => {
                if rng.below(2) == 0 {
                    w.wait_merging_threads().unwrap();
                } else {
                    drop(w);
                }
                check(&index, &f, &committed, sort, &ctx);
                pending = committed.clone();
                w = new_writer(&index, &mut rng);
            }
            _ => {
                w.prepare_commit().unwrap().abort().unwrap();
                if !merge {
                    w.set_merge_policy(Box::new(NoMergePolicy));
                }
                w.run(Vec::<UserOperation>::new()).unwrap();
                pending = committed.clone();
                check(&index, &f, &committed, sort, &ctx);
            }
        }
    }
    w.commit().unwrap();
    w.wait_merging_threads().unwrap();
    check(&index, &f, &pending, sort, &format!("seed={seed} final"));
}

#[test]
fn model_unsorted_single_thread() {
    for seed in 1..40 {
        run_history(seed, None, 1, seed % 2 == 0, 120);
    }
}

#[test]
fn model_unsorted_multi_thread() {
    for seed in 100..130 {
        run_history(seed, None, 3, seed % 2 == 0, 120);
    }
}

#[test]
fn model_sorted_asc() {
    for seed in 200..240 {
        run_history(seed, Some(Order::Asc), 1 + (seed % 3) as usize, seed % 2 == 0, 120);
    }
}

#[test]
fn model_sorted_desc() {
    for seed in 300..340 {
        run_history(seed, Some(Order::Desc), 1 + (seed % 3) as usize, seed % 2 == 0, 120);
    }
}

#[test]
fn model_small_docstore_blocks() {
    for seed in 400..440 {
        run_history_bs(seed, None, 1, true, 120, 30, seed % 2 == 0);
    }
    for seed in 440..460 {
        run_history_bs(seed, Some(Order::Asc), 1, true, 120, 30, seed % 2 == 0);
    }
}
