//! Property C18: "The lock is ... released when the writer ... fails to be constructed, so a new
//! writer can always be opened afterwards".
//!
//! `Directory::acquire_lock` (default implementation, used by RamDirectory and by every custom
//! Directory) creates the lock file with `open_write` and then flushes it. If the flush fails,
//! `try_acquire_lock` returns the I/O error without removing the file it has just created: no
//! `DirectoryLock` guard exists, so nothing will ever delete the lock file.
use std::io::{self, Write};
use std::path::Path;
use std::sync::atomic::{AtomicBool, Ordering};
use std::sync::Arc;

use tantivy::directory::error::{DeleteError, OpenReadError, OpenWriteError};
use tantivy::directory::{
    AntiCallToken, Directory, FileHandle, RamDirectory, TerminatingWrite, WatchCallback,
    WatchHandle, WritePtr,
};
use tantivy::schema::{Schema, STORED, STRING};
use tantivy::{Index, IndexSettings, TantivyDocument};

struct FailingFlush(Box<dyn TerminatingWrite + Send + Sync>);
impl Write for FailingFlush {
    fn write(&mut self, buf: &[u8]) -> io::Result<usize> {
        self.0.write(buf)
    }
    fn flush(&mut self) -> io::Result<()> {
        let _ = self.0.flush();
        Err(io::Error::other("injected: transient flush error"))
    }
}
impl TerminatingWrite for FailingFlush {
    fn terminate_ref(&mut self, token: AntiCallToken) -> io::Result<()> {
        self.0.terminate_ref(token)
    }
}

#[derive(Clone, Debug)]
struct FaultyDirectory {
    inner: RamDirectory,
    fail_lock_flush: Arc<AtomicBool>,
}

impl Directory for FaultyDirectory {
    fn get_file_handle(&self, path: &Path) -> Result<Arc<dyn FileHandle>, OpenReadError> {
        self.inner.get_file_handle(path)
    }
    fn delete(&self, path: &Path) -> Result<(), DeleteError> {
        self.inner.delete(path)
    }
    fn exists(&self, path: &Path) -> Result<bool, OpenReadError> {
        self.inner.exists(path)
    }
    fn open_write(&self, path: &Path) -> Result<WritePtr, OpenWriteError> {
        let w = self.inner.open_write(path)?;
        if path == Path::new(".tantivy-writer.lock") && self.fail_lock_flush.load(Ordering::SeqCst)
        {
            let inner = w.into_inner().map_err(|_| ()).expect("empty buffer");
            return Ok(io::BufWriter::new(Box::new(FailingFlush(inner))));
        }
        Ok(w)
    }
    fn atomic_read(&self, path: &Path) -> Result<Vec<u8>, OpenReadError> {
        self.inner.atomic_read(path)
    }
    fn atomic_write(&self, path: &Path, data: &[u8]) -> io::Result<()> {
        self.inner.atomic_write(path, data)
    }
    fn sync_directory(&self) -> io::Result<()> {
        self.inner.sync_directory()
    }
    fn watch(&self, watch_callback: WatchCallback) -> tantivy::Result<WatchHandle> {
        self.inner.watch(watch_callback)
    }
}

#[test]
fn failed_lock_acquisition_must_not_leave_the_lock_behind() {
    let mut sb = Schema::builder();
    sb.add_text_field("id", STRING | STORED);
    let fail = Arc::new(AtomicBool::new(false));
    let dir = FaultyDirectory {
        inner: RamDirectory::create(),
        fail_lock_flush: fail.clone(),
    };
    let index = Index::create(dir, sb.build(), IndexSettings::default()).unwrap();

    fail.store(true, Ordering::SeqCst);
    let res = index.writer_with_num_threads::<TantivyDocument>(1, 15_000_000);
    assert!(res.is_err(), "construction fails on the injected error");
    drop(res);
    fail.store(false, Ordering::SeqCst);

    // No writer exists. A new one must be constructible.
    let res = index.writer_with_num_threads::<TantivyDocument>(1, 15_000_000);
    assert!(
        res.is_ok(),
        "no IndexWriter exists but the index is locked forever: {:?}",
        res.err()
    );
}
