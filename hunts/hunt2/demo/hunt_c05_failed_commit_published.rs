//! Property C05: "Every reload of a reader ... yields exactly the state of one completed commit -
//! never a mixture of two, never uncommitted work".
//! Property C04: "Merging segments ... never changes what the index contains".
//!
//! `SegmentUpdater::schedule_commit` moves all segments to the committed register
//! (`segment_manager.commit`) BEFORE it writes meta.json. If writing meta.json fails, commit()
//! returns an error - the commit did not happen, meta.json still holds the previous commit - but
//! the in-memory committed register already contains the new segments and the applied deletes.
//! The next merge of committed segments calls `save_metas(previous_opstamp, previous_payload)`
//! with that register and publishes the content of the failed commit under the opstamp and
//! payload of the previous one.
use std::io;
use std::path::Path;
use std::sync::atomic::{AtomicBool, Ordering};
use std::sync::Arc;

use tantivy::directory::error::{DeleteError, OpenReadError, OpenWriteError};
use tantivy::directory::{
    Directory, FileHandle, RamDirectory, WatchCallback, WatchHandle, WritePtr,
};
use tantivy::indexer::NoMergePolicy;
use tantivy::schema::{Schema, Value, STORED, STRING};
use tantivy::{doc, Index, IndexSettings, IndexWriter, TantivyDocument, Term};

#[derive(Clone, Debug)]
struct FaultyDirectory {
    inner: RamDirectory,
    fail_meta_write: Arc<AtomicBool>,
}

impl Directory for FaultyDirectory {
    fn get_file_handle(&self, path: &Path) -> Result<Arc<dyn FileHandle>, OpenReadError> {
        self.inner.get_file_handle(path)
    }
    fn delete(&self, path: &Path) -> Result<(), DeleteError> {
        self.inner.delete(path)
    }
    fn exists(&self, path: &Path) -> Result<bool, OpenReadError> {
        self.inner.exists(path)
    }
    fn open_write(&self, path: &Path) -> Result<WritePtr, OpenWriteError> {
        self.inner.open_write(path)
    }
    fn atomic_read(&self, path: &Path) -> Result<Vec<u8>, OpenReadError> {
        self.inner.atomic_read(path)
    }
    fn atomic_write(&self, path: &Path, data: &[u8]) -> io::Result<()> {
        if path == Path::new("meta.json") && self.fail_meta_write.load(Ordering::SeqCst) {
            return Err(io::Error::other("injected: disk full while writing meta.json"));
        }
        self.inner.atomic_write(path, data)
    }
    fn sync_directory(&self) -> io::Result<()> {
        self.inner.sync_directory()
    }
    fn watch(&self, watch_callback: WatchCallback) -> tantivy::Result<WatchHandle> {
        self.inner.watch(watch_callback)
    }
}

fn ids(index: &Index, id: tantivy::schema::Field) -> Vec<String> {
    let reader = index.reader().unwrap();
    let searcher = reader.searcher();
    let mut out = vec![];
    for sr in searcher.segment_readers() {
        let store = sr.get_store_reader(1).unwrap();
        for doc_id in sr.doc_ids_alive() {
            let d: TantivyDocument = store.get(doc_id).unwrap();
            out.push(d.get_first(id).unwrap().as_str().unwrap().to_string());
        }
    }
    out.sort();
    out
}

#[test]
fn merge_must_not_publish_a_commit_that_failed() {
    let mut sb = Schema::builder();
    let id = sb.add_text_field("id", STRING | STORED);
    let fail_meta_write = Arc::new(AtomicBool::new(false));
    let dir = FaultyDirectory {
        inner: RamDirectory::create(),
        fail_meta_write: fail_meta_write.clone(),
    };
    let index = Index::create(dir, sb.build(), IndexSettings::default()).unwrap();
    let mut w: IndexWriter = index.writer_with_num_threads(1, 15_000_000).unwrap();
    w.set_merge_policy(Box::new(NoMergePolicy));
    w.add_document(doc!(id => "a")).unwrap();
    w.add_document(doc!(id => "b")).unwrap();
    let mut pc = w.prepare_commit().unwrap();
    pc.set_payload("first");
    let c1 = pc.commit().unwrap();
    assert_eq!(ids(&index, id), vec!["a", "b"]);

    // second commit: deletes "a", adds "c" - but writing meta.json fails.
    w.delete_term(Term::from_field_text(id, "a"));
    w.add_document(doc!(id => "c")).unwrap();
    fail_meta_write.store(true, Ordering::SeqCst);
    let mut pc = w.prepare_commit().unwrap();
    pc.set_payload("second");
    assert!(pc.commit().is_err(), "the commit is reported as failed");
    fail_meta_write.store(false, Ordering::SeqCst);

    // The failed commit is not visible (good).
    assert_eq!(ids(&index, id), vec!["a", "b"]);
    let metas = index.load_metas().unwrap();
    assert_eq!(metas.opstamp, c1);

    // Now a merge of the segments that the writer considers as committed.
    let seg_ids: Vec<_> = {
        // the writer's view: ask for the segments through a merge policy-free path: all
        // segment metas alive in the index that are not in meta.json yet are unknown to us, so
        // use the public listing of the writer's index.
        let mut v = index.searchable_segment_ids().unwrap();
        v.sort();
        v
    };
    assert_eq!(seg_ids.len(), 1);
    // Merging a single committed segment is enough to trigger `save_metas`.
    let _ = w.merge(&seg_ids).wait();

    let metas = index.load_metas().unwrap();
    assert_eq!(metas.opstamp, c1, "still the first commit according to meta.json");
    assert_eq!(metas.payload.as_deref(), Some("first"));
    assert_eq!(
        ids(&index, id),
        vec!["a", "b"],
        "meta.json says commit #1 ({c1}, payload 'first') but a reader sees the content of the \
         commit that failed"
    );
}
