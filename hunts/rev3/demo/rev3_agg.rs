use serde_json::{json, Value};
use tantivy::aggregation::agg_req::Aggregations;
use tantivy::aggregation::agg_result::AggregationResults;
use tantivy::aggregation::intermediate_agg_result::IntermediateAggregationResults;
use tantivy::aggregation::{AggregationCollector, DistributedAggregationCollector, Key};
use tantivy::query::AllQuery;
use tantivy::schema::{Schema, FAST, STRING};
use tantivy::{doc, Index, IndexWriter, TantivyDocument};

fn run(index: &Index, req: Value) -> Value {
    let agg: Aggregations = serde_json::from_value(req).unwrap();
    let collector = AggregationCollector::from_aggs(agg, Default::default());
    let reader = index.reader().unwrap();
    let searcher = reader.searcher();
    let res: AggregationResults = searcher.search(&AllQuery, &collector).unwrap();
    serde_json::to_value(res).unwrap()
}

fn f64_index(segments: &[&[f64]]) -> Index {
    let mut sb = Schema::builder();
    let f = sb.add_f64_field("f", FAST);
    let index = Index::create_in_ram(sb.build());
    let mut w: IndexWriter = index.writer_with_num_threads(1, 20_000_000).unwrap();
    for seg in segments {
        for v in *seg {
            w.add_document(doc!(f => *v)).unwrap();
        }
        w.commit().unwrap();
    }
    index
}

fn keys(res: &Value, name: &str) -> Vec<f64> {
    res[name]["buckets"]
        .as_array()
        .unwrap()
        .iter()
        .map(|b| b["key"].as_f64().unwrap())
        .collect()
}

#[test]
fn key_order_f64_terms() {
    let index = f64_index(&[&[-1.0, 2.0, 4.0, -2.5], &[0.5, 3.5, 2.0, 1e30, -1e30]]);
    let res = run(
        &index,
        json!({"t": {"terms": {"field": "f", "order": {"_key": "asc"}}}}),
    );
    assert_eq!(
        keys(&res, "t"),
        vec![-1e30, -2.5, -1.0, 0.5, 2.0, 3.5, 4.0, 1e30]
    );
    let res = run(
        &index,
        json!({"t": {"terms": {"field": "f", "order": {"_key": "desc"}, "size": 3}}}),
    );
    assert_eq!(keys(&res, "t"), vec![1e30, 4.0, 3.5]);
    let res = run(
        &index,
        json!({"t": {"terms": {"field": "f", "order": {"_key": "asc"}, "size": 3, "segment_size": 3}}}),
    );
    assert_eq!(keys(&res, "t"), vec![-1e30, -2.5, -1.0]);
}

#[test]
fn key_order_many_keys_no_panic() {
    // many keys of mixed normalised types: sort_by must not detect an inconsistent order
    let mut a: Vec<f64> = Vec::new();
    let mut b: Vec<f64> = Vec::new();
    for i in 0..500 {
        a.push(i as f64 - 250.0);
        b.push(i as f64 * 0.37 - 90.0);
        a.push(9.0e18 + (i as f64) * 4096.0);
        b.push(1.7e19 + (i as f64) * 8192.0);
        b.push(-9.0e18 - (i as f64) * 4096.0);
        a.push(1.9e19 + (i as f64) * 8192.0);
    }
    let index = f64_index(&[&a, &b]);
    let res = run(
        &index,
        json!({"t": {"terms": {"field": "f", "order": {"_key": "asc"}, "size": 10000, "segment_size": 10000}}}),
    );
    let got = keys(&res, "t");
    let mut sorted = got.clone();
    sorted.sort_by(|x, y| x.total_cmp(y));
    assert_eq!(got, sorted);
    let mut all: Vec<f64> = a.iter().chain(b.iter()).copied().collect();
    all.sort_by(|x, y| x.total_cmp(y));
    all.dedup();
    assert_eq!(got.len(), all.len());
}

#[test]
fn key_order_nan() {
    let index = f64_index(&[&[0.5, f64::NAN, 1.0, 2.5]]);
    let res = run(
        &index,
        json!({"t": {"terms": {"field": "f", "order": {"_key": "asc"}}}}),
    );
    assert_eq!(res["t"]["buckets"].as_array().unwrap().len(), 4);
}

#[test]
fn key_partial_ord_consistent_with_eq() {
    let ks = [
        Key::I64(1),
        Key::U64(1),
        Key::F64(1.0),
        Key::F64(f64::NAN),
        Key::Str("1".to_string()),
        Key::I64(-1),
        Key::U64(u64::MAX),
        Key::F64(1.8446744073709552e19),
    ];
    for a in &ks {
        for b in &ks {
            let eq = a == b;
            let cmp_eq = a.partial_cmp(b) == Some(std::cmp::Ordering::Equal);
            assert_eq!(eq, cmp_eq, "{a:?} vs {b:?}: == is {eq}, partial_cmp says {:?}", a.partial_cmp(b));
        }
    }
}

fn str_index(segments: &[&[Option<&str>]]) -> Index {
    let mut sb = Schema::builder();
    let s = sb.add_text_field("s", STRING | FAST);
    let n = sb.add_u64_field("n", FAST);
    let index = Index::create_in_ram(sb.build());
    let mut w: IndexWriter = index.writer_with_num_threads(1, 20_000_000).unwrap();
    let mut i = 0u64;
    for seg in segments {
        for v in *seg {
            i += 1;
            let mut d = TantivyDocument::default();
            if let Some(v) = v {
                d.add_text(s, v);
            }
            d.add_u64(n, i);
            w.add_document(d).unwrap();
        }
        w.commit().unwrap();
    }
    index
}

#[test]
fn terms_missing_merged() {
    let one = str_index(&[&[Some("c3"), Some("c3"), None, None, None, Some("a")]]);
    let two = str_index(&[&[Some("c3"), Some("c3"), Some("a")], &[None, None, None]]);
    let req = json!({"t": {"terms": {"field": "s", "missing": "c3", "order": {"_key": "asc"}},
        "aggs": {"sum": {"sum": {"field": "n"}}, "th": {"top_hits": {"size": 10, "sort": [{"n": "asc"}], "docvalue_fields": ["n"]}}}}});
    let r1 = run(&one, req.clone());
    let r2 = run(&two, req.clone());
    assert_eq!(r1["t"]["buckets"][1]["key"], "c3");
    assert_eq!(r1["t"]["buckets"][1]["doc_count"], 5);
    assert_eq!(r1["t"]["buckets"][1]["sum"]["value"], 15.0);
    assert_eq!(
        r1["t"]["buckets"][1]["th"]["hits"].as_array().unwrap().len(),
        5
    );
    assert_eq!(r2["t"]["buckets"][1]["doc_count"], 5);
    // min_doc_count 0, order by count
    let req = json!({"t": {"terms": {"field": "s", "missing": "c3", "min_doc_count": 0}}});
    let r1 = run(&one, req);
    assert_eq!(r1["t"]["buckets"][0]["key"], "c3");
    assert_eq!(r1["t"]["buckets"][0]["doc_count"], 5);
}

#[test]
fn top_hits_from_beyond() {
    let index = str_index(&[&[Some("a"), Some("a"), Some("b")], &[Some("a"), Some("c")]]);
    for (from, size) in [(0usize, 2usize), (1, 2), (2, 1), (3, 1), (5, 5), (1000, 1)] {
        let req = json!({"t": {"terms": {"field": "s", "order": {"_key": "asc"}},
            "aggs": {"th": {"top_hits": {"from": from, "size": size, "sort": [{"n": "asc"}], "docvalue_fields": ["n"]}}}}});
        let r = run(&index, req);
        let expected = |n: usize| n.saturating_sub(from).min(size);
        let b = r["t"]["buckets"].as_array().unwrap();
        assert_eq!(b[0]["th"]["hits"].as_array().unwrap().len(), expected(3), "a from {from} size {size}");
        assert_eq!(b[1]["th"]["hits"].as_array().unwrap().len(), expected(1), "b from {from} size {size}");
        assert_eq!(b[2]["th"]["hits"].as_array().unwrap().len(), expected(1), "c from {from} size {size}");
        if from == 1 && size == 2 {
            let ns: Vec<u64> = b[0]["th"]["hits"]
                .as_array()
                .unwrap()
                .iter()
                .map(|h| h["sort"][0].as_u64().unwrap())
                .collect();
            assert_eq!(ns, vec![2, 4]);
        }
    }
}

#[test]
fn composite_and_top_hits_under_empty_parent() {
    // range parent: one range has no document in the 2nd segment, one has none at all.
    let index = str_index(&[
        &[Some("a"), Some("a"), Some("b"), Some("c"), Some("d"), Some("e")],
        &[Some("a")],
    ]);
    let req = json!({"r": {"range": {"field": "n", "ranges": [{"to": 3.0}, {"from": 3.0, "to": 7.0}, {"from": 7.0, "to": 100.0}, {"from": 100.0}]},
        "aggs": {
            "comp": {"composite": {"sources": [{"s": {"terms": {"field": "s"}}}], "size": 10},
                     "aggs": {"th": {"top_hits": {"size": 2, "sort": [{"n": "desc"}]}}}},
            "th": {"top_hits": {"size": 2, "from": 1, "sort": [{"n": "desc"}]}}
        }}});
    let r = run(&index, req);
    let b = r["r"]["buckets"].as_array().unwrap();
    assert_eq!(b.len(), 4);
    assert_eq!(b[0]["doc_count"], 2);
    assert_eq!(b[0]["comp"]["buckets"].as_array().unwrap().len(), 1);
    assert_eq!(b[1]["comp"]["buckets"].as_array().unwrap().len(), 4);
    assert_eq!(b[2]["comp"]["buckets"].as_array().unwrap().len(), 1);
    assert_eq!(b[3]["comp"]["buckets"].as_array().unwrap().len(), 0);
    assert_eq!(b[3]["th"]["hits"].as_array().unwrap().len(), 0);
    assert_eq!(b[0]["th"]["hits"].as_array().unwrap().len(), 1);
}

#[test]
fn top_hits_many_parent_buckets_flushes() {
    // terms over many distinct values > top_hits; then a long run of docs of a few terms.
    let mut sb = Schema::builder();
    let s = sb.add_text_field("s", STRING | FAST);
    let n = sb.add_u64_field("n", FAST);
    let index = Index::create_in_ram(sb.build());
    let mut w: IndexWriter = index.writer_with_num_threads(1, 50_000_000).unwrap();
    let mut i = 0u64;
    let num_terms = 3000;
    for round in 0..3 {
        for t in 0..num_terms {
            i += 1;
            w.add_document(doc!(s => format!("t{t:05}"), n => i)).unwrap();
        }
        for _ in 0..5000 {
            i += 1;
            w.add_document(doc!(s => format!("t{:05}", round), n => i)).unwrap();
        }
    }
    w.commit().unwrap();
    let req = json!({"t": {"terms": {"field": "s", "size": 5000, "order": {"_key": "asc"}},
        "aggs": {"th": {"top_hits": {"size": 2, "sort": [{"n": "asc"}], "docvalue_fields": ["n"]}},
                 "comp": {"composite": {"sources": [{"s": {"terms": {"field": "s"}}}], "size": 3}}}}});
    let r = run(&index, req);
    let b = r["t"]["buckets"].as_array().unwrap();
    assert_eq!(b.len(), num_terms);
    for (t, bucket) in b.iter().enumerate() {
        let hits = bucket["th"]["hits"].as_array().unwrap();
        assert_eq!(hits.len(), 2, "term {t}");
        assert_eq!(hits[0]["sort"][0].as_u64().unwrap(), t as u64 + 1, "term {t}");
        assert_eq!(bucket["comp"]["buckets"].as_array().unwrap().len(), 1);
        assert_eq!(bucket["comp"]["buckets"][0]["doc_count"], bucket["doc_count"]);
    }
}

#[test]
fn histogram_date_flag_merge_both_orders() {
    let mut sb = Schema::builder();
    let j = sb.add_json_field("j", FAST);
    let index = Index::create_in_ram(sb.build());
    let mut w: IndexWriter = index.writer_with_num_threads(1, 20_000_000).unwrap();
    w.add_document(doc!(j => json!({"other": 1}))).unwrap();
    w.commit().unwrap();
    w.add_document(doc!(j => json!({"d": "2021-01-01T00:00:00Z"}))).unwrap();
    w.add_document(doc!(j => json!({"d": "2021-01-03T00:00:00Z"}))).unwrap();
    w.commit().unwrap();
    w.add_document(doc!(j => json!({"other": 2}))).unwrap();
    w.commit().unwrap();
    let req = json!({"h": {"date_histogram": {"field": "j.d", "fixed_interval": "1d"}},
                     "h2": {"histogram": {"field": "j.d", "interval": 86400000.0}}});
    let agg: Aggregations = serde_json::from_value(req.clone()).unwrap();
    let reader = index.reader().unwrap();
    let searcher = reader.searcher();
    assert_eq!(searcher.segment_readers().len(), 3);
    let r = run(&index, req);
    assert_eq!(r["h"]["buckets"].as_array().unwrap().len(), 3, "{r}");
    assert_eq!(r["h2"]["buckets"].as_array().unwrap().len(), 3, "{r}");
    assert_eq!(r["h"]["buckets"][0]["key_as_string"], "2021-01-01T00:00:00Z");

    // merge the intermediate results in both orders
    let collector = DistributedAggregationCollector::from_aggs(agg.clone(), Default::default());
    let full: IntermediateAggregationResults = searcher.search(&AllQuery, &collector).unwrap();
    let bytes = serde_json::to_string(&full).unwrap();
    let back: IntermediateAggregationResults = serde_json::from_str(&bytes).unwrap();
    let fin = back
        .into_final_result(agg.clone(), Default::default())
        .unwrap();
    let v = serde_json::to_value(fin).unwrap();
    assert_eq!(v["h"]["buckets"].as_array().unwrap().len(), 3);
}

#[test]
fn terms_include_exclude_regex_many_terms() {
    let mut sb = Schema::builder();
    let s = sb.add_text_field("s", STRING | FAST);
    let index = Index::create_in_ram(sb.build());
    let mut w: IndexWriter = index.writer_with_num_threads(1, 50_000_000).unwrap();
    let n = 60_000usize;
    for i in 0..n {
        w.add_document(doc!(s => format!("term{:07}-{}", i, "x".repeat(i % 13)))).unwrap();
    }
    w.commit().unwrap();
    let r = run(
        &index,
        json!({"t": {"terms": {"field": "s", "include": "term00(1|3)99[0-9]{2}-x*", "size": 1000, "order": {"_key": "asc"}}}}),
    );
    let b = r["t"]["buckets"].as_array().unwrap();
    assert_eq!(b.len(), 200);
    for bucket in b {
        let k = bucket["key"].as_str().unwrap();
        assert!(k.starts_with("term00199") || k.starts_with("term00399"), "{k}");
        assert_eq!(bucket["doc_count"], 1);
    }
    let r = run(
        &index,
        json!({"t": {"terms": {"field": "s", "exclude": "term00[0-9]*[1-9]-x*", "size": 100000, "order": {"_key": "asc"}}}}),
    );
    let b = r["t"]["buckets"].as_array().unwrap();
    assert_eq!(b.len(), n / 10);
    for bucket in b.iter().take(2000) {
        let k = bucket["key"].as_str().unwrap();
        assert!(!k.starts_with("term00") || k.split('-').next().unwrap().ends_with('0'), "{k}");
    }
}

#[test]
fn key_order_json_mixed_numeric_types() {
    let mut sb = Schema::builder();
    let j = sb.add_json_field("j", FAST);
    let index = Index::create_in_ram(sb.build());
    let mut w: IndexWriter = index.writer_with_num_threads(1, 20_000_000).unwrap();
    w.add_document(doc!(j => json!({"v": -5}))).unwrap();
    w.add_document(doc!(j => json!({"v": 3}))).unwrap();
    w.commit().unwrap();
    w.add_document(doc!(j => json!({"v": 1}))).unwrap();
    w.add_document(doc!(j => json!({"v": 9223372036854775812u64}))).unwrap();
    w.commit().unwrap();
    w.add_document(doc!(j => json!({"v": 0.5}))).unwrap();
    w.add_document(doc!(j => json!({"v": 2.0}))).unwrap();
    w.add_document(doc!(j => json!({"v": "str"}))).unwrap();
    w.commit().unwrap();
    let r = run(
        &index,
        json!({"t": {"terms": {"field": "j.v", "order": {"_key": "asc"}}}}),
    );
    let ks: Vec<String> = r["t"]["buckets"]
        .as_array()
        .unwrap()
        .iter()
        .map(|b| b["key"].to_string())
        .collect();
    assert_eq!(
        ks,
        vec!["\"str\"", "-5", "0.5", "1", "2", "3", "9223372036854775812"],
        "{r}"
    );
    let r = run(
        &index,
        json!({"t": {"terms": {"field": "j.v", "order": {"_key": "desc"}, "size": 2}}}),
    );
    let ks: Vec<String> = r["t"]["buckets"]
        .as_array()
        .unwrap()
        .iter()
        .map(|b| b["key"].to_string())
        .collect();
    assert_eq!(ks, vec!["9223372036854775812", "3"], "{r}");
}
