// Run with `--features quickwit` to use the sstable term dictionary.
use std::ops::Bound;

use tantivy::collector::Count;
use tantivy::query::{RangeQuery, RegexQuery};
use tantivy::schema::{Schema, STRING};
use tantivy::{doc, Index, IndexWriter, Term};

#[test]
fn inverted_range_and_regex_on_term_dictionary() {
    let mut sb = Schema::builder();
    let s = sb.add_text_field("s", STRING);
    let index = Index::create_in_ram(sb.build());
    let mut w: IndexWriter = index.writer_with_num_threads(1, 50_000_000).unwrap();
    let n = 50_000usize;
    for i in 0..n {
        w.add_document(doc!(s => format!("term{:07}-{}", i, "x".repeat(i % 13)))).unwrap();
    }
    w.commit().unwrap();
    let searcher = index.reader().unwrap().searcher();
    let t = |i: usize| Term::from_field_text(s, &format!("term{:07}", i));
    for (lo, hi, expected) in [
        (10usize, 20usize, 10usize),
        (20, 10, 0),
        (40_000, 10, 0),
        (49_999, 0, 0),
        (0, 49_999, 49_999),
        (25_000, 24_999, 0),
    ] {
        for (lb, ub) in [
            (Bound::Included(t(lo)), Bound::Included(t(hi))),
            (Bound::Excluded(t(lo)), Bound::Excluded(t(hi))),
            (Bound::Included(t(lo)), Bound::Excluded(t(hi))),
        ] {
            let q = RangeQuery::new(lb, ub);
            let c = searcher.search(&q, &Count).unwrap();
            assert_eq!(c, expected, "{lo}..{hi}");
        }
    }
    let q = RegexQuery::from_pattern("term00(1|3)99[0-9]{2}-x*", s).unwrap();
    assert_eq!(searcher.search(&q, &Count).unwrap(), 200);
    // ordinals of the matching terms, through the term dictionary
    let inv = searcher.segment_reader(0).inverted_index(s).unwrap();
    let dict = inv.terms();
    let re = tantivy_fst::Regex::new("term00(1|3)99[0-9]{2}-x*").unwrap();
    let mut stream = dict.search(re).into_stream().unwrap();
    let mut count = 0;
    while stream.advance() {
        let ord = stream.term_ord();
        let mut bytes = Vec::new();
        assert!(dict.ord_to_term(ord, &mut bytes).unwrap());
        assert_eq!(bytes, stream.key(), "ord {ord}");
        count += 1;
    }
    assert_eq!(count, 200);
}
