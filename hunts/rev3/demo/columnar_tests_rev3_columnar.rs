use std::net::Ipv6Addr;

use tantivy_columnar::{
    Column, ColumnarReader, ColumnarWriter, DateTime, NumericalValue,
};

fn naive(col: &Column<u64>, range: std::ops::RangeInclusive<u64>, docs: std::ops::Range<u32>) -> Vec<u32> {
    let mut out = Vec::new();
    for doc in docs.start..docs.end.min(col.num_docs()) {
        if col.values_for_doc(doc).any(|v| range.contains(&v)) {
            out.push(doc);
        }
    }
    out
}

fn interesting(vals: &[u64]) -> Vec<u64> {
    let mut v: Vec<u64> = vec![0, 1, 2, u32::MAX as u64 - 1, u32::MAX as u64, u32::MAX as u64 + 1,
        (1u64 << 32) + 1, (1u64 << 32) + 3, u64::MAX - 1, u64::MAX];
    for x in vals {
        for d in [0u64, 1, 2, 5, 9, 10, 11] {
            v.push(x.saturating_sub(d));
            v.push(x.saturating_add(d));
        }
    }
    v.sort();
    v.dedup();
    v
}

fn check_all_ranges(col: &Column<u64>, what: &str) {
    check_all_ranges_opt(col, what, true)
}

fn check_all_ranges_opt(col: &Column<u64>, what: &str, out_of_bounds_docs: bool) {
    let num_docs = col.num_docs();
    let mut vals: Vec<u64> = Vec::new();
    for d in 0..num_docs {
        vals.extend(col.values_for_doc(d));
    }
    vals.sort();
    vals.dedup();
    let bounds = interesting(&vals);
    let mut buffer: Vec<u32> = Vec::new();
    for &lo in &bounds {
        for &hi in &bounds {
            let mut doc_ranges = vec![0..num_docs, 1..num_docs.saturating_sub(1), 3..4, 5..2];
            if out_of_bounds_docs {
                doc_ranges.push(0..u32::MAX);
                doc_ranges.push(num_docs..num_docs + 5);
            }
            for docs in doc_ranges {
                // the buffer is reused across calls (dirty), as the range queries do.
                col.get_docids_for_value_range(lo..=hi, docs.clone(), &mut buffer);
                let expected = naive(col, lo..=hi, docs.clone());
                assert_eq!(buffer, expected, "{what}: values {lo}..={hi} docs {docs:?}");
            }
        }
    }
}

#[test]
fn ip_compact_u64_value_ranges() {
    for cardinality in 0..3 {
        let mut w = ColumnarWriter::default();
        let ips: Vec<u128> = vec![
            2, 4, 1000, 1001, 1002, 1003, 1004, 1005, 1008, 1010, 1012, 1260, 50_000_000,
            u128::MAX - 5, u128::MAX, 1u128 << 100, 4, 2, 1000,
        ];
        let mut num_docs = 0u32;
        for (i, ip) in ips.iter().enumerate() {
            let doc = match cardinality {
                0 => i as u32,
                1 => 2 * i as u32,
                _ => (i / 2) as u32 * 2,
            };
            w.record_ip_addr(doc, "ip", Ipv6Addr::from(*ip));
            num_docs = doc + 1;
        }
        let mut buffer = Vec::new();
        w.serialize(num_docs, None, &mut buffer).unwrap();
        let reader = ColumnarReader::open(buffer).unwrap();
        let cols = reader.read_columns("ip").unwrap();
        let col = cols[0].open_u64_lenient().unwrap().unwrap();
        check_all_ranges(&col, &format!("ip cardinality {cardinality}"));
    }
}

#[test]
fn bitpacked_value_ranges() {
    for (min, gcd) in [(0u64, 1u64), (10, 1), (1000, 10), (u32::MAX as u64 + 7, 1000), (u64::MAX - 5000, 7), (5, 1 << 33)] {
        for cardinality in 0..3 {
            let mut w = ColumnarWriter::default();
            let mut num_docs = 0u32;
            for i in 0..40u64 {
                let doc = match cardinality {
                    0 => i as u32,
                    1 => 2 * i as u32,
                    _ => (i / 2) as u32 * 2,
                };
                let val = min + gcd.wrapping_mul((i * 7919) % 23);
                if val < min {
                    continue;
                }
                w.record_numerical(doc, "v", NumericalValue::U64(val));
                num_docs = doc + 1;
            }
            let mut buffer = Vec::new();
            w.serialize(num_docs, None, &mut buffer).unwrap();
            let reader = ColumnarReader::open(buffer).unwrap();
            let cols = reader.read_columns("v").unwrap();
            let col = cols[0].open_u64_lenient().unwrap().unwrap();
            check_all_ranges_opt(&col, &format!("u64 min {min} gcd {gcd} cardinality {cardinality}"), false);
        }
    }
}

#[test]
fn first_vals_agrees_with_first() {
    for cardinality in 0..4 {
        let mut w = ColumnarWriter::default();
        let num_docs = 20u32;
        match cardinality {
            0 => {
                for d in 0..num_docs {
                    w.record_numerical(d, "v", NumericalValue::U64(d as u64 + 100));
                }
            }
            1 => {
                for d in (0..num_docs).step_by(3) {
                    w.record_numerical(d, "v", NumericalValue::U64(d as u64 + 100));
                }
            }
            2 => {
                for d in (0..num_docs).step_by(3) {
                    w.record_numerical(d, "v", NumericalValue::U64(d as u64 + 100));
                    w.record_numerical(d, "v", NumericalValue::U64(d as u64 + 200));
                }
            }
            _ => {
                w.record_column_type("v", tantivy_columnar::ColumnType::U64, false);
                w.record_numerical(1, "other", NumericalValue::U64(1));
            }
        }
        let mut buffer = Vec::new();
        w.serialize(num_docs, None, &mut buffer).unwrap();
        let reader = ColumnarReader::open(buffer).unwrap();
        let cols = reader.read_columns("v").unwrap();
        let col: Column<u64> = cols[0].open_u64_lenient().unwrap().unwrap();
        let mut output: Vec<Option<u64>> = vec![Some(777); 8];
        for start in 0..(num_docs - 5) {
            let docids: Vec<u32> = (start..start + 5).collect();
            col.first_vals(&docids, &mut output[..5]);
            for (i, d) in docids.iter().enumerate() {
                assert_eq!(output[i], col.first(*d), "cardinality {cardinality} doc {d}");
            }
        }
    }
}

#[test]
fn sort_order_date_column() {
    // many date columns, so that entries end up everywhere in the arena pages
    for num_cols in [1usize, 7, 300] {
        let mut w = ColumnarWriter::default();
        let ts: [i64; 6] = [5, -3, 100, i64::MIN, i64::MAX, 0];
        for c in 0..num_cols {
            for (d, t) in ts.iter().enumerate() {
                if d == 2 && c % 2 == 0 {
                    continue;
                }
                w.record_datetime(d as u32, &format!("date{c}"), DateTime::from_timestamp_nanos(*t));
                if d == 1 {
                    w.record_datetime(d as u32, &format!("date{c}"), DateTime::from_timestamp_nanos(1 << 40));
                }
            }
            w.record_numerical(0, &format!("num{c}"), NumericalValue::I64(-1));
            w.record_numerical(1, &format!("num{c}"), NumericalValue::I64(-5));
            w.record_numerical(3, &format!("num{c}"), NumericalValue::I64(7));
        }
        for c in 0..num_cols {
            let order = w.sort_order(&format!("date{c}"), 7, false);
            let rev = w.sort_order(&format!("date{c}"), 7, true);
            if c % 2 == 0 {
                assert_eq!(order, vec![2, 6, 3, 1, 5, 0, 4], "date{c}");
            } else {
                assert_eq!(order, vec![6, 3, 1, 5, 0, 2, 4], "date{c}");
            }
            let mut r = rev.clone();
            r.reverse();
            // reversed keeps stability among equal (missing) rows, so only compare the rows with values
            let with_vals = |v: &Vec<u32>| v.iter().copied().filter(|d| *d != 6 && !(c % 2 == 0 && *d == 2)).collect::<Vec<_>>();
            assert_eq!(with_vals(&r), with_vals(&order), "date{c} reversed");
            assert_eq!(w.sort_order(&format!("num{c}"), 5, false), vec![2, 4, 1, 0, 3], "num{c}");
        }
    }
}

// Not a defect of the reviewed fixes: BitpackedReader::get_row_ids_for_value_range does not clamp
// the row range to num_vals (the default impl and, since 6ce55d4fa, the compact-space one do).
#[test]
fn bitpacked_doc_range_beyond_num_docs() {
    let mut w = ColumnarWriter::default();
    for d in 0..40u32 {
        w.record_numerical(d, "v", NumericalValue::U64(1000 + ((d as u64 * 7919) % 23) * 10));
    }
    let mut buffer = Vec::new();
    w.serialize(40, None, &mut buffer).unwrap();
    let reader = ColumnarReader::open(buffer).unwrap();
    let cols = reader.read_columns("v").unwrap();
    let col = cols[0].open_u64_lenient().unwrap().unwrap();
    let mut out = Vec::new();
    col.get_docids_for_value_range(0..=u64::MAX, 0..u32::MAX, &mut out);
    assert_eq!(out.len(), 40);
}
