use std::future::Future;
use std::pin::pin;
use std::task::{Context, Poll, Waker};

use common::OwnedBytes;
use tantivy_fst::Regex;
use tantivy_sstable::{Dictionary, MonotonicU64SSTable, Streamer};

fn block_on<F: Future>(fut: F) -> F::Output {
    let mut fut = pin!(fut);
    let mut cx = Context::from_waker(Waker::noop());
    loop {
        if let Poll::Ready(v) = fut.as_mut().poll(&mut cx) {
            return v;
        }
    }
}

fn build(block_len: usize, n: usize) -> (Dictionary<MonotonicU64SSTable>, Vec<String>) {
    let mut keys: Vec<String> = (0..n).map(|i| format!("k{:06}", i * 7)).collect();
    keys.sort();
    let mut builder = Dictionary::<MonotonicU64SSTable>::builder(Vec::new()).unwrap();
    builder.set_block_len(block_len);
    for (i, k) in keys.iter().enumerate() {
        builder.insert(k.as_bytes(), &(i as u64)).unwrap();
    }
    let bytes = builder.finish().unwrap();
    (
        Dictionary::<MonotonicU64SSTable>::from_bytes(OwnedBytes::new(bytes)).unwrap(),
        keys,
    )
}

fn check<A: tantivy_fst::Automaton>(
    mut s: Streamer<'_, MonotonicU64SSTable, A>,
    keys: &[String],
    expected: &[usize],
    what: &str,
) where
    A::State: Clone,
{
    let mut got = Vec::new();
    while s.advance() {
        let key = String::from_utf8(s.key().to_vec()).unwrap();
        let ord = s.term_ord();
        assert_eq!(keys[ord as usize], key, "{what}: ord {ord} does not match key {key}");
        assert_eq!(*s.value(), ord, "{what}: value");
        got.push(ord as usize);
    }
    assert_eq!(got, expected, "{what}");
}

#[test]
fn automaton_ordinals_all_paths() {
    for block_len in [16usize, 64, 300, 4096] {
        let (dict, keys) = build(block_len, 3000);
        for pattern in [
            "k0000[0-9][0-9]",
            "k.*7",
            "k0.*",
            "k01.*|k00001.*|k0209.*",
            "k020993",
            "zzz",
            "k[0-9]*13",
            ".*",
        ] {
            let re = || Regex::new(pattern).unwrap();
            let re_match = |k: &str| {
                use tantivy_fst::Automaton;
                let a = re();
                let mut st = a.start();
                for b in k.bytes() {
                    st = a.accept(&st, b);
                }
                a.is_match(&st)
            };
            let all: Vec<usize> = (0..keys.len()).filter(|i| re_match(&keys[*i])).collect();
            check(
                dict.search(re()).into_stream().unwrap(),
                &keys,
                &all,
                &format!("sync {pattern} {block_len}"),
            );
            for holes in [0usize, 1, 10, 100, 1000, 1 << 30] {
                check(
                    block_on(dict.search(re()).into_stream_async_merging_holes(holes)).unwrap(),
                    &keys,
                    &all,
                    &format!("async {pattern} {block_len} holes {holes}"),
                );
            }
            // bounded
            for (lo, hi) in [(10usize, 2000usize), (0, 1), (1500, 1501), (2999, 2999), (700, 300)] {
                let exp: Vec<usize> = all.iter().copied().filter(|i| *i >= lo && *i < hi).collect();
                check(
                    dict.search(re())
                        .ge(keys[lo].as_bytes())
                        .lt(keys[hi].as_bytes())
                        .into_stream()
                        .unwrap(),
                    &keys,
                    &exp,
                    &format!("sync range {lo}..{hi} {pattern} {block_len}"),
                );
                let exp: Vec<usize> = all.iter().copied().filter(|i| *i > lo && *i <= hi).collect();
                check(
                    block_on(
                        dict.search(re())
                            .gt(keys[lo].as_bytes())
                            .le(keys[hi].as_bytes())
                            .into_stream_async_merging_holes(50),
                    )
                    .unwrap(),
                    &keys,
                    &exp,
                    &format!("async range {lo}..={hi} {pattern} {block_len}"),
                );
                // keys not in the dictionary as bounds
                let lo_key = format!("{}x", keys[lo]);
                let hi_key = format!("{}x", keys[hi]);
                let exp: Vec<usize> = all.iter().copied().filter(|i| *i > lo && *i <= hi).collect();
                check(
                    dict.search(re())
                        .ge(lo_key.as_bytes())
                        .lt(hi_key.as_bytes())
                        .limit(3)
                        .into_stream()
                        .unwrap(),
                    &keys,
                    &exp,
                    &format!("sync range x {lo}..{hi} {pattern} {block_len}"),
                );
            }
        }
        // no automaton: plain ranges, inverted too
        for (lo, hi) in [(10usize, 2000usize), (2000, 10), (2999, 0), (5, 5), (6, 5)] {
            let exp: Vec<usize> = (lo..hi.max(lo)).filter(|i| *i < hi).collect();
            check(
                dict.range()
                    .ge(keys[lo].as_bytes())
                    .lt(keys[hi].as_bytes())
                    .into_stream()
                    .unwrap(),
                &keys,
                &exp,
                &format!("plain range {lo}..{hi} {block_len}"),
            );
            check(
                block_on(
                    dict.range()
                        .ge(keys[lo].as_bytes())
                        .lt(keys[hi].as_bytes())
                        .into_stream_async(),
                )
                .unwrap(),
                &keys,
                &exp,
                &format!("plain async range {lo}..{hi} {block_len}"),
            );
            let exp_lim: Vec<usize> = exp.clone();
            let mut s = dict
                .range()
                .ge(keys[lo].as_bytes())
                .lt(keys[hi].as_bytes())
                .limit(2)
                .into_stream()
                .unwrap();
            let mut got = Vec::new();
            while s.advance() {
                assert_eq!(keys[s.term_ord() as usize].as_bytes(), s.key());
                got.push(s.term_ord() as usize);
            }
            assert!(got.len() >= exp_lim.len().min(2), "limit {lo} {hi}");
            assert_eq!(&exp_lim[..got.len()], &got[..]);
        }
    }
}
