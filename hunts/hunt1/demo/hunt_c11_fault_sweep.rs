//! C11 sweep: one workload, and for every storage operation number k the operation k fails
//! (once, or permanently from k on until the writer is dropped).
//!
//! Checked after the first call that reports an error (or at the end if nothing was reported):
//! * nothing hangs, nothing panics;
//! * a commit that returned Ok is on storage: the storage holds exactly the documents of the last
//!   commit that returned Ok (or of the commit whose call reported the error);
//! * after dropping the writer, a new writer can index and commit (faults are over), and
//!   after merges + garbage collection the directory holds no orphan and no damaged file.
mod hunt_support;

use std::collections::BTreeSet;
use std::path::PathBuf;
use std::sync::mpsc;
use std::time::Duration;

use hunt_support::{FailMode, SpyDirectory};
use tantivy::merge_policy::LogMergePolicy;
use tantivy::schema::{Schema, Value, FAST, INDEXED, STORED, TEXT};
use tantivy::{
    doc, Directory, DocAddress, Index, IndexSettings, IndexWriter, ReloadPolicy, TantivyDocument, Term,
};

fn schema() -> Schema {
    let mut schema_builder = Schema::builder();
    schema_builder.add_u64_field("id", FAST | INDEXED | STORED);
    schema_builder.add_text_field("text", TEXT | STORED);
    schema_builder.build()
}

fn ids_of(index: &Index) -> tantivy::Result<BTreeSet<u64>> {
    let reader = index
        .reader_builder()
        .reload_policy(ReloadPolicy::Manual)
        .try_into()?;
    let searcher = reader.searcher();
    let id_field = index.schema().get_field("id")?;
    let mut ids = BTreeSet::new();
    for (segment_ord, segment_reader) in searcher.segment_readers().iter().enumerate() {
        let column = segment_reader.fast_fields().u64("id")?;
        for doc_id in segment_reader.doc_ids_alive() {
            let id = column.first(doc_id).expect("id fast field");
            let doc: TantivyDocument = searcher.doc(DocAddress::new(segment_ord as u32, doc_id))?;
            let stored_id = doc.get_first(id_field).and_then(|v| v.as_u64());
            assert_eq!(stored_id, Some(id), "doc store and fast field disagree");
            ids.insert(id);
        }
    }
    Ok(ids)
}

fn ids_on_storage(dir: &SpyDirectory) -> tantivy::Result<BTreeSet<u64>> {
    let copy = dir.inner.deep_clone();
    // a lock file that was held at the instant of the copy is not part of the index.
    let _ = copy.delete(std::path::Path::new(".tantivy-meta.lock"));
    let _ = copy.delete(std::path::Path::new(".tantivy-writer.lock"));
    let index = Index::open(copy)?;
    ids_of(&index)
}

fn merge_policy() -> Box<LogMergePolicy> {
    let mut policy = LogMergePolicy::default();
    policy.set_min_num_segments(2);
    Box::new(policy)
}

#[derive(Debug, Default)]
struct Outcome {
    num_ops: usize,
    failed_call: Option<String>,
    injected: Vec<String>,
    problems: Vec<String>,
}

fn workload(
    index: &Index,
    dir: &SpyDirectory,
    fail_mode: FailMode,
    last_ok: &mut BTreeSet<u64>,
    attempted: &mut BTreeSet<u64>,
) -> Result<(), String> {
    let id = index.schema().get_field("id").unwrap();
    let text = index.schema().get_field("text").unwrap();
    dir.set_fail_mode(fail_mode);
    let mut writer: IndexWriter = index
        .writer_with_num_threads(1, 20_000_000)
        .map_err(|e| format!("writer(): {e:?}"))?;
    writer.set_merge_policy(merge_policy());
    let mut commit = |writer: &mut IndexWriter,
                      adds: std::ops::Range<u64>,
                      deletes: &[u64],
                      last_ok: &mut BTreeSet<u64>,
                      attempted: &mut BTreeSet<u64>,
                      name: &str|
     -> Result<(), String> {
        *attempted = last_ok.clone();
        for i in adds {
            writer
                .add_document(doc!(id => i, text => "hello happy tax payer"))
                .map_err(|e| format!("{name}: add_document: {e:?}"))?;
            attempted.insert(i);
        }
        for d in deletes {
            writer.delete_term(Term::from_field_u64(id, *d));
            attempted.remove(d);
        }
        writer
            .commit()
            .map_err(|e| format!("{name}: commit: {e:?}"))?;
        *last_ok = attempted.clone();
        // a commit that returned Ok must be on storage, whatever happens next.
        let on_storage = ids_on_storage_nofault(dir);
        if on_storage.as_ref().ok() != Some(last_ok) {
            return Err(format!(
                "{name}: PROBLEM commit returned Ok but storage holds {on_storage:?} instead of \
                 {last_ok:?}"
            ));
        }
        Ok(())
    };
    commit(&mut writer, 0..5, &[], last_ok, attempted, "commit1")?;
    commit(&mut writer, 5..10, &[2], last_ok, attempted, "commit2")?;
    commit(&mut writer, 10..15, &[7], last_ok, attempted, "commit3")?;
    *attempted = last_ok.clone();
    for i in 100..105u64 {
        writer
            .add_document(doc!(id => i, text => "to be rolled back"))
            .map_err(|e| format!("add_document before rollback: {e:?}"))?;
    }
    writer.rollback().map_err(|e| format!("rollback: {e:?}"))?;
    writer.set_merge_policy(merge_policy());
    commit(&mut writer, 15..20, &[11], last_ok, attempted, "commit4")?;
    writer
        .wait_merging_threads()
        .map_err(|e| format!("wait_merging_threads: {e:?}"))?;
    Ok(())
}

/// Reads the storage without going through the fault injection (and without being counted).
fn ids_on_storage_nofault(dir: &SpyDirectory) -> tantivy::Result<BTreeSet<u64>> {
    ids_on_storage(dir)
}

fn run(fail_mode: FailMode, dir: SpyDirectory, dedicated_thread: bool) -> Outcome {
    let mut outcome = Outcome::default();
    // The doc store is compressed on the calling thread: with the (default) dedicated thread, a
    // failed merge leaves a detached thread that completes the `.store` file later on, and the
    // RamDirectory re-creates a file that the garbage collector had already removed. That is a
    // separate (RamDirectory specific) observation, that would hide everything else here.
    let settings = IndexSettings {
        docstore_compress_dedicated_thread: dedicated_thread,
        ..Default::default()
    };
    let index = Index::create(dir.clone(), schema(), settings).unwrap();
    let mut last_ok = BTreeSet::new();
    let mut attempted = BTreeSet::new();
    let res = workload(&index, &dir, fail_mode, &mut last_ok, &mut attempted);
    // the writer was dropped when `workload` returned.
    dir.set_fail_mode(FailMode::Never);
    outcome.num_ops = dir.num_ops();
    outcome.injected = dir.failed_ops();
    if let Err(msg) = res {
        if msg.contains("PROBLEM") {
            outcome.problems.push(msg.clone());
        }
        outcome.failed_call = Some(msg);
    } else if !outcome.injected.is_empty() {
        // Not necessarily a problem: the fault may have hit a background merge or gc.
    }
    // 1. what is on storage?
    match ids_on_storage(&dir) {
        Ok(ids) => {
            if ids != last_ok {
                let is_attempt = ids == attempted
                    && outcome
                        .failed_call
                        .as_ref()
                        .map(|c| c.contains("commit"))
                        .unwrap_or(false);
                if !is_attempt {
                    outcome.problems.push(format!(
                        "storage holds {ids:?}, last commit that returned Ok has {last_ok:?}, \
                         failed call: {:?}",
                        outcome.failed_call
                    ));
                }
                last_ok = ids;
            }
        }
        Err(err) => {
            outcome.problems.push(format!(
                "the index on storage cannot be opened/searched any more: {err:?}"
            ));
            return outcome;
        }
    }
    // 2. a new writer can continue (same `Index` handle: the merge threads of the dropped writer
    // may still be running).
    let id = index.schema().get_field("id").unwrap();
    let text = index.schema().get_field("text").unwrap();
    let continue_res = (|| -> tantivy::Result<()> {
        let mut writer: IndexWriter = index.writer_with_num_threads(1, 20_000_000)?;
        writer.set_merge_policy(merge_policy());
        for i in 1000..1003u64 {
            writer.add_document(doc!(id => i, text => "after"))?;
            last_ok.insert(i);
        }
        writer.delete_term(Term::from_field_u64(id, 1));
        last_ok.remove(&1);
        writer.commit()?;
        writer.garbage_collect_files().wait()?;
        writer.wait_merging_threads()?;
        Ok(())
    })();
    if let Err(err) = continue_res {
        outcome
            .problems
            .push(format!("a new writer cannot continue: {err:?}"));
        return outcome;
    }
    match ids_of(&index) {
        Ok(ids) if ids == last_ok => {}
        other => outcome.problems.push(format!(
            "after the new writer's commit: {other:?}, expected {last_ok:?}"
        )),
    }
    // more commits + gc so that everything that can be collected is collected (the merge threads
    // of the dropped writer may still have been running: we give them some time).
    let mut orphans: Vec<PathBuf> = Vec::new();
    for attempt in 0..4 {
        if attempt > 0 {
            std::thread::sleep(Duration::from_millis(300));
        }
        let final_res = (|| -> tantivy::Result<()> {
            let mut writer: IndexWriter = index.writer_with_num_threads(1, 20_000_000)?;
            writer.commit()?;
            writer.garbage_collect_files().wait()?;
            writer.wait_merging_threads()?;
            Ok(())
        })();
        if let Err(err) = final_res {
            outcome.problems.push(format!("final commit + gc: {err:?}"));
        }
        let mut expected: BTreeSet<PathBuf> = BTreeSet::new();
        for segment_meta in index.searchable_segment_metas().unwrap() {
            expected.extend(segment_meta.list_files());
        }
        expected.insert(PathBuf::from("meta.json"));
        expected.insert(PathBuf::from(".managed.json"));
        let existing = dir.existing_files();
        orphans = existing.difference(&expected).cloned().collect();
        if orphans.is_empty() {
            break;
        }
    }
    match index.validate_checksum() {
        Ok(damaged) if damaged.is_empty() => {}
        other => outcome
            .problems
            .push(format!("validate_checksum: {other:?}")),
    }
    if !orphans.is_empty() {
        let managed = index.directory().list_managed_files();
        let unmanaged: Vec<&PathBuf> = orphans.iter().filter(|p| !managed.contains(*p)).collect();
        outcome.problems.push(format!(
            "orphan files after 4 x (commit + gc): {orphans:?} (not in the managed list: \
             {unmanaged:?})"
        ));
    }
    outcome
}

fn run_with_timeout(fail_mode: FailMode, dedicated_thread: bool) -> Outcome {
    let (tx, rx) = mpsc::channel();
    let dir = SpyDirectory::new();
    let dir_clone = dir.clone();
    std::thread::spawn(move || {
        let res = std::panic::catch_unwind(move || run(fail_mode, dir_clone, dedicated_thread));
        let _ = tx.send(res);
    });
    match rx.recv_timeout(Duration::from_secs(60)) {
        Ok(Ok(outcome)) => outcome,
        Ok(Err(panic)) => {
            let msg = panic
                .downcast_ref::<String>()
                .cloned()
                .or_else(|| panic.downcast_ref::<&str>().map(|s| s.to_string()))
                .unwrap_or_else(|| "?".to_string());
            Outcome {
                problems: vec![format!("panic: {msg}")],
                ..Default::default()
            }
        }
        Err(_) => {
            let log = dir.log();
            let tail = log[log.len().saturating_sub(12)..].to_vec();
            Outcome {
                injected: dir.failed_ops(),
                problems: vec![format!(
                    "HANG: no result after 60s; last storage operations: {tail:#?}"
                )],
                ..Default::default()
            }
        }
    }
}

fn sweep(make: impl Fn(usize) -> FailMode, dedicated_thread: bool) -> Vec<String> {
    let baseline = run_with_timeout(FailMode::Never, dedicated_thread);
    assert!(
        baseline.problems.is_empty() && baseline.failed_call.is_none(),
        "baseline: {baseline:?}"
    );
    let num_ops = baseline.num_ops + 20;
    let mut report = Vec::new();
    for k in 0..num_ops {
        let outcome = run_with_timeout(make(k), dedicated_thread);
        if !outcome.problems.is_empty() {
            report.push(format!(
                "{:?}: injected {:?}; first failed call: {:?}; problems: {:#?}",
                make(k),
                outcome.injected.first(),
                outcome.failed_call,
                outcome.problems
            ));
        }
    }
    report
}

#[test]
fn single_transient_fault_sweep() {
    let report = sweep(FailMode::Once, false);
    assert!(report.is_empty(), "{} problems\n{}", report.len(), report.join("\n"));
}

#[test]
fn permanent_fault_sweep() {
    let report = sweep(FailMode::From, false);
    assert!(report.is_empty(), "{} problems\n{}", report.len(), report.join("\n"));
}

/// Same as `single_transient_fault_sweep`, with the default settings (doc store compressed by a
/// dedicated thread). When a merge fails, the `StoreWriter` is dropped without joining its
/// compressor thread; that detached thread finishes the `.store` file (skip index, footer,
/// terminate) after the failure was handled. If a garbage collection removed the file in the
/// meantime, the late flush of the `RamDirectory` writer re-creates it, and since the file has
/// left the managed list nobody ever removes it.
#[test]
fn single_transient_fault_sweep_default_settings() {
    let report = sweep(FailMode::Once, true);
    assert!(report.is_empty(), "{} problems\n{}", report.len(), report.join("\n"));
}
