//! The `ManagedDirectory` of an `Index` reads `.managed.json` once, when the `Index` is opened,
//! and never again. A second `Index` handle on the same directory (the usual way to read an index
//! that somebody else writes, or to re-open a writer later) therefore works with a stale list.
//!
//! * C20: `Index::validate_checksum` only checks `committed files ∩ managed files`: with a stale
//!   list, corrupted files of segments committed after the handle was opened are not reported.
//! * C10: a writer opened from the stale handle persists its stale list + its own files: the
//!   files written through the other handle are forgotten, never collected, and
//!   `.managed.json` does not match the files that exist.
mod hunt_support;

use std::collections::BTreeSet;
use std::path::PathBuf;

use hunt_support::SpyDirectory;
use tantivy::schema::{Schema, FAST, INDEXED, STORED, TEXT};
use tantivy::{doc, Index, IndexSettings, IndexWriter};

fn schema() -> Schema {
    let mut schema_builder = Schema::builder();
    schema_builder.add_u64_field("id", FAST | INDEXED | STORED);
    schema_builder.add_text_field("text", TEXT | STORED);
    schema_builder.build()
}

#[test]
fn validate_checksum_misses_corruption_with_handle_opened_before_commit() {
    let schema = schema();
    let id = schema.get_field("id").unwrap();
    let text = schema.get_field("text").unwrap();
    let dir = SpyDirectory::new();
    let index_w = Index::create(dir.clone(), schema, IndexSettings::default()).unwrap();
    // A second handle, e.g. the one of the searching side.
    let index_r = Index::open(dir.clone()).unwrap();

    let mut writer: IndexWriter = index_w.writer_with_num_threads(1, 20_000_000).unwrap();
    for i in 0..50u64 {
        writer
            .add_document(doc!(id => i, text => "hello happy tax payer"))
            .unwrap();
    }
    writer.commit().unwrap();

    // The reading side sees the commit.
    let reader = index_r.reader().unwrap();
    assert_eq!(reader.searcher().num_docs(), 50);
    assert!(index_r.validate_checksum().unwrap().is_empty());

    // Flip one bit in the body of the `.store` file of the committed segment.
    let segment_meta = index_r.searchable_segment_metas().unwrap().pop().unwrap();
    let store_path = segment_meta.relative_path(tantivy::index::SegmentComponent::Store);
    let mut raw = dir.read_raw(&store_path);
    raw[3] ^= 0x10;
    dir.overwrite_raw(&store_path, &raw);

    let damaged_fresh = Index::open(dir.clone())
        .unwrap()
        .validate_checksum()
        .unwrap();
    assert!(
        damaged_fresh.contains(&store_path),
        "sanity: a freshly opened handle detects the corruption"
    );
    let damaged_w = index_w.validate_checksum().unwrap();
    assert!(damaged_w.contains(&store_path));
    // ... but the handle that was opened before the commit says everything is fine.
    let damaged_r = index_r.validate_checksum().unwrap();
    assert!(
        damaged_r.contains(&store_path),
        "validate_checksum() on a handle opened before the commit reported {damaged_r:?} instead \
         of {damaged_fresh:?}"
    );
}

#[test]
fn writer_restart_through_older_handle_forgets_managed_files() {
    let schema = schema();
    let id = schema.get_field("id").unwrap();
    let text = schema.get_field("text").unwrap();
    let dir = SpyDirectory::new();
    let index_a = Index::create(dir.clone(), schema, IndexSettings::default()).unwrap();
    let index_b = Index::open(dir.clone()).unwrap();

    // first writer, through handle A.
    {
        let mut writer: IndexWriter = index_a.writer_with_num_threads(1, 20_000_000).unwrap();
        for i in 0..10u64 {
            writer.add_document(doc!(id => i, text => "a")).unwrap();
        }
        writer.commit().unwrap();
        writer.wait_merging_threads().unwrap();
    }
    // writer restart, through handle B (opened earlier).
    {
        let mut writer: IndexWriter = index_b.writer_with_num_threads(1, 20_000_000).unwrap();
        for i in 10..20u64 {
            writer.add_document(doc!(id => i, text => "b")).unwrap();
        }
        writer.commit().unwrap();
        // merge everything in one segment: the files of the first segment become obsolete.
        let segment_ids = index_b.searchable_segment_ids().unwrap();
        assert_eq!(segment_ids.len(), 2);
        writer.merge(&segment_ids).wait().unwrap();
        writer.commit().unwrap();
        writer.garbage_collect_files().wait().unwrap();
        writer.wait_merging_threads().unwrap();
    }
    let index = Index::open(dir.clone()).unwrap();
    assert_eq!(index.reader().unwrap().searcher().num_docs(), 20);
    assert_eq!(index.searchable_segment_ids().unwrap().len(), 1);

    let mut expected: BTreeSet<PathBuf> = BTreeSet::new();
    for segment_meta in index.searchable_segment_metas().unwrap() {
        expected.extend(segment_meta.list_files());
    }
    expected.insert(PathBuf::from("meta.json"));
    expected.insert(PathBuf::from(".managed.json"));
    let existing = dir.existing_files();
    let orphans: Vec<&PathBuf> = existing.difference(&expected).collect();

    let managed: BTreeSet<PathBuf> = index.directory().list_managed_files().into_iter().collect();
    let existing_managed: BTreeSet<PathBuf> = existing
        .iter()
        .filter(|p| !p.to_str().unwrap().starts_with('.'))
        .cloned()
        .collect();
    let unlisted: Vec<&PathBuf> = existing_managed.difference(&managed).collect();
    assert!(
        orphans.is_empty() && unlisted.is_empty(),
        "orphan files after commit + merge + gc: {orphans:?}\nexisting files that the persisted \
         managed list does not know: {unlisted:?}"
    );
}
