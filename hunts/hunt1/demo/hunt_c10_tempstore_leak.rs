//! C10: "Once a commit has returned, merges have finished and garbage collection has run, the
//! directory holds exactly the files of the committed segments plus the index metadata".
//!
//! With a sorted index, a delete applied in the same commit as the segment it targets leaves the
//! temporary doc store (`<segment>.store.temp`) behind forever (as long as the writer lives).
mod hunt_support;

use std::collections::BTreeSet;
use std::path::PathBuf;

use hunt_support::SpyDirectory;
use tantivy::merge_policy::NoMergePolicy;
use tantivy::schema::{Schema, FAST, INDEXED, STORED, TEXT};
use tantivy::{doc, Index, IndexSettings, IndexSortByField, IndexWriter, Order, Term};

fn expected_files(index: &Index) -> BTreeSet<PathBuf> {
    let mut expected: BTreeSet<PathBuf> = BTreeSet::new();
    for segment_meta in index.searchable_segment_metas().unwrap() {
        expected.extend(segment_meta.list_files());
    }
    expected.insert(PathBuf::from("meta.json"));
    expected.insert(PathBuf::from(".managed.json"));
    expected
}

#[test]
fn sorted_index_delete_in_same_commit_leaks_temp_store() {
    let mut schema_builder = Schema::builder();
    let id = schema_builder.add_u64_field("id", FAST | INDEXED | STORED);
    let text = schema_builder.add_text_field("text", TEXT | STORED);
    let schema = schema_builder.build();
    let settings = IndexSettings {
        sort_by_field: Some(IndexSortByField {
            field: "id".to_string(),
            order: Order::Asc,
        }),
        ..Default::default()
    };
    let dir = SpyDirectory::new();
    let index = Index::create(dir.clone(), schema, settings).unwrap();
    let mut writer: IndexWriter = index.writer_with_num_threads(1, 20_000_000).unwrap();
    writer.set_merge_policy(Box::new(NoMergePolicy));
    for i in 0..10u64 {
        writer
            .add_document(doc!(id => i, text => "hello world"))
            .unwrap();
    }
    writer.delete_term(Term::from_field_u64(id, 3));
    writer.commit().unwrap();
    // one more explicit collection, for good measure.
    writer.garbage_collect_files().wait().unwrap();

    let reader = index.reader().unwrap();
    assert_eq!(reader.searcher().num_docs(), 9);

    let existing = dir.existing_files();
    let expected = expected_files(&index);
    let orphans: Vec<&PathBuf> = existing.difference(&expected).collect();
    // A second commit + collection does not help either.
    writer.add_document(doc!(id => 100u64, text => "x")).unwrap();
    writer.commit().unwrap();
    writer.garbage_collect_files().wait().unwrap();
    let existing2 = dir.existing_files();
    let expected2 = expected_files(&index);
    let orphans2: Vec<&PathBuf> = existing2.difference(&expected2).collect();
    assert!(
        orphans.is_empty() && orphans2.is_empty(),
        "orphan files after commit + gc: {orphans:?}; after a second commit + gc: {orphans2:?}"
    );
}
