//! Test support: a `Directory` wrapper around `RamDirectory` that
//! - counts / logs every storage operation,
//! - can make the k-th operation (or every operation from k on) fail with an I/O error,
//! - keeps a model of what is durable (terminated files, synced directory entries) so that
//!   crash images can be produced at every operation boundary,
//! - can list the files that exist.
#![allow(dead_code)]

use std::collections::{BTreeMap, BTreeSet};
use std::io::{self, Write};
use std::path::{Path, PathBuf};
use std::sync::atomic::{AtomicBool, AtomicUsize, Ordering};
use std::sync::{Arc, Mutex};

use tantivy::directory::error::{DeleteError, OpenReadError, OpenWriteError};
use tantivy::directory::{
    AntiCallToken, FileHandle, FileSlice, RamDirectory, TerminatingWrite, WatchCallback,
    WatchHandle, WritePtr,
};
use tantivy::Directory;

#[derive(Clone, Copy, Debug, PartialEq, Eq)]
pub enum FailMode {
    Never,
    /// fail exactly the operation number k
    Once(usize),
    /// fail every operation from number k on
    From(usize),
    /// fail the next operation whose description contains the given text (once).
    /// `a&&b` requires both `a` and `b`.
    NextMatching(&'static str),
    /// fail every operation whose description contains the given text
    AllMatching(&'static str),
}

/// What the "disk" is guaranteed to hold for one path.
#[derive(Clone, Debug, Default)]
pub struct DurableEntry {
    /// content that the durable directory entry points to (None: no durable entry)
    pub content: Option<Vec<u8>>,
}

#[derive(Default)]
pub struct Model {
    /// Current (volatile) view: path -> (content, content_synced)
    pub current: BTreeMap<PathBuf, (Vec<u8>, bool)>,
    /// Durable view of the directory entries: path -> content the entry pointed to at the last
    /// directory sync. Content of a file that was not terminated at that time is tracked by
    /// reference to `current` (it can still become synced later, entries are inode pointers).
    pub durable_entries: BTreeMap<PathBuf, DurableRef>,
    pub inode_counter: usize,
    pub inodes: BTreeMap<usize, (Vec<u8>, bool)>,
    pub current_entries: BTreeMap<PathBuf, usize>,
}

pub type DurableRef = usize;

#[derive(Clone, Debug)]
pub struct CrashImage {
    pub name: &'static str,
    pub files: BTreeMap<PathBuf, Vec<u8>>,
}

pub struct Shared {
    pub op_counter: AtomicUsize,
    pub fail_mode: Mutex<FailMode>,
    pub count_locks: AtomicBool,
    pub log: Mutex<Vec<String>>,
    pub failed_ops: Mutex<Vec<String>>,
    pub created: Mutex<BTreeSet<PathBuf>>,
    pub model: Mutex<Model>,
    /// called before every op with (op index, description)
    pub hook: Mutex<Option<Box<dyn FnMut(usize, &str, &Model) + Send>>>,
    pub serial: Mutex<()>,
}

#[derive(Clone)]
pub struct SpyDirectory {
    pub inner: RamDirectory,
    pub shared: Arc<Shared>,
}

impl std::fmt::Debug for SpyDirectory {
    fn fmt(&self, f: &mut std::fmt::Formatter<'_>) -> std::fmt::Result {
        write!(f, "SpyDirectory")
    }
}

fn is_lock(path: &Path) -> bool {
    path.to_str().map(|s| s.ends_with(".lock")).unwrap_or(false)
}

impl SpyDirectory {
    pub fn new() -> SpyDirectory {
        SpyDirectory::wrap(RamDirectory::create())
    }

    pub fn wrap(inner: RamDirectory) -> SpyDirectory {
        SpyDirectory {
            inner,
            shared: Arc::new(Shared {
                op_counter: AtomicUsize::new(0),
                fail_mode: Mutex::new(FailMode::Never),
                count_locks: AtomicBool::new(false),
                log: Mutex::new(Vec::new()),
                failed_ops: Mutex::new(Vec::new()),
                created: Mutex::new(BTreeSet::new()),
                model: Mutex::new(Model::default()),
                hook: Mutex::new(None),
                serial: Mutex::new(()),
            }),
        }
    }

    pub fn set_fail_mode(&self, mode: FailMode) {
        *self.shared.fail_mode.lock().unwrap() = mode;
    }

    pub fn num_ops(&self) -> usize {
        self.shared.op_counter.load(Ordering::SeqCst)
    }

    pub fn log(&self) -> Vec<String> {
        self.shared.log.lock().unwrap().clone()
    }

    pub fn failed_ops(&self) -> Vec<String> {
        self.shared.failed_ops.lock().unwrap().clone()
    }

    /// All the files that currently exist (lock files excluded).
    pub fn existing_files(&self) -> BTreeSet<PathBuf> {
        self.shared
            .created
            .lock()
            .unwrap()
            .iter()
            .filter(|p| !is_lock(p))
            .filter(|p| self.inner.exists(p).unwrap())
            .cloned()
            .collect()
    }

    pub fn inner_exists(&self, path: &Path) -> bool {
        self.inner.exists(path).unwrap()
    }

    pub fn read_raw(&self, path: &Path) -> Vec<u8> {
        self.inner.atomic_read(path).unwrap()
    }

    /// Replaces the raw content of a file (footer included).
    pub fn overwrite_raw(&self, path: &Path, data: &[u8]) {
        self.inner.atomic_write(path, data).unwrap();
    }

    /// Registers one operation. Returns an error if the operation has to fail.
    fn op(&self, desc: String) -> io::Result<()> {
        let k = self.shared.op_counter.fetch_add(1, Ordering::SeqCst);
        {
            let model = self.shared.model.lock().unwrap();
            if let Some(hook) = self.shared.hook.lock().unwrap().as_mut() {
                hook(k, &desc, &model);
            }
        }
        self.shared.log.lock().unwrap().push(format!("{k}: {desc}"));
        let mut mode_guard = self.shared.fail_mode.lock().unwrap();
        let mode = *mode_guard;
        let fail = match mode {
            FailMode::Never => false,
            FailMode::Once(n) => k == n,
            FailMode::From(n) => k >= n,
            FailMode::NextMatching(pattern) => {
                if pattern.split("&&").all(|part| desc.contains(part)) {
                    *mode_guard = FailMode::Never;
                    true
                } else {
                    false
                }
            }
            FailMode::AllMatching(pattern) => pattern.split("&&").all(|part| desc.contains(part)),
        };
        drop(mode_guard);
        if fail {
            self.shared
                .failed_ops
                .lock()
                .unwrap()
                .push(format!("{k}: {desc}"));
            Err(io::Error::other(format!("injected fault at op {k}: {desc}")))
        } else {
            Ok(())
        }
    }

    // ---- durable model -------------------------------------------------

    fn model_create(&self, path: &Path) {
        let mut m = self.shared.model.lock().unwrap();
        let inode = m.inode_counter;
        m.inode_counter += 1;
        m.inodes.insert(inode, (Vec::new(), false));
        m.current_entries.insert(path.to_path_buf(), inode);
    }

    fn model_append(&self, path: &Path, inode_hint: usize, data: &[u8]) {
        let mut m = self.shared.model.lock().unwrap();
        let _ = path;
        if let Some(entry) = m.inodes.get_mut(&inode_hint) {
            entry.0.extend_from_slice(data);
        }
    }

    fn model_fsync(&self, inode: usize) {
        let mut m = self.shared.model.lock().unwrap();
        if let Some(entry) = m.inodes.get_mut(&inode) {
            entry.1 = true;
        }
    }

    fn model_inode_of(&self, path: &Path) -> Option<usize> {
        self.shared
            .model
            .lock()
            .unwrap()
            .current_entries
            .get(path)
            .cloned()
    }

    fn model_atomic_write(&self, path: &Path, data: &[u8]) {
        // content is synced before the rename, the rename itself is an un-synced entry change.
        let mut m = self.shared.model.lock().unwrap();
        let inode = m.inode_counter;
        m.inode_counter += 1;
        m.inodes.insert(inode, (data.to_vec(), true));
        m.current_entries.insert(path.to_path_buf(), inode);
    }

    fn model_delete(&self, path: &Path) {
        let mut m = self.shared.model.lock().unwrap();
        m.current_entries.remove(path);
    }

    fn model_sync_dir(&self) {
        let mut m = self.shared.model.lock().unwrap();
        m.durable_entries = m.current_entries.clone();
    }
}

impl Model {
    /// Crash images allowed by the storage contract:
    /// - a file content is only guaranteed once the file was terminated (fsync),
    /// - creations / renames / unlinks are only guaranteed once the directory was synced.
    pub fn crash_images(&self) -> Vec<CrashImage> {
        let mut images = Vec::new();
        let content = |inode: &usize, keep_unsynced: u8| -> Vec<u8> {
            let (data, synced) = &self.inodes[inode];
            if *synced {
                data.clone()
            } else {
                match keep_unsynced {
                    0 => Vec::new(),
                    1 => data[..data.len() / 2].to_vec(),
                    _ => data.clone(),
                }
            }
        };
        // 1. nothing that was not synced survived.
        let mut files = BTreeMap::new();
        for (path, inode) in &self.durable_entries {
            files.insert(path.clone(), content(inode, 0));
        }
        images.push(CrashImage {
            name: "entries:durable-only data:unsynced-lost",
            files,
        });
        // 2. every entry change was applied, un-synced data lost (empty files)
        let mut files = BTreeMap::new();
        for (path, inode) in &self.current_entries {
            files.insert(path.clone(), content(inode, 0));
        }
        images.push(CrashImage {
            name: "entries:all-applied data:unsynced-lost",
            files,
        });
        // 3. every entry change was applied, un-synced data truncated
        let mut files = BTreeMap::new();
        for (path, inode) in &self.current_entries {
            files.insert(path.clone(), content(inode, 1));
        }
        images.push(CrashImage {
            name: "entries:all-applied data:unsynced-truncated",
            files,
        });
        // 4. everything present
        let mut files = BTreeMap::new();
        for (path, inode) in &self.current_entries {
            files.insert(path.clone(), content(inode, 2));
        }
        images.push(CrashImage {
            name: "entries:all-applied data:all-present",
            files,
        });
        // 5. renames (replacement of an existing durable entry) applied, creations and unlinks
        // not applied.
        let mut files = BTreeMap::new();
        for (path, inode) in &self.durable_entries {
            let inode = self.current_entries.get(path).unwrap_or(inode);
            files.insert(path.clone(), content(inode, 0));
        }
        images.push(CrashImage {
            name: "entries:renames-applied,creations+unlinks-lost data:unsynced-lost",
            files,
        });
        // 6. unlinks applied, renames and creations not applied.
        let mut files = BTreeMap::new();
        for (path, inode) in &self.durable_entries {
            if self.current_entries.contains_key(path) {
                files.insert(path.clone(), content(inode, 0));
            }
        }
        images.push(CrashImage {
            name: "entries:unlinks-applied,renames+creations-lost data:unsynced-lost",
            files,
        });
        // 7. creations and unlinks applied, renames not applied
        let mut files = BTreeMap::new();
        for (path, inode) in &self.current_entries {
            let inode = self.durable_entries.get(path).unwrap_or(inode);
            files.insert(path.clone(), content(inode, 2));
        }
        images.push(CrashImage {
            name: "entries:creations+unlinks-applied,renames-lost data:all-present",
            files,
        });
        images
    }
}

impl CrashImage {
    /// Builds a fresh RamDirectory holding the image (lock files are dropped: the documentation
    /// says a stale lock file has to be removed by hand after a crash).
    pub fn to_ram_directory(&self) -> RamDirectory {
        let dir = RamDirectory::create();
        for (path, data) in &self.files {
            if is_lock(path) {
                continue;
            }
            dir.atomic_write(path, data).unwrap();
        }
        dir
    }
}

struct SpyWriter {
    path: PathBuf,
    inode: usize,
    dir: SpyDirectory,
    inner: Box<dyn TerminatingWrite + Send + Sync>,
    quiet: bool,
}

impl Write for SpyWriter {
    fn write(&mut self, buf: &[u8]) -> io::Result<usize> {
        if !self.quiet {
            let _g = self.dir.shared.serial.lock().unwrap();
            self.dir
                .op(format!("write {:?} ({} bytes)", self.path, buf.len()))?;
            let n = self.inner.write(buf)?;
            self.dir.model_append(&self.path, self.inode, &buf[..n]);
            Ok(n)
        } else {
            self.inner.write(buf)
        }
    }

    fn flush(&mut self) -> io::Result<()> {
        if !self.quiet {
            let _g = self.dir.shared.serial.lock().unwrap();
            self.dir.op(format!("flush {:?}", self.path))?;
        }
        self.inner.flush()
    }
}

impl TerminatingWrite for SpyWriter {
    fn terminate_ref(&mut self, token: AntiCallToken) -> io::Result<()> {
        if !self.quiet {
            let _g = self.dir.shared.serial.lock().unwrap();
            self.dir.op(format!("terminate {:?}", self.path))?;
            self.inner.terminate_ref(token)?;
            self.dir.model_fsync(self.inode);
            Ok(())
        } else {
            self.inner.terminate_ref(token)
        }
    }
}

impl Directory for SpyDirectory {
    fn get_file_handle(&self, path: &Path) -> Result<Arc<dyn FileHandle>, OpenReadError> {
        let file_slice = self.open_read(path)?;
        Ok(Arc::new(file_slice))
    }

    fn open_read(&self, path: &Path) -> Result<FileSlice, OpenReadError> {
        let _g = self.shared.serial.lock().unwrap();
        self.op(format!("open_read {path:?}"))
            .map_err(|e| OpenReadError::wrap_io_error(e, path.to_path_buf()))?;
        self.inner.open_read(path)
    }

    fn delete(&self, path: &Path) -> Result<(), DeleteError> {
        let _g = self.shared.serial.lock().unwrap();
        if !is_lock(path) || self.shared.count_locks.load(Ordering::SeqCst) {
            self.op(format!("delete {path:?}"))
                .map_err(|e| DeleteError::IoError {
                    io_error: Arc::new(e),
                    filepath: path.to_path_buf(),
                })?;
        }
        self.inner.delete(path)?;
        self.model_delete(path);
        Ok(())
    }

    fn exists(&self, path: &Path) -> Result<bool, OpenReadError> {
        self.inner.exists(path)
    }

    fn open_write(&self, path: &Path) -> Result<WritePtr, OpenWriteError> {
        let _g = self.shared.serial.lock().unwrap();
        let quiet = is_lock(path) && !self.shared.count_locks.load(Ordering::SeqCst);
        if !quiet {
            self.op(format!("open_write {path:?}"))
                .map_err(|e| OpenWriteError::wrap_io_error(e, path.to_path_buf()))?;
        }
        let wrt = self.inner.open_write(path)?;
        self.shared
            .created
            .lock()
            .unwrap()
            .insert(path.to_path_buf());
        self.model_create(path);
        let inode = self.model_inode_of(path).unwrap();
        let inner = wrt
            .into_inner()
            .map_err(|_| ())
            .expect("buffer should be empty");
        Ok(io::BufWriter::new(Box::new(SpyWriter {
            path: path.to_path_buf(),
            inode,
            dir: self.clone(),
            inner,
            quiet,
        })))
    }

    fn atomic_read(&self, path: &Path) -> Result<Vec<u8>, OpenReadError> {
        let _g = self.shared.serial.lock().unwrap();
        self.op(format!("atomic_read {path:?}"))
            .map_err(|e| OpenReadError::wrap_io_error(e, path.to_path_buf()))?;
        self.inner.atomic_read(path)
    }

    fn atomic_write(&self, path: &Path, data: &[u8]) -> io::Result<()> {
        {
            let _g = self.shared.serial.lock().unwrap();
            self.op(format!("atomic_write {path:?} ({} bytes)", data.len()))?;
            self.shared
                .created
                .lock()
                .unwrap()
                .insert(path.to_path_buf());
            self.model_atomic_write(path, data);
        }
        // (the watch callbacks are called outside of our lock)
        self.inner.atomic_write(path, data)
    }

    fn watch(&self, watch_callback: WatchCallback) -> tantivy::Result<WatchHandle> {
        self.inner.watch(watch_callback)
    }

    fn sync_directory(&self) -> io::Result<()> {
        let _g = self.shared.serial.lock().unwrap();
        self.op("sync_directory".to_string())?;
        self.model_sync_dir();
        Ok(())
    }
}
