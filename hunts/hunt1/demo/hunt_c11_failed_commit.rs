//! C11: one transient I/O error on the replace of `meta.json` makes `commit()` return an error.
//!
//! 1. `failed_commit_is_published_later_by_a_merge`: the in-memory state of the writer has already
//!    switched to the new commit (`SegmentManager::commit` runs before `save_metas`): the
//!    documents of the commit whose call returned an error get published by the end of the next
//!    merge, under the opstamp of the previous commit.
//! 2. `delete_file_of_failed_commit_blocks_commit_after_rollback`: the `.del` file written by the
//!    failed commit stays around; after `rollback()` the opstamps are handed out again, and the
//!    commit that gets the same opstamp fails with `FileAlreadyExists` although the storage is
//!    healthy: "after dropping or rolling back the failed writer a new writer can continue
//!    indexing normally" is violated.
mod hunt_support;

use hunt_support::{FailMode, SpyDirectory};
use tantivy::collector::Count;
use tantivy::merge_policy::NoMergePolicy;
use tantivy::query::AllQuery;
use tantivy::schema::{Schema, FAST, INDEXED, STORED, TEXT};
use tantivy::{doc, Index, IndexSettings, IndexWriter, Term};

fn schema() -> Schema {
    let mut schema_builder = Schema::builder();
    schema_builder.add_u64_field("id", FAST | INDEXED | STORED);
    schema_builder.add_text_field("text", TEXT | STORED);
    schema_builder.build()
}

/// Opens a copy of what is on storage and counts the documents.
fn num_docs_on_storage(dir: &SpyDirectory) -> tantivy::Result<usize> {
    let index = Index::open(dir.inner.deep_clone())?;
    let reader = index.reader()?;
    reader.searcher().search(&AllQuery, &Count)
}

#[test]
fn failed_commit_is_published_later_by_a_merge() {
    let schema = schema();
    let id = schema.get_field("id").unwrap();
    let text = schema.get_field("text").unwrap();
    let dir = SpyDirectory::new();
    let index = Index::create(dir.clone(), schema, IndexSettings::default()).unwrap();
    let mut writer: IndexWriter = index.writer_with_num_threads(1, 20_000_000).unwrap();
    writer.set_merge_policy(Box::new(NoMergePolicy));
    for i in 0..10u64 {
        writer.add_document(doc!(id => i, text => "a")).unwrap();
    }
    let first_opstamp = writer.commit().unwrap();
    for i in 10..20u64 {
        writer.add_document(doc!(id => i, text => "a")).unwrap();
    }
    writer.commit().unwrap();
    let second_opstamp = index.load_metas().unwrap().opstamp;
    assert!(second_opstamp > first_opstamp);
    assert_eq!(num_docs_on_storage(&dir).unwrap(), 20);

    for i in 20..30u64 {
        writer.add_document(doc!(id => i, text => "a")).unwrap();
    }
    dir.set_fail_mode(FailMode::NextMatching("atomic_write \"meta.json\""));
    assert!(writer.commit().is_err());
    assert_eq!(num_docs_on_storage(&dir).unwrap(), 20);

    // A merge of two segments of the last successful commit.
    let segment_ids = index.searchable_segment_ids().unwrap();
    assert_eq!(segment_ids.len(), 2);
    writer.merge(&segment_ids).wait().unwrap();

    let metas = index.load_metas().unwrap();
    let num_docs = num_docs_on_storage(&dir).unwrap();
    assert!(
        num_docs == 20,
        "storage exposes {num_docs} documents under opstamp {} (the opstamp of the last \
         successful commit is {second_opstamp}, it has 20 documents; the commit of the 10 others \
         returned an error)",
        metas.opstamp
    );
}

/// Runs: commit 10 docs; 2 deletes + commit with one I/O fault on meta.json; rollback;
/// `num_deletes_after_rollback` deletes + commit (no fault).
/// Returns the result of the last commit.
fn failed_commit_rollback_retry(num_deletes_after_rollback: u64) -> (tantivy::Result<u64>, Vec<String>) {
    let schema = schema();
    let id = schema.get_field("id").unwrap();
    let text = schema.get_field("text").unwrap();
    let dir = SpyDirectory::new();
    let index = Index::create(dir.clone(), schema, IndexSettings::default()).unwrap();
    let mut writer: IndexWriter = index.writer_with_num_threads(1, 20_000_000).unwrap();
    writer.set_merge_policy(Box::new(NoMergePolicy));
    for i in 0..10u64 {
        writer.add_document(doc!(id => i, text => "a")).unwrap();
    }
    writer.commit().unwrap();

    writer.delete_term(Term::from_field_u64(id, 1));
    writer.delete_term(Term::from_field_u64(id, 2));
    dir.set_fail_mode(FailMode::NextMatching("atomic_write \"meta.json\""));
    assert!(writer.commit().is_err());
    assert_eq!(dir.failed_ops().len(), 1);

    // The documented way out: roll back, and do the work again. The storage is healthy now.
    writer.rollback().unwrap();
    assert_eq!(num_docs_on_storage(&dir).unwrap(), 10);
    for i in 0..num_deletes_after_rollback {
        writer.delete_term(Term::from_field_u64(id, i));
    }
    let commit_res = writer.commit();
    if commit_res.is_ok() {
        assert_eq!(
            num_docs_on_storage(&dir).unwrap() as u64,
            10 - num_deletes_after_rollback
        );
    }
    (commit_res, dir.failed_ops())
}

#[test]
fn delete_file_of_failed_commit_blocks_commit_after_rollback() {
    let mut failures = Vec::new();
    for num_deletes in 1..=6u64 {
        let (commit_res, failed_ops) = failed_commit_rollback_retry(num_deletes);
        if let Err(err) = commit_res {
            failures.push(format!(
                "{num_deletes} deletes after rollback: commit failed without any I/O fault \
                 (injected faults: {failed_ops:?}): {err:?}"
            ));
        }
    }
    assert!(failures.is_empty(), "{failures:#?}");
}
