//! C01 sweep: crash images at every boundary between two storage operations.
//!
//! Storage contract used to build the images (the one documented in `MmapDirectory::open_write`:
//! "The file will only be durably written after we terminate AND sync_directory() is called"):
//! * the content of a file is guaranteed once it was terminated (fsync), `atomic_write` syncs the
//!   content before the rename;
//! * creations, renames (atomic replace) and unlinks are guaranteed once `sync_directory` was
//!   called; before that each of them may have been applied or not.
//!
//! For every image: the index must open, expose exactly the documents of the last commit whose
//! call returned or of the commit in progress, every referenced file must pass its checksum, and a
//! new writer must be able to replay the batch that was in progress, commit, and collect garbage.
mod hunt_support;

use std::collections::hash_map::DefaultHasher;
use std::collections::{BTreeSet, HashSet};
use std::hash::{Hash, Hasher};
use std::path::PathBuf;
use std::sync::{Arc, Mutex};

use hunt_support::{CrashImage, SpyDirectory};
use tantivy::merge_policy::LogMergePolicy;
use tantivy::schema::{Schema, Value, FAST, INDEXED, STORED, TEXT};
use tantivy::{
    doc, DocAddress, Index, IndexSettings, IndexWriter, ReloadPolicy, TantivyDocument, Term,
};

fn schema() -> Schema {
    let mut schema_builder = Schema::builder();
    schema_builder.add_u64_field("id", FAST | INDEXED | STORED);
    schema_builder.add_text_field("text", TEXT | STORED);
    schema_builder.build()
}

fn ids_of(index: &Index) -> tantivy::Result<BTreeSet<u64>> {
    let reader = index
        .reader_builder()
        .reload_policy(ReloadPolicy::Manual)
        .try_into()?;
    let searcher = reader.searcher();
    let id_field = index.schema().get_field("id")?;
    let mut ids = BTreeSet::new();
    for (segment_ord, segment_reader) in searcher.segment_readers().iter().enumerate() {
        let column = segment_reader.fast_fields().u64("id")?;
        for doc_id in segment_reader.doc_ids_alive() {
            let id = column.first(doc_id).expect("id fast field");
            let doc: TantivyDocument = searcher.doc(DocAddress::new(segment_ord as u32, doc_id))?;
            let stored_id = doc.get_first(id_field).and_then(|v| v.as_u64());
            assert_eq!(stored_id, Some(id), "doc store and fast field disagree");
            ids.insert(id);
        }
    }
    Ok(ids)
}

fn merge_policy() -> Box<LogMergePolicy> {
    let mut policy = LogMergePolicy::default();
    policy.set_min_num_segments(2);
    Box::new(policy)
}

#[derive(Clone, Debug, Default)]
struct Batch {
    adds: Vec<u64>,
    deletes: Vec<u64>,
    result: BTreeSet<u64>,
}

#[derive(Clone, Debug, Default)]
struct Progress {
    last_returned: BTreeSet<u64>,
    in_progress: Option<Batch>,
}

struct Captured {
    op: usize,
    desc: String,
    image: CrashImage,
    progress: Progress,
}

fn check_image(captured: &Captured) -> Vec<String> {
    let mut problems = Vec::new();
    let ram = captured.image.to_ram_directory();
    let dir = SpyDirectory::wrap(ram);
    for path in captured.image.files.keys() {
        dir.shared.created.lock().unwrap().insert(path.clone());
    }
    let index = match Index::open(dir.clone()) {
        Ok(index) => index,
        Err(err) => {
            problems.push(format!("Index::open failed: {err:?}"));
            return problems;
        }
    };
    let mut current = match ids_of(&index) {
        Ok(ids) => ids,
        Err(err) => {
            problems.push(format!("the recovered index cannot be searched: {err:?}"));
            return problems;
        }
    };
    let progress = &captured.progress;
    let is_last = current == progress.last_returned;
    let is_in_progress = progress
        .in_progress
        .as_ref()
        .map(|batch| batch.result == current)
        .unwrap_or(false);
    if !is_last && !is_in_progress {
        problems.push(format!(
            "recovered documents {current:?}: neither the last returned commit {:?} nor the commit \
             in progress {:?}",
            progress.last_returned,
            progress.in_progress.as_ref().map(|b| &b.result)
        ));
    }
    // every referenced file passes its checksum.
    for segment_meta in index.searchable_segment_metas().unwrap() {
        for path in segment_meta.list_files() {
            if dir.inner_exists(&path) {
                match index.directory().validate_checksum(&path) {
                    Ok(true) => {}
                    other => problems.push(format!("checksum of {path:?}: {other:?}")),
                }
            }
        }
    }
    // a new writer replays the batch that was in progress (or some other batch)
    let id = index.schema().get_field("id").unwrap();
    let text = index.schema().get_field("text").unwrap();
    let batch = match (&progress.in_progress, is_in_progress) {
        (Some(batch), false) => batch.clone(),
        _ => Batch {
            adds: vec![5000, 5001],
            deletes: vec![3],
            result: BTreeSet::new(),
        },
    };
    let continue_res = (|| -> tantivy::Result<()> {
        let mut writer: IndexWriter = index.writer_with_num_threads(1, 20_000_000)?;
        writer.set_merge_policy(merge_policy());
        for i in &batch.adds {
            writer.add_document(doc!(id => *i, text => "hello happy tax payer"))?;
            current.insert(*i);
        }
        for d in &batch.deletes {
            writer.delete_term(Term::from_field_u64(id, *d));
            current.remove(d);
        }
        writer.commit()?;
        writer.garbage_collect_files().wait()?;
        writer.wait_merging_threads()?;
        Ok(())
    })();
    if let Err(err) = continue_res {
        problems.push(format!(
            "the recovered index does not accept a new writer + commit of {batch:?}: {err:?}"
        ));
        return problems;
    }
    match ids_of(&index) {
        Ok(ids) if ids == current => {}
        other => problems.push(format!(
            "after the commit on the recovered index: {other:?}, expected {current:?}"
        )),
    }
    let final_res = (|| -> tantivy::Result<()> {
        let mut writer: IndexWriter = index.writer_with_num_threads(1, 20_000_000)?;
        writer.commit()?;
        writer.garbage_collect_files().wait()?;
        writer.wait_merging_threads()?;
        Ok(())
    })();
    if let Err(err) = final_res {
        problems.push(format!("second commit + gc on the recovered index: {err:?}"));
    }
    let mut expected: BTreeSet<PathBuf> = BTreeSet::new();
    for segment_meta in index.searchable_segment_metas().unwrap() {
        expected.extend(segment_meta.list_files());
    }
    expected.insert(PathBuf::from("meta.json"));
    expected.insert(PathBuf::from(".managed.json"));
    let existing = dir.existing_files();
    let orphans: Vec<&PathBuf> = existing.difference(&expected).collect();
    if !orphans.is_empty() {
        problems.push(format!(
            "orphan files after recovery + commit + gc: {orphans:?}"
        ));
    }
    problems
}

#[test]
fn crash_at_every_storage_operation_boundary() {
    let dir = SpyDirectory::new();
    let index = Index::create(dir.clone(), schema(), IndexSettings::default()).unwrap();
    let id = index.schema().get_field("id").unwrap();
    let text = index.schema().get_field("text").unwrap();

    let progress = Arc::new(Mutex::new(Progress::default()));
    let captured: Arc<Mutex<Vec<Captured>>> = Arc::new(Mutex::new(Vec::new()));
    {
        let progress = progress.clone();
        let captured = captured.clone();
        let mut seen: HashSet<u64> = HashSet::new();
        *dir.shared.hook.lock().unwrap() = Some(Box::new(move |op, desc, model| {
            let progress = progress.lock().unwrap().clone();
            for image in model.crash_images() {
                let mut hasher = DefaultHasher::new();
                image.files.hash(&mut hasher);
                progress.last_returned.hash(&mut hasher);
                progress
                    .in_progress
                    .as_ref()
                    .map(|b| b.result.clone())
                    .hash(&mut hasher);
                if seen.insert(hasher.finish()) {
                    captured.lock().unwrap().push(Captured {
                        op,
                        desc: desc.to_string(),
                        image,
                        progress: progress.clone(),
                    });
                }
            }
        }));
    }

    let mut writer: IndexWriter = index.writer_with_num_threads(1, 20_000_000).unwrap();
    writer.set_merge_policy(merge_policy());
    let commit = |writer: &mut IndexWriter, adds: std::ops::Range<u64>, deletes: &[u64]| {
        let mut batch = Batch {
            adds: adds.clone().collect(),
            deletes: deletes.to_vec(),
            result: progress.lock().unwrap().last_returned.clone(),
        };
        batch.result.extend(adds.clone());
        for d in deletes {
            batch.result.remove(d);
        }
        progress.lock().unwrap().in_progress = Some(batch.clone());
        for i in adds {
            writer
                .add_document(doc!(id => i, text => "hello happy tax payer"))
                .unwrap();
        }
        for d in deletes {
            writer.delete_term(Term::from_field_u64(id, *d));
        }
        writer.commit().unwrap();
        let mut progress = progress.lock().unwrap();
        progress.last_returned = batch.result;
        progress.in_progress = None;
    };
    commit(&mut writer, 0..5, &[]);
    commit(&mut writer, 5..10, &[2]);
    commit(&mut writer, 10..15, &[7]);
    for i in 100..105u64 {
        writer
            .add_document(doc!(id => i, text => "to be rolled back"))
            .unwrap();
    }
    writer.rollback().unwrap();
    writer.set_merge_policy(merge_policy());
    commit(&mut writer, 15..20, &[11, 0]);
    writer.wait_merging_threads().unwrap();
    *dir.shared.hook.lock().unwrap() = None;

    let captured = std::mem::take(&mut *captured.lock().unwrap());
    println!(
        "{} storage operations, {} distinct crash images",
        dir.num_ops(),
        captured.len()
    );
    let log = dir.log();
    // (image kind, problem kind) -> (count, first example)
    let mut report: std::collections::BTreeMap<(String, String), (usize, String)> =
        Default::default();
    let mut num_bad_images = 0;
    for one in &captured {
        let problems = check_image(one);
        if problems.is_empty() {
            continue;
        }
        num_bad_images += 1;
        for problem in problems {
            let kind: String = problem
                .split(|c| c == ':' || c == '[' || c == '{')
                .next()
                .unwrap()
                .to_string();
            let prev = if one.op > 0 { log[one.op - 1].as_str() } else { "-" };
            let example = format!(
                "crash between ({prev}) and ({}: {})\n      files of the image: {:?}\n      {problem}",
                one.op,
                one.desc,
                one.image
                    .files
                    .iter()
                    .map(|(p, d)| format!("{}:{}", p.display(), d.len()))
                    .collect::<Vec<_>>(),
            );
            let entry = report
                .entry((kind, one.image.name.to_string()))
                .or_insert((0, example));
            entry.0 += 1;
        }
    }
    let report_str: Vec<String> = report
        .iter()
        .map(|((kind, image), (count, example))| {
            format!("* {count} x [{kind}] with image [{image}]; first example:\n      {example}")
        })
        .collect();
    assert!(
        report.is_empty(),
        "{num_bad_images} bad crash images out of {}\n{}",
        captured.len(),
        report_str.join("\n")
    );
}
