//! C03 demos: RangeQuery on a JSON fast-field path whose column type differs from the
//! numeric type of the query bounds (src/query/range_query/range_query_fastfield.rs,
//! `search_on_json_numerical_field` / `transform_from_f64_bounds`).
//!
//! Each test FAILS on the current code.
use std::collections::BTreeSet;
use std::ops::Bound;

use tantivy::collector::{Count, DocSetCollector};
use tantivy::query::{Query, QueryParser, RangeQuery};
use tantivy::schema::*;
use tantivy::{Index, IndexWriter, TantivyDocument, Term};

/// Builds a single segment index; doc `i` has json value `jsons[i]` in field `j`.
fn build(jsons: &[&str]) -> (Index, Field) {
    let mut sb = Schema::builder();
    sb.add_u64_field("id", FAST);
    let j = sb.add_json_field("j", JsonObjectOptions::from(TEXT | FAST));
    let schema = sb.build();
    let index = Index::create_in_ram(schema.clone());
    let mut w: IndexWriter = index.writer_with_num_threads(1, 50_000_000).unwrap();
    for (i, js) in jsons.iter().enumerate() {
        let full = format!("{{\"id\": {i}, \"j\": {js}}}");
        w.add_document(TantivyDocument::parse_json(&schema, &full).unwrap())
            .unwrap();
    }
    w.commit().unwrap();
    (index, j)
}

fn matching_ids(index: &Index, q: &dyn Query) -> BTreeSet<u64> {
    let searcher = index.reader().unwrap().searcher();
    let addrs = searcher.search(q, &DocSetCollector).unwrap();
    assert_eq!(addrs.len(), searcher.search(q, &Count).unwrap());
    addrs
        .iter()
        .map(|a| {
            let col = searcher
                .segment_reader(a.segment_ord)
                .fast_fields()
                .u64("id")
                .unwrap();
            col.first(a.doc_id).unwrap()
        })
        .collect()
}

fn f64_term(j: Field, path: &str, v: f64) -> Term {
    let mut t = Term::from_field_json_path(j, path, false);
    t.append_type_and_fast_value(v);
    t
}

fn u64_term(j: Field, path: &str, v: u64) -> Term {
    let mut t = Term::from_field_json_path(j, path, false);
    t.append_type_and_fast_value(v);
    t
}

/// `j.a >= 1.5` over the integers {1, 2, -1, -2} must match only `2`.
/// Current code turns the bound into `Included(trunc(1.5)) = Included(1)` and also returns `1`.
#[test]
fn f64_fractional_lower_bound_on_integer_column() {
    let (index, j) = build(&[r#"{"a": 1}"#, r#"{"a": 2}"#, r#"{"a": -1}"#, r#"{"a": -2}"#]);
    let q = RangeQuery::new(Bound::Included(f64_term(j, "a", 1.5)), Bound::Unbounded);
    assert_eq!(matching_ids(&index, &q), BTreeSet::from([1u64]));
}

/// `j.a <= -1.5` over the integers {1, 2, -1, -2} must match only `-2`.
/// Current code turns the bound into `Included(trunc(-1.5)) = Included(-1)` and also returns `-1`.
#[test]
fn f64_fractional_negative_upper_bound_on_integer_column() {
    let (index, j) = build(&[r#"{"a": 1}"#, r#"{"a": 2}"#, r#"{"a": -1}"#, r#"{"a": -2}"#]);
    let q = RangeQuery::new(Bound::Unbounded, Bound::Included(f64_term(j, "a", -1.5)));
    assert_eq!(matching_ids(&index, &q), BTreeSet::from([3u64]));
}

/// Same defect through the query parser.
#[test]
fn parsed_fractional_bound_on_integer_column() {
    let (index, j) = build(&[r#"{"a": 1}"#, r#"{"a": 2}"#, r#"{"a": -1}"#, r#"{"a": -2}"#]);
    let qp = QueryParser::for_index(&index, vec![j]);
    let q = qp.parse_query("j.a:>=1.5").unwrap();
    assert_eq!(matching_ids(&index, &*q), BTreeSet::from([1u64]));
}

/// An f64 upper bound that lies below the smallest value representable by the integer column
/// (here -1.0 on a u64 column, the column holds a value > i64::MAX) makes the range empty.
/// Current code replaces that upper bound by `Unbounded`, so `[-5.0, -1.0]` matches every doc.
#[test]
fn f64_upper_bound_below_integer_domain_matches_everything() {
    let (index, j) = build(&[r#"{"a": 5}"#, r#"{"a": 9223372036854775900}"#, r#"{"a": 0}"#]);
    let q = RangeQuery::new(
        Bound::Included(f64_term(j, "a", -5.0)),
        Bound::Included(f64_term(j, "a", -1.0)),
    );
    assert_eq!(matching_ids(&index, &q), BTreeSet::new());
}

/// Same on an i64 column: `j.a <= -1e30` cannot match any i64.
#[test]
fn f64_upper_bound_below_i64_min_matches_everything() {
    let (index, j) = build(&[r#"{"a": 1}"#, r#"{"a": -2}"#]);
    let q = RangeQuery::new(Bound::Unbounded, Bound::Included(f64_term(j, "a", -1e30)));
    assert_eq!(matching_ids(&index, &q), BTreeSet::new());
}

/// A u64 lower bound above i64::MAX on an i64 column cannot match anything.
/// Current code uses `Excluded(i64::MAX as u64)` in the *order-preserving mapped* u64 space,
/// where that number stands for the i64 value -1, so every non-negative value matches.
#[test]
fn u64_lower_bound_above_i64_max_on_i64_column() {
    let (index, j) = build(&[r#"{"a": 1}"#, r#"{"a": 2}"#, r#"{"a": -1}"#]);
    let q = RangeQuery::new(
        Bound::Included(u64_term(j, "a", (1u64 << 63) + 5)),
        Bound::Unbounded,
    );
    assert_eq!(matching_ids(&index, &q), BTreeSet::new());
}

/// The query parser types each bound of a JSON range independently (`1.5` -> f64, `10` -> i64).
/// `search_on_json_numerical_field` assumes both bounds have the type of the first one and
/// panics (`Option::unwrap()` on `None`) instead of returning doc `2`.
#[test]
fn parsed_range_with_mixed_numeric_bound_types_panics() {
    let (index, j) = build(&[r#"{"a": 1}"#, r#"{"a": 2}"#, r#"{"a": 20}"#]);
    let qp = QueryParser::for_index(&index, vec![j]);
    let q = qp.parse_query("j.a:[1.5 TO 10]").unwrap();
    assert_eq!(matching_ids(&index, &*q), BTreeSet::from([1u64]));
}
