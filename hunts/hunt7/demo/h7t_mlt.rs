//! MoreLikeThisQuery: term selection defects that change the set of matching documents.
use std::collections::BTreeSet;

use tantivy::collector::TopDocs;
use tantivy::query::MoreLikeThisQuery;
use tantivy::schema::{Facet, FacetOptions, OwnedValue, Schema, FAST, STORED, TEXT};
use tantivy::{doc, Index, IndexWriter, Searcher};

fn hit_ids(searcher: &Searcher, q: &MoreLikeThisQuery) -> BTreeSet<u64> {
    searcher
        .search(q, &TopDocs::with_limit(100).order_by_score())
        .unwrap()
        .into_iter()
        .map(|(_, a)| {
            searcher
                .segment_reader(a.segment_ord)
                .fast_fields()
                .u64("id")
                .unwrap()
                .first(a.doc_id)
                .unwrap()
        })
        .collect()
}

/// `with_max_query_terms(n)`: "Don't return a query longer than this". With n = 1 only the best
/// term (apple, tf 3) may be used, so only doc 0 can match.
#[test]
fn mlt_max_query_terms_is_off_by_one() {
    let mut sb = Schema::builder();
    let id = sb.add_u64_field("id", FAST);
    let body = sb.add_text_field("body", TEXT | STORED);
    let index = Index::create_in_ram(sb.build());
    let mut w: IndexWriter = index.writer_with_num_threads(1, 20_000_000).unwrap();
    w.add_document(doc!(id => 0u64, body => "apple")).unwrap();
    w.add_document(doc!(id => 1u64, body => "banana")).unwrap();
    w.add_document(doc!(id => 2u64, body => "cherry")).unwrap();
    w.add_document(doc!(id => 3u64, body => "unrelated")).unwrap();
    w.commit().unwrap();
    let searcher = index.reader().unwrap().searcher();
    for n in 1..=2usize {
        let q = MoreLikeThisQuery::builder()
            .with_min_doc_frequency(1)
            .with_min_term_frequency(1)
            .with_max_query_terms(n)
            .with_document_fields(vec![(
                body,
                vec![OwnedValue::Str("apple apple apple banana banana cherry".to_string())],
            )]);
        let got = hit_ids(&searcher, &q);
        let expected: BTreeSet<u64> = (0..n as u64).collect();
        assert_eq!(got, expected, "max_query_terms = {n}");
    }
}

/// A document "like" one that carries the facet /cat/a must at least contain the documents that
/// carry the very same facet. The facet branch keeps only the *noise* words.
#[test]
fn mlt_ignores_facet_terms() {
    let mut sb = Schema::builder();
    let id = sb.add_u64_field("id", FAST);
    let facet = sb.add_facet_field("facet", FacetOptions::default().set_stored());
    let index = Index::create_in_ram(sb.build());
    let mut w: IndexWriter = index.writer_with_num_threads(1, 20_000_000).unwrap();
    w.add_document(doc!(id => 0u64, facet => Facet::from("/cat/a"))).unwrap();
    w.add_document(doc!(id => 1u64, facet => Facet::from("/cat/a"))).unwrap();
    w.add_document(doc!(id => 2u64, facet => Facet::from("/dog/b"))).unwrap();
    w.commit().unwrap();
    let searcher = index.reader().unwrap().searcher();
    let q = MoreLikeThisQuery::builder()
        .with_min_doc_frequency(1)
        .with_min_term_frequency(1)
        .with_document_fields(vec![(facet, vec![OwnedValue::Facet(Facet::from("/cat/a"))])]);
    let got = hit_ids(&searcher, &q);
    assert!(got.contains(&0) && got.contains(&1) && !got.contains(&2), "plain: got {got:?}");
}

/// ... and the filter is inverted: a facet token is used only if it *is* a stop word.
#[test]
fn mlt_facet_stop_words_are_inverted() {
    let mut sb = Schema::builder();
    let id = sb.add_u64_field("id", FAST);
    let facet = sb.add_facet_field("facet", FacetOptions::default().set_stored());
    let index = Index::create_in_ram(sb.build());
    let mut w: IndexWriter = index.writer_with_num_threads(1, 20_000_000).unwrap();
    w.add_document(doc!(id => 0u64, facet => Facet::from("/cat"))).unwrap();
    w.add_document(doc!(id => 1u64, facet => Facet::from("/dog"))).unwrap();
    w.commit().unwrap();
    let searcher = index.reader().unwrap().searcher();
    let q = MoreLikeThisQuery::builder()
        .with_min_doc_frequency(1)
        .with_min_term_frequency(1)
        .with_stop_words(vec!["cat".to_string()])
        .with_document_fields(vec![(facet, vec![OwnedValue::Facet(Facet::from("/cat"))])]);
    let got = hit_ids(&searcher, &q);
    assert!(got.is_empty(), "the only term is a stop word, nothing may match; got {got:?}");
}
