//! C03 demos for MoreLikeThisQuery (src/query/more_like_this/more_like_this.rs).
use std::collections::BTreeSet;

use tantivy::collector::TopDocs;
use tantivy::query::{MoreLikeThisQuery, Query};
use tantivy::schema::*;
use tantivy::{Index, IndexWriter, TantivyDocument};

fn build() -> (Index, Field, Field) {
    let mut sb = Schema::builder();
    let id = sb.add_u64_field("id", FAST);
    let text = sb.add_text_field("text", TEXT | STORED);
    let facet = sb.add_facet_field("facet", FacetOptions::default());
    let index = Index::create_in_ram(sb.build());
    let mut w: IndexWriter = index.writer_with_num_threads(1, 50_000_000).unwrap();
    for (i, (t, f)) in [
        ("apple banana", "/x/y"), // 0
        ("apple", "/x/y"),        // 1
        ("banana", "/z"),         // 2
        ("cherry", "/z"),         // 3
        ("apple", "/z"),          // 4
    ]
    .iter()
    .enumerate()
    {
        let mut td = TantivyDocument::new();
        td.add_u64(id, i as u64);
        td.add_text(text, t);
        td.add_facet(facet, Facet::from(*f));
        w.add_document(td).unwrap();
    }
    w.commit().unwrap();
    (index, text, facet)
}

fn matching_ids(index: &Index, q: &dyn Query) -> BTreeSet<u64> {
    let s = index.reader().unwrap().searcher();
    s.search(q, &TopDocs::with_limit(100).order_by_score())
        .unwrap()
        .iter()
        .map(|(_, a)| {
            s.segment_reader(a.segment_ord)
                .fast_fields()
                .u64("id")
                .unwrap()
                .first(a.doc_id)
                .unwrap()
        })
        .collect()
}

/// `with_max_query_terms(1)`: "The resulting query will not return a query with more clause than
/// this". "banana" (doc_freq 2) has a higher idf than "apple" (doc_freq 3), so the query must be
/// the single term `banana` -> docs {0, 2}.
/// `create_score_term` tests `score_terms.len() > limit` before pushing, so limit+1 terms are kept
/// and the docs that only contain "apple" (1 and 4) are returned as well.
#[test]
fn mlt_max_query_terms_is_off_by_one() {
    let (index, text, _facet) = build();
    let q = MoreLikeThisQuery::builder()
        .with_min_doc_frequency(1)
        .with_min_term_frequency(1)
        .with_max_query_terms(1)
        .with_document_fields(vec![(text, vec![OwnedValue::Str("apple banana".to_string())])]);
    assert_eq!(matching_ids(&index, &q), BTreeSet::from([0u64, 2]));
}

/// More-like-this on the facet `/x/y` must return the documents sharing (a prefix of) that facet:
/// {0, 1}. In `add_term_frequencies` the Facet branch keeps a token only `if is_noise_word(..)`
/// (negation missing, unlike every other branch): the real path tokens are dropped and only the
/// empty root token (noise because its length is 0) is kept, which every document with any facet
/// contains -> all 5 documents are returned.
#[test]
fn mlt_on_facet_keeps_only_noise_tokens() {
    let (index, _text, facet) = build();
    let q = MoreLikeThisQuery::builder()
        .with_min_doc_frequency(1)
        .with_min_term_frequency(1)
        .with_document_fields(vec![(facet, vec![OwnedValue::Facet(Facet::from("/x/y"))])]);
    assert_eq!(matching_ids(&index, &q), BTreeSet::from([0u64, 1]));
}
