// DEMO (fails on current code): HistogramCollector counts documents that have NO value
// for the fast field as if their value was 0 (u64) / i64::MIN (i64).
use tantivy::collector::{Count, FilterCollector, HistogramCollector};
use tantivy::query::AllQuery;
use tantivy::schema::{Schema, FAST, STRING};
use tantivy::{doc, Index, IndexWriter};

#[test]
fn h7c_histogram_counts_docs_without_value() {
    let mut sb = Schema::builder();
    let val = sb.add_u64_field("val", FAST);
    let tag = sb.add_text_field("tag", STRING);
    let index = Index::create_in_ram(sb.build());
    let mut w: IndexWriter = index.writer_with_num_threads(1, 50_000_000).unwrap();
    w.add_document(doc!(tag => "no value")).unwrap();
    w.add_document(doc!(tag => "no value either")).unwrap();
    w.add_document(doc!(tag => "x", val => 7u64)).unwrap();
    w.commit().unwrap();
    let searcher = index.reader().unwrap().searcher();

    // Sanity: only one document has a value in [0, 10) according to FilterCollector.
    let with_value = searcher
        .search(
            &AllQuery,
            &FilterCollector::new("val".to_string(), |v: u64| v < 10, Count),
        )
        .unwrap();
    assert_eq!(with_value, 1);

    // Buckets [0,5) and [5,10). The only value in the index is 7.
    let hist = searcher
        .search(
            &AllQuery,
            &HistogramCollector::new("val".to_string(), 0u64, 5, 2),
        )
        .unwrap();
    assert_eq!(hist, vec![0, 1], "docs without a value must not be counted");
}
