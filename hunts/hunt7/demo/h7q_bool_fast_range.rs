//! C03 demo: RangeQuery on a bool field gives the right answer through the term dictionary
//! (INDEXED only) but fails with `InvalidArgument("Expected term with u64, i64, f64 or date ..")`
//! as soon as the field is also FAST, although `is_type_valid_for_fastfield_range_query` and
//! `maps_to_u64_fastfield` both declare Bool as supported
//! (src/query/range_query/range_query_fastfield.rs, last branch of `FastFieldRangeWeight::scorer`:
//! no `as_bool()` conversion and `ColumnType::Bool` is missing from the allowed column types).
use std::ops::Bound;

use tantivy::collector::Count;
use tantivy::query::RangeQuery;
use tantivy::schema::*;
use tantivy::{doc, Index, IndexWriter, Term};

#[test]
fn bool_range_query_indexed_vs_fast() {
    let mut sb = Schema::builder();
    let b_idx = sb.add_bool_field("b_idx", INDEXED);
    let b_fast = sb.add_bool_field("b_fast", INDEXED | FAST);
    let index = Index::create_in_ram(sb.build());
    let mut w: IndexWriter = index.writer_with_num_threads(1, 50_000_000).unwrap();
    w.add_document(doc!(b_idx => true, b_fast => true)).unwrap();
    w.add_document(doc!(b_idx => false, b_fast => false)).unwrap();
    w.add_document(doc!(b_idx => true, b_fast => true)).unwrap();
    w.commit().unwrap();
    let searcher = index.reader().unwrap().searcher();

    let range = |f: Field| {
        RangeQuery::new(
            Bound::Excluded(Term::from_field_bool(f, false)),
            Bound::Included(Term::from_field_bool(f, true)),
        )
    };
    let via_term_dict = searcher.search(&range(b_idx), &Count).unwrap();
    assert_eq!(via_term_dict, 2);
    let via_fast_field = searcher.search(&range(b_fast), &Count);
    assert_eq!(via_fast_field.ok(), Some(2), "bool range on an INDEXED|FAST field");
}
