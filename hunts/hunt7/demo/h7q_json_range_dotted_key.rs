//! C03 demo: RangeQuery on a JSON path whose key contains a literal dot (expand_dots disabled)
//! reads the wrong fast-field column.
//!
//! `FastFieldRangeWeight::scorer` rebuilds a user-style field name with
//! `Term::get_full_path` ("j" + "." + "a.b") and resolves it again through
//! `FastFieldReaders::resolve_field` -> `split_json_path`, which splits the (now unescaped)
//! dot. The column of the nested object `{"a": {"b": ..}}` is scanned instead of the column
//! of the key `"a.b"`.
use std::collections::BTreeSet;
use std::ops::Bound;

use tantivy::collector::{Count, DocSetCollector};
use tantivy::query::{Query, RangeQuery, TermQuery};
use tantivy::schema::*;
use tantivy::{Index, IndexWriter, TantivyDocument, Term};

fn matching_ids(index: &Index, q: &dyn Query) -> BTreeSet<u64> {
    let searcher = index.reader().unwrap().searcher();
    let addrs = searcher.search(q, &DocSetCollector).unwrap();
    assert_eq!(addrs.len(), searcher.search(q, &Count).unwrap());
    addrs
        .iter()
        .map(|a| {
            let col = searcher
                .segment_reader(a.segment_ord)
                .fast_fields()
                .u64("id")
                .unwrap();
            col.first(a.doc_id).unwrap()
        })
        .collect()
}

#[test]
fn json_range_on_key_with_literal_dot_reads_wrong_column() {
    let mut sb = Schema::builder();
    sb.add_u64_field("id", FAST);
    // expand_dots is NOT enabled: "a.b" is one key, distinct from {"a": {"b": ..}}.
    let j = sb.add_json_field("j", JsonObjectOptions::from(TEXT | FAST));
    let schema = sb.build();
    let index = Index::create_in_ram(schema.clone());
    let mut w: IndexWriter = index.writer_with_num_threads(1, 50_000_000).unwrap();
    for (i, js) in [r#"{"a.b": 5}"#, r#"{"a": {"b": 50}}"#].iter().enumerate() {
        let full = format!("{{\"id\": {i}, \"j\": {js}}}");
        w.add_document(TantivyDocument::parse_json(&schema, &full).unwrap())
            .unwrap();
    }
    w.commit().unwrap();

    let term = |v: i64| {
        // `a\.b` = the single key "a.b"
        let mut t = Term::from_field_json_path(j, "a\\.b", false);
        t.append_type_and_fast_value(v);
        t
    };
    // Sanity: the very same term finds doc 0 through the inverted index.
    let tq = TermQuery::new(term(5), IndexRecordOption::Basic);
    assert_eq!(matching_ids(&index, &tq), BTreeSet::from([0u64]));

    // 5 is in [0, 10] -> doc 0 expected. Current code returns {}.
    let q = RangeQuery::new(Bound::Included(term(0)), Bound::Included(term(10)));
    assert_eq!(matching_ids(&index, &q), BTreeSet::from([0u64]), "range [0,10] on key `a.b`");

    // Nothing under key "a.b" is in [40, 60]. Current code returns doc 1 (value of a -> b).
    let q = RangeQuery::new(Bound::Included(term(40)), Bound::Included(term(60)));
    assert_eq!(matching_ids(&index, &q), BTreeSet::new(), "range [40,60] on key `a.b`");
}
