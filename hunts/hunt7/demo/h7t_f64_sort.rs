//! TopDocs ordered by an f64 fast field: the answer must not depend on the segmentation.
use tantivy::collector::TopDocs;
use tantivy::indexer::NoMergePolicy;
use tantivy::query::AllQuery;
use tantivy::schema::{Schema, FAST, STORED};
use tantivy::{doc, DocAddress, Index, IndexWriter, Order};

/// Builds an index whose documents are `values` spread over the given segment sizes.
fn build(values: &[f64], segment_sizes: &[usize]) -> Index {
    let mut sb = Schema::builder();
    let id = sb.add_u64_field("id", FAST | STORED);
    let val = sb.add_f64_field("val", FAST);
    let index = Index::create_in_ram(sb.build());
    let mut w: IndexWriter = index.writer_with_num_threads(1, 20_000_000).unwrap();
    w.set_merge_policy(Box::new(NoMergePolicy));
    let mut i = 0usize;
    for &sz in segment_sizes {
        for _ in 0..sz {
            w.add_document(doc!(id => i as u64, val => values[i])).unwrap();
            i += 1;
        }
        w.commit().unwrap();
    }
    assert_eq!(i, values.len());
    index
}

fn ids_in_order(index: &Index, order: Order, limit: usize, offset: usize) -> Vec<(u64, String)> {
    let searcher = index.reader().unwrap().searcher();
    let hits: Vec<(Option<f64>, DocAddress)> = searcher
        .search(
            &AllQuery,
            &TopDocs::with_limit(limit)
                .and_offset(offset)
                .order_by_fast_field::<f64>("val", order),
        )
        .unwrap();
    hits.into_iter()
        .map(|(v, addr)| {
            let id = searcher.segment_reader(addr.segment_ord).fast_fields().u64("id").unwrap();
            (id.first(addr.doc_id).unwrap(), format!("{v:?}"))
        })
        .collect()
}

/// One segment. Desc order: 3.0 must come before 2.0 before 1.0 wherever the NaN goes.
#[test]
fn f64_nan_breaks_order_of_other_docs_single_segment() {
    let values = [1.0, f64::NAN, 3.0, 2.0];
    let one = build(&values, &[4]);
    for order in [Order::Desc, Order::Asc] {
        let hits = ids_in_order(&one, order, 10, 0);
        let pos = |id: u64| hits.iter().position(|(i, _)| *i == id).unwrap();
        if order == Order::Desc {
            assert!(pos(2) < pos(3) && pos(3) < pos(0), "{order:?}: {hits:?}");
        } else {
            assert!(pos(0) < pos(3) && pos(3) < pos(2), "{order:?}: {hits:?}");
        }
    }
}

/// One segment: the top-K must be a prefix of the top-(K+1).
#[test]
fn f64_nan_topk_is_not_a_prefix_of_larger_topk() {
    let values = [1.0, f64::NAN, 3.0, 2.0, 7.0, f64::NAN, 5.0, 6.0];
    let one = build(&values, &[8]);
    for order in [Order::Desc, Order::Asc] {
        let full = ids_in_order(&one, order, 8, 0);
        for k in 1..8 {
            let topk = ids_in_order(&one, order, k, 0);
            assert_eq!(topk[..], full[..k], "{order:?} k={k}");
        }
    }
}

/// One segment: pages of 2 must enumerate the 8 documents exactly once.
#[test]
fn f64_nan_paging_duplicates_and_loses_docs() {
    let values = [5.0, f64::NAN, 1.0, 4.0, f64::NAN, 2.0, 3.0, 6.0];
    let one = build(&values, &[8]);
    for order in [Order::Desc, Order::Asc] {
        let mut seen = Vec::new();
        for page in 0..4 {
            for (id, _) in ids_in_order(&one, order, 2, page * 2) {
                seen.push(id);
            }
        }
        let mut sorted = seen.clone();
        sorted.sort();
        assert_eq!(sorted, (0..8).collect::<Vec<u64>>(), "order {order:?} pages: {seen:?}");
    }
}

/// One segment, no NaN at all: -0.0 and 0.0. The segment level orders them by their u64 image
/// (-0.0 < 0.0), the merge level says they are equal and falls back to the doc address.
#[test]
fn f64_negative_zero_topk_is_not_a_prefix_of_larger_topk() {
    let values = [-0.0, 0.0, -0.0, 0.0];
    let one = build(&values, &[4]);
    for order in [Order::Desc, Order::Asc] {
        let full: Vec<u64> = ids_in_order(&one, order, 4, 0).into_iter().map(|x| x.0).collect();
        for k in 1..4 {
            let topk: Vec<u64> =
                ids_in_order(&one, order, k, 0).into_iter().map(|x| x.0).collect();
            assert_eq!(topk[..], full[..k], "{order:?} k={k} full={full:?}");
        }
    }
}

/// Same, seen as paging: pages of 1 over [-0.0, 0.0, -0.0, 0.0].
#[test]
fn f64_negative_zero_paging_duplicates_docs() {
    let values = [-0.0, 0.0, -0.0, 0.0];
    let one = build(&values, &[4]);
    for order in [Order::Desc, Order::Asc] {
        let mut seen = Vec::new();
        for page in 0..4 {
            for (id, _) in ids_in_order(&one, order, 1, page) {
                seen.push(id);
            }
        }
        let mut sorted = seen.clone();
        sorted.sort();
        assert_eq!(sorted, (0..4).collect::<Vec<u64>>(), "order {order:?} pages: {seen:?}");
    }
}
