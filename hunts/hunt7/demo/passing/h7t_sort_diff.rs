//! Differential test: TopDocs ordered by fast fields vs. a brute-force model.
use rand::rngs::StdRng;
use rand::{Rng, SeedableRng};
use tantivy::collector::sort_key::{
    SortByBytes, SortByErasedType, SortByStaticFastValue, SortByString,
};
use tantivy::collector::{DocSetCollector, TopDocs};
use tantivy::indexer::NoMergePolicy;
use tantivy::query::{AllQuery, Query, TermQuery};
use tantivy::schema::{
    BytesOptions, IndexRecordOption, OwnedValue, Schema, TantivyDocument, FAST, INDEXED, STRING,
};
use tantivy::{DateTime, DocAddress, Index, IndexWriter, Order, Searcher, Term};

#[derive(Clone, Debug)]
struct D {
    id: u64,
    u: Option<u64>,
    i: Option<i64>,
    b: Option<bool>,
    d: Option<i64>,
    s: Option<String>,
    y: Option<Vec<u8>>,
    tag: u64,
}

fn gen_doc(rng: &mut StdRng, id: u64, p_missing: f64) -> D {
    let small = rng.random_bool(0.7);
    D {
        id,
        u: if rng.random_bool(p_missing) {
            None
        } else if small {
            Some(rng.random_range(0..4))
        } else {
            Some(*[0u64, u64::MAX, u64::MAX - 1, 1 << 63, (1 << 63) - 1]
                .get(rng.random_range(0..5))
                .unwrap())
        },
        i: if rng.random_bool(p_missing) {
            None
        } else if small {
            Some(rng.random_range(-2..3))
        } else {
            Some(*[i64::MIN, i64::MAX, 0, -1, i64::MIN + 1].get(rng.random_range(0..5)).unwrap())
        },
        b: if rng.random_bool(p_missing) { None } else { Some(rng.random_bool(0.5)) },
        d: if rng.random_bool(p_missing) { None } else { Some(rng.random_range(-3..4)) },
        s: if rng.random_bool(p_missing) {
            None
        } else {
            Some(["", "a", "aa", "b", "\u{10ffff}", "é"][rng.random_range(0..6)].to_string())
        },
        y: if rng.random_bool(p_missing) {
            None
        } else {
            Some(
                [&b""[..], &b"\x00"[..], &b"\x00\x00"[..], &b"\xff"[..], &b"a"[..]]
                    [rng.random_range(0..5)]
                .to_vec(),
            )
        },
        tag: rng.random_range(0..3),
    }
}

struct Fx {
    index: Index,
}

fn build(rng: &mut StdRng, nseg: usize, max_docs: usize, p_missing: f64, deletes: bool) -> Fx {
    let mut sb = Schema::builder();
    let id = sb.add_u64_field("id", FAST | INDEXED);
    let u = sb.add_u64_field("u", FAST);
    let i = sb.add_i64_field("i", FAST);
    let b = sb.add_bool_field("b", FAST);
    let d = sb.add_date_field("d", FAST);
    let s = sb.add_text_field("s", STRING | FAST);
    let y = sb.add_bytes_field("y", BytesOptions::default().set_fast());
    let tag = sb.add_u64_field("tag", FAST | INDEXED);
    let index = Index::create_in_ram(sb.build());
    let mut w: IndexWriter = index.writer_with_num_threads(1, 20_000_000).unwrap();
    w.set_merge_policy(Box::new(NoMergePolicy));
    let mut next_id = 0u64;
    for _ in 0..nseg {
        let n = rng.random_range(1..=max_docs);
        // some segments have no value at all for any of the sort columns
        let pm = if rng.random_bool(0.2) { 1.0 } else { p_missing };
        for _ in 0..n {
            let dd = gen_doc(rng, next_id, pm);
            next_id += 1;
            let mut doc = TantivyDocument::default();
            doc.add_u64(id, dd.id);
            doc.add_u64(tag, dd.tag);
            if let Some(v) = dd.u {
                doc.add_u64(u, v);
            }
            if let Some(v) = dd.i {
                doc.add_i64(i, v);
            }
            if let Some(v) = dd.b {
                doc.add_bool(b, v);
            }
            if let Some(v) = dd.d {
                doc.add_date(d, DateTime::from_timestamp_secs(v));
            }
            if let Some(v) = &dd.s {
                doc.add_text(s, v);
            }
            if let Some(v) = &dd.y {
                doc.add_bytes(y, v);
            }
            w.add_document(doc).unwrap();
        }
        w.commit().unwrap();
    }
    if deletes {
        for k in 0..next_id {
            if rng.random_bool(0.2) {
                w.delete_term(Term::from_field_u64(id, k));
            }
        }
        w.commit().unwrap();
    }
    Fx { index }
}

/// reads the model back from the fast fields of the live docs matching the query
fn model(searcher: &Searcher, q: &dyn Query) -> Vec<(DocAddress, D)> {
    let mut addrs: Vec<DocAddress> =
        searcher.search(q, &DocSetCollector).unwrap().into_iter().collect();
    addrs.sort();
    addrs
        .into_iter()
        .map(|a| {
            let ff = searcher.segment_reader(a.segment_ord).fast_fields();
            let s = ff.str("s").unwrap().and_then(|c| {
                c.term_ords(a.doc_id).next().map(|o| {
                    let mut v = Vec::new();
                    c.dictionary().ord_to_term(o, &mut v).unwrap();
                    String::from_utf8(v).unwrap()
                })
            });
            let y = ff.bytes("y").unwrap().and_then(|c| {
                c.term_ords(a.doc_id).next().map(|o| {
                    let mut v = Vec::new();
                    c.dictionary().ord_to_term(o, &mut v).unwrap();
                    v
                })
            });
            let d = D {
                id: ff.u64("id").unwrap().first(a.doc_id).unwrap(),
                u: ff.u64("u").unwrap().first(a.doc_id),
                i: ff.i64("i").unwrap().first(a.doc_id),
                b: ff.bool("b").unwrap().first(a.doc_id),
                d: ff.date("d").unwrap().first(a.doc_id).map(|x| x.into_timestamp_secs()),
                s,
                y,
                tag: ff.u64("tag").unwrap().first(a.doc_id).unwrap(),
            };
            (a, d)
        })
        .collect()
}

/// expected order: by key (None last for both orders), ties by address
fn expect<K: Ord + Clone>(
    m: &[(DocAddress, D)],
    key: impl Fn(&D) -> Option<K>,
    order: Order,
    limit: usize,
    offset: usize,
) -> Vec<(Option<K>, DocAddress)> {
    let mut v: Vec<(Option<K>, DocAddress)> = m.iter().map(|(a, d)| (key(d), *a)).collect();
    v.sort_by(|l, r| {
        let c = match (&l.0, &r.0) {
            (None, None) => std::cmp::Ordering::Equal,
            (None, Some(_)) => std::cmp::Ordering::Greater,
            (Some(_), None) => std::cmp::Ordering::Less,
            (Some(a), Some(b)) => {
                if order == Order::Asc {
                    a.cmp(b)
                } else {
                    b.cmp(a)
                }
            }
        };
        c.then(l.1.cmp(&r.1))
    });
    v.into_iter().skip(offset).take(limit).collect()
}

fn run(seed: u64, threads: usize) {
    let mut rng = StdRng::seed_from_u64(seed);
    let nseg = rng.random_range(1..6);
    let max_docs = *[1usize, 3, 10, 40].get(rng.random_range(0..4)).unwrap();
    let p_missing = *[0.0, 0.3, 0.9].get(rng.random_range(0..3)).unwrap();
    let deletes = rng.random_bool(0.5);
    let mut fx = build(&mut rng, nseg, max_docs, p_missing, deletes);
    if threads > 1 {
        fx.index.set_multithread_executor(threads).unwrap();
    }
    let searcher = fx.index.reader().unwrap().searcher();
    let tag = fx.index.schema().get_field("tag").unwrap();
    let queries: Vec<Box<dyn Query>> = vec![
        Box::new(AllQuery),
        Box::new(TermQuery::new(Term::from_field_u64(tag, 1), IndexRecordOption::Basic)),
    ];
    for q in &queries {
        let m = model(&searcher, q.as_ref());
        for _ in 0..6 {
            let limit = rng.random_range(1..8);
            let offset = rng.random_range(0..8);
            for order in [Order::Asc, Order::Desc] {
                let ctx = format!("seed={seed} threads={threads} limit={limit} offset={offset} order={order:?} nseg={nseg}");
                let td = || TopDocs::with_limit(limit).and_offset(offset);
                // u64
                let got = searcher.search(q, &td().order_by_fast_field::<u64>("u", order));
                let got = got.unwrap_or_else(|e| panic!("u64 {ctx}: {e}"));
                assert_eq!(got, expect(&m, |d| d.u, order, limit, offset), "u64 {ctx}");
                // i64
                let got = searcher
                    .search(q, &td().order_by_fast_field::<i64>("i", order))
                    .unwrap_or_else(|e| panic!("i64 {ctx}: {e}"));
                assert_eq!(got, expect(&m, |d| d.i, order, limit, offset), "i64 {ctx}");
                // bool
                let got = searcher
                    .search(q, &td().order_by_fast_field::<bool>("b", order))
                    .unwrap_or_else(|e| panic!("bool {ctx}: {e}"));
                assert_eq!(got, expect(&m, |d| d.b, order, limit, offset), "bool {ctx}");
                // date
                let got = searcher
                    .search(q, &td().order_by_fast_field::<DateTime>("d", order))
                    .unwrap_or_else(|e| panic!("date {ctx}: {e}"));
                let got: Vec<(Option<i64>, DocAddress)> = got
                    .into_iter()
                    .map(|(k, a)| (k.map(|x| x.into_timestamp_secs()), a))
                    .collect();
                assert_eq!(got, expect(&m, |d| d.d, order, limit, offset), "date {ctx}");
                // string
                let got = searcher
                    .search(q, &td().order_by_string_fast_field("s", order))
                    .unwrap_or_else(|e| panic!("str {ctx}: {e}"));
                assert_eq!(got, expect(&m, |d| d.s.clone(), order, limit, offset), "str {ctx}");
                // bytes
                let got = searcher
                    .search(q, &td().order_by((SortByBytes::for_field("y"), order)))
                    .unwrap_or_else(|e| panic!("bytes {ctx}: {e}"));
                assert_eq!(got, expect(&m, |d| d.y.clone(), order, limit, offset), "bytes {ctx}");
                // tuple (bool, i64) both in the same order
                for order2 in [Order::Asc, Order::Desc] {
                    let got = searcher
                        .search(
                            q,
                            &td().order_by((
                                (SortByStaticFastValue::<bool>::for_field("b"), order),
                                (SortByStaticFastValue::<i64>::for_field("i"), order2),
                            )),
                        )
                        .unwrap_or_else(|e| panic!("tuple {ctx}: {e}"));
                    let mut v: Vec<((Option<bool>, Option<i64>), DocAddress)> =
                        m.iter().map(|(a, d)| ((d.b, d.i), *a)).collect();
                    fn c<T: Ord>(l: &Option<T>, r: &Option<T>, o: Order) -> std::cmp::Ordering {
                        match (l, r) {
                            (None, None) => std::cmp::Ordering::Equal,
                            (None, Some(_)) => std::cmp::Ordering::Greater,
                            (Some(_), None) => std::cmp::Ordering::Less,
                            (Some(a), Some(b)) => {
                                if o == Order::Asc {
                                    a.cmp(b)
                                } else {
                                    b.cmp(a)
                                }
                            }
                        }
                    }
                    v.sort_by(|l, r| {
                        c(&l.0 .0, &r.0 .0, order)
                            .then(c(&l.0 .1, &r.0 .1, order2))
                            .then(l.1.cmp(&r.1))
                    });
                    let exp: Vec<_> = v.into_iter().skip(offset).take(limit).collect();
                    assert_eq!(got, exp, "tuple(bool {order:?}, i64 {order2:?}) {ctx}");

                    // triple (str, bool, u64)
                    let got = searcher
                        .search(
                            q,
                            &td().order_by((
                                (SortByString::for_field("s"), order),
                                (SortByStaticFastValue::<bool>::for_field("b"), order2),
                                (SortByStaticFastValue::<u64>::for_field("u"), order),
                            )),
                        )
                        .unwrap_or_else(|e| panic!("triple {ctx}: {e}"));
                    let mut v: Vec<((Option<String>, Option<bool>, Option<u64>), DocAddress)> =
                        m.iter().map(|(a, d)| ((d.s.clone(), d.b, d.u), *a)).collect();
                    v.sort_by(|l, r| {
                        c(&l.0 .0, &r.0 .0, order)
                            .then(c(&l.0 .1, &r.0 .1, order2))
                            .then(c(&l.0 .2, &r.0 .2, order))
                            .then(l.1.cmp(&r.1))
                    });
                    let exp: Vec<_> = v.into_iter().skip(offset).take(limit).collect();
                    assert_eq!(got, exp, "triple {ctx} order2={order2:?}");
                }
                // erased
                let got = searcher
                    .search(q, &td().order_by((SortByErasedType::for_field("i"), order)))
                    .unwrap_or_else(|e| panic!("erased i {ctx}: {e}"));
                let exp: Vec<(OwnedValue, DocAddress)> = expect(&m, |d| d.i, order, limit, offset)
                    .into_iter()
                    .map(|(k, a)| (k.map(OwnedValue::I64).unwrap_or(OwnedValue::Null), a))
                    .collect();
                assert_eq!(got, exp, "erased i64 {ctx}");
                let got = searcher
                    .search(q, &td().order_by((SortByErasedType::for_field("s"), order)))
                    .unwrap_or_else(|e| panic!("erased s {ctx}: {e}"));
                let exp: Vec<(OwnedValue, DocAddress)> =
                    expect(&m, |d| d.s.clone(), order, limit, offset)
                        .into_iter()
                        .map(|(k, a)| (k.map(OwnedValue::Str).unwrap_or(OwnedValue::Null), a))
                        .collect();
                assert_eq!(got, exp, "erased str {ctx}");
            }
        }
    }
}

#[test]
fn sort_diff_single_thread() {
    for seed in 0..150 {
        run(seed, 1);
    }
}

#[test]
fn sort_diff_multi_thread() {
    for seed in 1000..1060 {
        run(seed, 3);
    }
}
