// EXPLORATORY misc checks (all pass; they only print observed behaviour).
use tantivy::collector::{Count, FacetCollector, FilterCollector, HistogramCollector};
use tantivy::indexer::NoMergePolicy;
use tantivy::query::AllQuery;
use tantivy::schema::{Facet, FacetOptions, Schema, FAST, STRING};
use tantivy::{doc, Index, IndexWriter};

#[test]
fn facet_segment_without_facets() {
    let mut sb = Schema::builder();
    let facet_f = sb.add_facet_field("facet", FacetOptions::default());
    let tag = sb.add_text_field("tag", STRING);
    let index = Index::create_in_ram(sb.build());
    let mut w: IndexWriter = index.writer_with_num_threads(1, 50_000_000).unwrap();
    w.set_merge_policy(Box::new(NoMergePolicy));
    w.add_document(doc!(tag => "x")).unwrap();
    w.commit().unwrap();
    w.add_document(doc!(tag => "x", facet_f => Facet::from("/a/b"))).unwrap();
    w.commit().unwrap();
    let searcher = index.reader().unwrap().searcher();
    let mut c = FacetCollector::for_field("facet");
    c.add_facet("/a");
    let counts = searcher.search(&AllQuery, &c).unwrap();
    let v: Vec<(String, u64)> = counts.get("/a").map(|(f, c)| (f.to_string(), c)).collect();
    assert_eq!(v, vec![("/a/b".to_string(), 1)]);
}

#[test]
fn histogram_segment_without_values() {
    let mut sb = Schema::builder();
    let val = sb.add_u64_field("val", FAST);
    let tag = sb.add_text_field("tag", STRING);
    let index = Index::create_in_ram(sb.build());
    let mut w: IndexWriter = index.writer_with_num_threads(1, 50_000_000).unwrap();
    w.set_merge_policy(Box::new(NoMergePolicy));
    w.add_document(doc!(tag => "x")).unwrap();
    w.commit().unwrap();
    w.add_document(doc!(tag => "x", val => 7u64)).unwrap();
    w.commit().unwrap();
    let searcher = index.reader().unwrap().searcher();
    let h = searcher
        .search(&AllQuery, &HistogramCollector::new("val".to_string(), 5u64, 5, 2))
        .unwrap();
    assert_eq!(h, vec![1, 0]);
}

#[test]
fn histogram_multivalued() {
    let mut sb = Schema::builder();
    let val = sb.add_u64_field("val", FAST);
    let index = Index::create_in_ram(sb.build());
    let mut w: IndexWriter = index.writer_with_num_threads(1, 50_000_000).unwrap();
    w.add_document(doc!(val => 1u64, val => 7u64)).unwrap();
    w.commit().unwrap();
    let searcher = index.reader().unwrap().searcher();
    let h = searcher
        .search(&AllQuery, &HistogramCollector::new("val".to_string(), 0u64, 5, 2))
        .unwrap();
    eprintln!("multivalued hist = {h:?}");
}

#[test]
fn filter_wrong_type() {
    let mut sb = Schema::builder();
    let val = sb.add_u64_field("val", FAST);
    let index = Index::create_in_ram(sb.build());
    let mut w: IndexWriter = index.writer_with_num_threads(1, 50_000_000).unwrap();
    w.add_document(doc!(val => 1u64)).unwrap();
    w.commit().unwrap();
    let searcher = index.reader().unwrap().searcher();
    let r = searcher.search(
        &AllQuery,
        &FilterCollector::new("val".to_string(), |_v: i64| true, Count),
    );
    eprintln!("wrong type: {r:?}");
    let r = searcher.search(
        &AllQuery,
        &FilterCollector::new("nonexistent".to_string(), |_v: i64| true, Count),
    );
    eprintln!("nonexistent: {r:?}");
}
