// EXPLORATORY (PASSES on current code, not a defect demo; bool FAST range is skipped, see h7q_bool_fast_range.rs): differential test (range / exists / termset on typed fields).
use std::collections::BTreeSet;
use std::net::Ipv6Addr;
use std::ops::Bound;

use tantivy::collector::{Count, DocSetCollector, TopDocs};
use tantivy::indexer::NoMergePolicy;
use tantivy::query::{ExistsQuery, Query, RangeQuery, TermSetQuery};
use tantivy::schema::*;
use tantivy::{DateTime, Index, IndexWriter, Searcher, TantivyDocument, Term};

struct Rng(u64);
impl Rng {
    fn next(&mut self) -> u64 {
        self.0 ^= self.0 << 13;
        self.0 ^= self.0 >> 7;
        self.0 ^= self.0 << 17;
        self.0
    }
    fn below(&mut self, n: u64) -> u64 {
        self.next() % n
    }
}

#[derive(Clone, Debug, Default)]
struct D {
    id: u64,
    u: Vec<u64>,
    i: Vec<i64>,
    f: Vec<f64>,
    b: Vec<bool>,
    d: Vec<i64>, // millis
    ip: Vec<u128>,
    by: Vec<Vec<u8>>,
    s: Vec<String>,
}

const U_POOL: &[u64] = &[0, 1, 2, 5, 100, u64::MAX - 1, u64::MAX, 1 << 63, (1 << 63) - 1];
const I_POOL: &[i64] = &[i64::MIN, i64::MIN + 1, -100, -1, 0, 1, 7, i64::MAX - 1, i64::MAX];
const F_POOL: &[f64] = &[
    f64::NEG_INFINITY,
    f64::MIN,
    -1.5,
    -0.0,
    0.0,
    1e-300,
    1.5,
    2.0,
    f64::MAX,
    f64::INFINITY,
];
const D_POOL: &[i64] = &[-2000, -1500, -1, 0, 1, 999, 1000, 1001, 1500, 2000, 2999, 3000];
const IP_POOL: &[u128] = &[0, 1, 2, 0xffff_0000_0000u128 + 5, 1 << 64, u128::MAX - 1, u128::MAX];
const BY_POOL: &[&[u8]] = &[b"", b"\0", b"a", b"a\0", b"ab", b"b", b"\xff", b"\xff\xff"];
const S_POOL: &[&str] = &["", "a", "a\0", "ab", "b", "bb", "z", "\u{10ffff}"];

fn pick<T: Clone>(rng: &mut Rng, pool: &[T]) -> Vec<T> {
    let n = match rng.below(10) {
        0..=2 => 0,
        3..=7 => 1,
        _ => 2,
    };
    (0..n).map(|_| pool[rng.below(pool.len() as u64) as usize].clone()).collect()
}

fn rand_bound<T: Clone>(rng: &mut Rng, pool: &[T]) -> Bound<T> {
    let v = pool[rng.below(pool.len() as u64) as usize].clone();
    match rng.below(5) {
        0 => Bound::Unbounded,
        1 | 2 => Bound::Included(v),
        _ => Bound::Excluded(v),
    }
}

fn in_range<T: PartialOrd>(v: &T, lo: &Bound<T>, hi: &Bound<T>) -> bool {
    (match lo {
        Bound::Included(l) => v >= l,
        Bound::Excluded(l) => v > l,
        Bound::Unbounded => true,
    }) && (match hi {
        Bound::Included(h) => v <= h,
        Bound::Excluded(h) => v < h,
        Bound::Unbounded => true,
    })
}

fn ids(searcher: &Searcher, q: &dyn Query) -> Result<BTreeSet<u64>, String> {
    let set = searcher.search(q, &DocSetCollector).map_err(|e| format!("{e:?}"))?;
    let mut out = BTreeSet::new();
    for addr in &set {
        let col = searcher.segment_reader(addr.segment_ord).fast_fields().u64("id").unwrap();
        out.insert(col.first(addr.doc_id).unwrap());
    }
    let cnt = searcher.search(q, &Count).unwrap();
    let cnt2 = q.count(searcher).unwrap();
    let top = searcher.search(q, &TopDocs::with_limit(10_000).order_by_score()).unwrap();
    if cnt != set.len() || cnt2 != set.len() || top.len() != set.len() {
        return Err(format!(
            "collector disagreement docset={} count={} qcount={} top={}",
            set.len(),
            cnt,
            cnt2,
            top.len()
        ));
    }
    Ok(out)
}

fn map_b<T, U>(b: &Bound<T>, f: impl Fn(&T) -> U) -> Bound<U> {
    match b {
        Bound::Included(v) => Bound::Included(f(v)),
        Bound::Excluded(v) => Bound::Excluded(f(v)),
        Bound::Unbounded => Bound::Unbounded,
    }
}

fn f64_key(v: f64) -> u64 {
    // total order on f64 as tantivy defines it
    let bits = v.to_bits();
    if bits >> 63 == 0 {
        bits ^ (1 << 63)
    } else {
        !bits
    }
}

#[test]
fn explore_range_exists() {
    let failures: std::cell::RefCell<Vec<String>> = std::cell::RefCell::new(Vec::new());
    for seed in 1..=6u64 {
        let mut rng = Rng(seed.wrapping_mul(0x9E3779B97F4A7C15));
        let mut sb = Schema::builder();
        let id = sb.add_u64_field("id", FAST | INDEXED);
        let u_i = sb.add_u64_field("u_i", INDEXED);
        let u_f = sb.add_u64_field("u_f", FAST);
        let i_i = sb.add_i64_field("i_i", INDEXED);
        let i_f = sb.add_i64_field("i_f", FAST);
        let f_i = sb.add_f64_field("f_i", INDEXED);
        let f_f = sb.add_f64_field("f_f", FAST);
        let b_i = sb.add_bool_field("b_i", INDEXED);
        let b_f = sb.add_bool_field("b_f", FAST);
        let d_i = sb.add_date_field("d_i", INDEXED);
        let d_f = sb.add_date_field(
            "d_f",
            DateOptions::default().set_fast().set_precision(DateTimePrecision::Seconds),
        );
        let ip_i = sb.add_ip_addr_field("ip_i", INDEXED);
        let ip_f = sb.add_ip_addr_field("ip_f", FAST);
        let by_i = sb.add_bytes_field("by_i", INDEXED);
        let by_f = sb.add_bytes_field("by_f", FAST);
        let s_i = sb.add_text_field("s_i", STRING);
        let s_f = sb.add_text_field("s_f", FAST);
        let schema = sb.build();
        let index = Index::create_in_ram(schema);
        let mut w: IndexWriter = index.writer_with_num_threads(1, 50_000_000).unwrap();
        w.set_merge_policy(Box::new(NoMergePolicy));
        let mut docs: Vec<D> = Vec::new();
        let nseg = 1 + rng.below(3);
        let mut next_id = 0u64;
        for _ in 0..nseg {
            let n = 1 + rng.below(if seed % 2 == 0 { 300 } else { 12 });
            for _ in 0..n {
                // some fields restricted on some seeds to exercise Full / Optional columns
                let mut d = D {
                    id: next_id,
                    u: pick(&mut rng, U_POOL),
                    i: pick(&mut rng, I_POOL),
                    f: pick(&mut rng, F_POOL),
                    b: pick(&mut rng, &[true, false]),
                    d: pick(&mut rng, D_POOL),
                    ip: pick(&mut rng, IP_POOL),
                    by: pick(&mut rng, BY_POOL).into_iter().map(|b| b.to_vec()).collect(),
                    s: pick(&mut rng, S_POOL).into_iter().map(|b| b.to_string()).collect(),
                };
                if seed % 3 == 0 {
                    // force exactly one value -> Full columns
                    if d.u.len() != 1 {
                        d.u = vec![U_POOL[rng.below(4) as usize]];
                    }
                    if d.i.len() != 1 {
                        d.i = vec![I_POOL[2 + rng.below(4) as usize]];
                    }
                    if d.f.len() != 1 {
                        d.f = vec![1.5];
                    }
                }
                next_id += 1;
                let mut td = TantivyDocument::new();
                td.add_u64(id, d.id);
                for &v in &d.u {
                    td.add_u64(u_i, v);
                    td.add_u64(u_f, v);
                }
                for &v in &d.i {
                    td.add_i64(i_i, v);
                    td.add_i64(i_f, v);
                }
                for &v in &d.f {
                    td.add_f64(f_i, v);
                    td.add_f64(f_f, v);
                }
                for &v in &d.b {
                    td.add_bool(b_i, v);
                    td.add_bool(b_f, v);
                }
                for &v in &d.d {
                    td.add_date(d_i, DateTime::from_timestamp_millis(v));
                    td.add_date(d_f, DateTime::from_timestamp_millis(v));
                }
                for &v in &d.ip {
                    td.add_ip_addr(ip_i, Ipv6Addr::from(v));
                    td.add_ip_addr(ip_f, Ipv6Addr::from(v));
                }
                for v in &d.by {
                    td.add_bytes(by_i, v);
                    td.add_bytes(by_f, v);
                }
                for v in &d.s {
                    td.add_text(s_i, v);
                    td.add_text(s_f, v);
                }
                w.add_document(td).unwrap();
                docs.push(d);
            }
            w.commit().unwrap();
        }
        // deletes
        let mut live: Vec<D> = Vec::new();
        for d in docs {
            if rng.below(5) == 0 {
                w.delete_term(Term::from_field_u64(id, d.id));
            } else {
                live.push(d);
            }
        }
        w.commit().unwrap();

        for phase in 0..2 {
            if phase == 1 {
                let segs = index.searchable_segment_ids().unwrap();
                if segs.len() > 1 {
                    w.merge(&segs).wait().unwrap();
                }
            }
            let reader = index.reader().unwrap();
            reader.reload().unwrap();
            let searcher = reader.searcher();
            let ctx = format!("seed={seed} phase={phase}");

            let check = |name: String, q: &dyn Query, expect: BTreeSet<u64>| {
                match ids(&searcher, q) {
                    Ok(got) => {
                        if got != expect {
                            let extra: Vec<_> = got.difference(&expect).take(5).collect();
                            let missing: Vec<_> = expect.difference(&got).take(5).collect();
                            failures.borrow_mut().push(format!(
                                "{ctx} {name}: extra={extra:?} missing={missing:?} (got {} expected {})",
                                got.len(),
                                expect.len()
                            ));
                        }
                    }
                    Err(e) => failures.borrow_mut().push(format!("{ctx} {name}: ERR {e}")),
                }
            };

            // exists
            macro_rules! exists {
                ($name:expr, $get:expr) => {
                    let expect: BTreeSet<u64> =
                        live.iter().filter(|d| !$get(d)).map(|d| d.id).collect();
                    check(
                        format!("exists({})", $name),
                        &ExistsQuery::new($name.to_string(), false),
                        expect,
                    );
                };
            }
            exists!("u_f", |d: &D| d.u.is_empty());
            exists!("i_f", |d: &D| d.i.is_empty());
            exists!("f_f", |d: &D| d.f.is_empty());
            exists!("b_f", |d: &D| d.b.is_empty());
            exists!("d_f", |d: &D| d.d.is_empty());
            exists!("ip_f", |d: &D| d.ip.is_empty());
            exists!("by_f", |d: &D| d.by.is_empty());
            exists!("s_f", |d: &D| d.s.is_empty());

            for _ in 0..60 {
                // u64
                {
                    let lo = rand_bound(&mut rng, U_POOL);
                    let hi = rand_bound(&mut rng, U_POOL);
                    if !(matches!(lo, Bound::Unbounded) && matches!(hi, Bound::Unbounded)) {
                        let expect: BTreeSet<u64> = live
                            .iter()
                            .filter(|d| d.u.iter().any(|v| in_range(v, &lo, &hi)))
                            .map(|d| d.id)
                            .collect();
                        for (fld, nm) in [(u_i, "u_i"), (u_f, "u_f")] {
                            let q = RangeQuery::new(
                                map_b(&lo, |v| Term::from_field_u64(fld, *v)),
                                map_b(&hi, |v| Term::from_field_u64(fld, *v)),
                            );
                            check(format!("range {nm} {lo:?}..{hi:?}"), &q, expect.clone());
                        }
                    }
                }
                // i64
                {
                    let lo = rand_bound(&mut rng, I_POOL);
                    let hi = rand_bound(&mut rng, I_POOL);
                    if !(matches!(lo, Bound::Unbounded) && matches!(hi, Bound::Unbounded)) {
                        let expect: BTreeSet<u64> = live
                            .iter()
                            .filter(|d| d.i.iter().any(|v| in_range(v, &lo, &hi)))
                            .map(|d| d.id)
                            .collect();
                        for (fld, nm) in [(i_i, "i_i"), (i_f, "i_f")] {
                            let q = RangeQuery::new(
                                map_b(&lo, |v| Term::from_field_i64(fld, *v)),
                                map_b(&hi, |v| Term::from_field_i64(fld, *v)),
                            );
                            check(format!("range {nm} {lo:?}..{hi:?}"), &q, expect.clone());
                        }
                    }
                }
                // f64 (total order as defined by the u64 mapping)
                {
                    let lo = rand_bound(&mut rng, F_POOL);
                    let hi = rand_bound(&mut rng, F_POOL);
                    if !(matches!(lo, Bound::Unbounded) && matches!(hi, Bound::Unbounded)) {
                        let lok = map_b(&lo, |v| f64_key(*v));
                        let hik = map_b(&hi, |v| f64_key(*v));
                        let expect: BTreeSet<u64> = live
                            .iter()
                            .filter(|d| d.f.iter().any(|v| in_range(&f64_key(*v), &lok, &hik)))
                            .map(|d| d.id)
                            .collect();
                        for (fld, nm) in [(f_i, "f_i"), (f_f, "f_f")] {
                            let q = RangeQuery::new(
                                map_b(&lo, |v| Term::from_field_f64(fld, *v)),
                                map_b(&hi, |v| Term::from_field_f64(fld, *v)),
                            );
                            check(format!("range {nm} {lo:?}..{hi:?}"), &q, expect.clone());
                        }
                    }
                }
                // bool
                {
                    let lo = rand_bound(&mut rng, &[false, true]);
                    let hi = rand_bound(&mut rng, &[false, true]);
                    if !(matches!(lo, Bound::Unbounded) && matches!(hi, Bound::Unbounded)) {
                        let expect: BTreeSet<u64> = live
                            .iter()
                            .filter(|d| d.b.iter().any(|v| in_range(v, &lo, &hi)))
                            .map(|d| d.id)
                            .collect();
                        let _ = b_f; for (fld, nm) in [(b_i, "b_i")] {
                            let q = RangeQuery::new(
                                map_b(&lo, |v| Term::from_field_bool(fld, *v)),
                                map_b(&hi, |v| Term::from_field_bool(fld, *v)),
                            );
                            check(format!("range {nm} {lo:?}..{hi:?}"), &q, expect.clone());
                        }
                    }
                }
                // date: values and bounds compared at seconds precision (both fields are
                // seconds precision). Bounds chosen as whole seconds only.
                {
                    let pool: &[i64] = &[-2000, -1000, 0, 1000, 2000, 3000];
                    let lo = rand_bound(&mut rng, pool);
                    let hi = rand_bound(&mut rng, pool);
                    if !(matches!(lo, Bound::Unbounded) && matches!(hi, Bound::Unbounded)) {
                        let trunc = |ms: i64| ms.div_euclid(1000) * 1000;
                        let trunc0 = |ms: i64| (ms / 1000) * 1000;
                        let expect: BTreeSet<u64> = live
                            .iter()
                            .filter(|d| d.d.iter().any(|v| in_range(&trunc(*v), &lo, &hi)))
                            .map(|d| d.id)
                            .collect();
                        let expect0: BTreeSet<u64> = live
                            .iter()
                            .filter(|d| d.d.iter().any(|v| in_range(&trunc0(*v), &lo, &hi)))
                            .map(|d| d.id)
                            .collect();
                        let mut results = Vec::new();
                        for (fld, nm) in [(d_i, "d_i"), (d_f, "d_f")] {
                            let q = RangeQuery::new(
                                map_b(&lo, |v| {
                                    Term::from_field_date(fld, DateTime::from_timestamp_millis(*v))
                                }),
                                map_b(&hi, |v| {
                                    Term::from_field_date(fld, DateTime::from_timestamp_millis(*v))
                                }),
                            );
                            let got = ids(&searcher, &q);
                            results.push((nm, got));
                        }
                        let a = &results[0].1;
                        let b = &results[1].1;
                        if a != b {
                            failures.borrow_mut().push(format!(
                                "{ctx} date idx vs ff disagree {lo:?}..{hi:?}: idx={:?} ff={:?}",
                                a, b
                            ));
                        } else if a.as_ref().ok() != Some(&expect) && a.as_ref().ok() != Some(&expect0) {
                            failures.borrow_mut().push(format!(
                                "{ctx} date both differ from model {lo:?}..{hi:?}: got={:?} floor={:?} trunc0={:?}",
                                a, expect, expect0
                            ));
                        }
                    }
                }
                // ip (avoid known: excluded extreme bounds)
                {
                    let lo = rand_bound(&mut rng, IP_POOL);
                    let hi = rand_bound(&mut rng, IP_POOL);
                    let known = matches!(lo, Bound::Excluded(v) if v == u128::MAX || v == 0)
                        || matches!(hi, Bound::Excluded(v) if v == 0 || v == u128::MAX);
                    if !known
                        && !(matches!(lo, Bound::Unbounded) && matches!(hi, Bound::Unbounded))
                    {
                        let expect: BTreeSet<u64> = live
                            .iter()
                            .filter(|d| d.ip.iter().any(|v| in_range(v, &lo, &hi)))
                            .map(|d| d.id)
                            .collect();
                        for (fld, nm) in [(ip_i, "ip_i"), (ip_f, "ip_f")] {
                            let q = RangeQuery::new(
                                map_b(&lo, |v| Term::from_field_ip_addr(fld, Ipv6Addr::from(*v))),
                                map_b(&hi, |v| Term::from_field_ip_addr(fld, Ipv6Addr::from(*v))),
                            );
                            check(format!("range {nm} {lo:?}..{hi:?}"), &q, expect.clone());
                        }
                    }
                }
                // bytes
                {
                    let lo = rand_bound(&mut rng, BY_POOL);
                    let hi = rand_bound(&mut rng, BY_POOL);
                    if !(matches!(lo, Bound::Unbounded) && matches!(hi, Bound::Unbounded)) {
                        let lov = map_b(&lo, |v| v.to_vec());
                        let hiv = map_b(&hi, |v| v.to_vec());
                        let expect: BTreeSet<u64> = live
                            .iter()
                            .filter(|d| d.by.iter().any(|v| in_range(v, &lov, &hiv)))
                            .map(|d| d.id)
                            .collect();
                        for (fld, nm) in [(by_i, "by_i"), (by_f, "by_f")] {
                            let q = RangeQuery::new(
                                map_b(&lo, |v| Term::from_field_bytes(fld, v)),
                                map_b(&hi, |v| Term::from_field_bytes(fld, v)),
                            );
                            check(format!("range {nm} {lo:?}..{hi:?}"), &q, expect.clone());
                        }
                    }
                }
                // str
                {
                    let lo = rand_bound(&mut rng, S_POOL);
                    let hi = rand_bound(&mut rng, S_POOL);
                    if !(matches!(lo, Bound::Unbounded) && matches!(hi, Bound::Unbounded)) {
                        let lov = map_b(&lo, |v| v.to_string());
                        let hiv = map_b(&hi, |v| v.to_string());
                        let expect: BTreeSet<u64> = live
                            .iter()
                            .filter(|d| d.s.iter().any(|v| in_range(v, &lov, &hiv)))
                            .map(|d| d.id)
                            .collect();
                        for (fld, nm) in [(s_i, "s_i"), (s_f, "s_f")] {
                            let q = RangeQuery::new(
                                map_b(&lo, |v| Term::from_field_text(fld, v)),
                                map_b(&hi, |v| Term::from_field_text(fld, v)),
                            );
                            check(format!("range {nm} {lo:?}..{hi:?}"), &q, expect.clone());
                        }
                    }
                }
                // term set across several indexed fields
                {
                    let us = pick(&mut rng, U_POOL);
                    let is_ = pick(&mut rng, I_POOL);
                    let ss = pick(&mut rng, S_POOL);
                    let bs = pick(&mut rng, BY_POOL);
                    let ips = pick(&mut rng, IP_POOL);
                    let mut terms = Vec::new();
                    for v in &us {
                        terms.push(Term::from_field_u64(u_i, *v));
                        terms.push(Term::from_field_u64(u_i, *v));
                    }
                    for v in &is_ {
                        terms.push(Term::from_field_i64(i_i, *v));
                    }
                    for v in &ss {
                        terms.push(Term::from_field_text(s_i, v));
                    }
                    for v in &bs {
                        terms.push(Term::from_field_bytes(by_i, v));
                    }
                    for v in &ips {
                        terms.push(Term::from_field_ip_addr(ip_i, Ipv6Addr::from(*v)));
                    }
                    let expect: BTreeSet<u64> = live
                        .iter()
                        .filter(|d| {
                            d.u.iter().any(|v| us.contains(v))
                                || d.i.iter().any(|v| is_.contains(v))
                                || d.s.iter().any(|v| ss.contains(&v.as_str()))
                                || d.by.iter().any(|v| bs.contains(&v.as_slice()))
                                || d.ip.iter().any(|v| ips.contains(v))
                        })
                        .map(|d| d.id)
                        .collect();
                    check(
                        format!("termset u={us:?} i={is_:?} s={ss:?} b={bs:?} ip={ips:?}"),
                        &TermSetQuery::new(terms),
                        expect,
                    );
                }
            }
        }
    }
    let mut failures = failures.into_inner();
    failures.sort();
    failures.dedup();
    for f in failures.iter().take(80) {
        eprintln!("FAIL {f}");
    }
    assert!(failures.is_empty(), "{} failures", failures.len());
}
