// EXPLORATORY (PASSES on current code, not a defect demo): random query trees (dismax / boost / const / empty / all / exists / range / termset
// inside booleans) compared with a brute-force model.
use std::collections::BTreeSet;
use std::ops::Bound;

use tantivy::collector::{Count, DocSetCollector, TopDocs};
use tantivy::indexer::NoMergePolicy;
use tantivy::query::*;
use tantivy::schema::*;
use tantivy::{Index, IndexWriter, Searcher, TantivyDocument, Term};

struct Rng(u64);
impl Rng {
    fn next(&mut self) -> u64 {
        self.0 ^= self.0 << 13;
        self.0 ^= self.0 >> 7;
        self.0 ^= self.0 << 17;
        self.0
    }
    fn below(&mut self, n: u64) -> u64 {
        self.next() % n
    }
}

#[derive(Clone, Debug)]
struct D {
    id: u64,
    words: Vec<&'static str>,
    num: Option<u64>,
}

const VOCAB: &[&str] = &["a", "b", "c", "d", "e"];

#[derive(Debug, Clone)]
enum Q {
    Term(&'static str),
    All,
    Empty,
    Boost(Box<Q>, f32),
    Const(Box<Q>, f32),
    DisMax(Vec<Q>, f32),
    Bool(Vec<(Occur, Q)>, Option<usize>),
    Exists,
    Range(u64, u64),
    TermSet(Vec<&'static str>),
}

fn gen(rng: &mut Rng, depth: u32) -> Q {
    let k = if depth == 0 { rng.below(6) } else { rng.below(11) };
    match k {
        0 | 1 => Q::Term(VOCAB[rng.below(VOCAB.len() as u64) as usize]),
        2 => Q::All,
        3 => Q::Empty,
        4 => Q::Exists,
        5 => {
            if rng.below(2) == 0 {
                let a = rng.below(6);
                let b = rng.below(6);
                Q::Range(a, b)
            } else {
                let n = rng.below(3);
                Q::TermSet((0..n).map(|_| VOCAB[rng.below(VOCAB.len() as u64) as usize]).collect())
            }
        }
        6 => Q::Boost(Box::new(gen(rng, depth - 1)), [0.0f32, 0.5, 2.0][rng.below(3) as usize]),
        7 => Q::Const(Box::new(gen(rng, depth - 1)), [0.0f32, 0.5, 2.0][rng.below(3) as usize]),
        8 => {
            let n = rng.below(4);
            Q::DisMax((0..n).map(|_| gen(rng, depth - 1)).collect(), [0.0f32, 0.3, 1.0][rng.below(3) as usize])
        }
        _ => {
            let n = rng.below(5);
            let clauses: Vec<(Occur, Q)> = (0..n)
                .map(|_| {
                    let o = match rng.below(5) {
                        0 | 1 => Occur::Should,
                        2 | 3 => Occur::Must,
                        _ => Occur::MustNot,
                    };
                    (o, gen(rng, depth - 1))
                })
                .collect();
            let msm = if rng.below(2) == 0 { None } else { Some(rng.below(4) as usize) };
            Q::Bool(clauses, msm)
        }
    }
}

fn build(q: &Q, text: Field, num: Field) -> Box<dyn Query> {
    match q {
        Q::Term(w) => Box::new(TermQuery::new(Term::from_field_text(text, w), IndexRecordOption::WithFreqs)),
        Q::All => Box::new(AllQuery),
        Q::Empty => Box::new(EmptyQuery),
        Q::Boost(q, b) => Box::new(BoostQuery::new(build(q, text, num), *b)),
        Q::Const(q, b) => Box::new(ConstScoreQuery::new(build(q, text, num), *b)),
        Q::DisMax(qs, tb) => Box::new(DisjunctionMaxQuery::with_tie_breaker(
            qs.iter().map(|q| build(q, text, num)).collect(),
            *tb,
        )),
        Q::Bool(cl, msm) => {
            let subs: Vec<(Occur, Box<dyn Query>)> =
                cl.iter().map(|(o, q)| (*o, build(q, text, num))).collect();
            match msm {
                None => Box::new(BooleanQuery::new(subs)),
                Some(m) => Box::new(BooleanQuery::with_minimum_required_clauses(subs, *m)),
            }
        }
        Q::Exists => Box::new(ExistsQuery::new("num".to_string(), false)),
        Q::Range(a, b) => Box::new(RangeQuery::new(
            Bound::Included(Term::from_field_u64(num, *a)),
            Bound::Included(Term::from_field_u64(num, *b)),
        )),
        Q::TermSet(ws) => Box::new(TermSetQuery::new(ws.iter().map(|w| Term::from_field_text(text, w)))),
    }
}

fn eval(q: &Q, d: &D) -> bool {
    match q {
        Q::Term(w) => d.words.contains(w),
        Q::All => true,
        Q::Empty => false,
        Q::Boost(q, _) | Q::Const(q, _) => eval(q, d),
        Q::DisMax(qs, _) => qs.iter().any(|q| eval(q, d)),
        Q::Exists => d.num.is_some(),
        Q::Range(a, b) => d.num.map(|v| v >= *a && v <= *b).unwrap_or(false),
        Q::TermSet(ws) => ws.iter().any(|w| d.words.contains(w)),
        Q::Bool(cl, msm) => {
            let n_must = cl.iter().filter(|(o, _)| *o == Occur::Must).count();
            let n_should = cl.iter().filter(|(o, _)| *o == Occur::Should).count();
            let has_must_not = cl.iter().any(|(o, _)| *o == Occur::MustNot);
            let m = msm.unwrap_or(if n_should > 0 && n_must == 0 && !has_must_not { 1 } else { 0 });
            // BooleanQuery::new: first clause decides... replicate exactly
            let m = if msm.is_none() {
                let mut mr = 0;
                for (o, _) in cl {
                    match o {
                        Occur::Should => mr = 1,
                        _ => {
                            mr = 0;
                            break;
                        }
                    }
                }
                let _ = m;
                mr
            } else {
                m
            };
            if cl.iter().any(|(o, q)| *o == Occur::Must && !eval(q, d)) {
                return false;
            }
            if cl.iter().any(|(o, q)| *o == Occur::MustNot && eval(q, d)) {
                return false;
            }
            let s = cl.iter().filter(|(o, q)| *o == Occur::Should && eval(q, d)).count();
            if s < m {
                return false;
            }
            if n_must == 0 {
                return s >= 1;
            }
            true
        }
    }
}

fn ids(searcher: &Searcher, q: &dyn Query) -> Result<BTreeSet<u64>, String> {
    let set = searcher.search(q, &DocSetCollector).map_err(|e| format!("{e:?}"))?;
    let mut out = BTreeSet::new();
    for addr in &set {
        let col = searcher.segment_reader(addr.segment_ord).fast_fields().u64("id").unwrap();
        out.insert(col.first(addr.doc_id).unwrap());
    }
    let cnt = searcher.search(q, &Count).unwrap();
    let cnt2 = q.count(searcher).unwrap();
    let top = searcher.search(q, &TopDocs::with_limit(10_000).order_by_score()).unwrap();
    if cnt != set.len() || cnt2 != set.len() || top.len() != set.len() {
        return Err(format!(
            "collector disagreement docset={} count={} qcount={} top={}",
            set.len(),
            cnt,
            cnt2,
            top.len()
        ));
    }
    Ok(out)
}

#[test]
fn explore_tree() {
    let mut fails = Vec::new();
    for seed in 1..=8u64 {
        let mut rng = Rng(seed.wrapping_mul(0x9E3779B97F4A7C15));
        let mut sb = Schema::builder();
        let id = sb.add_u64_field("id", FAST | INDEXED);
        let text = sb.add_text_field("text", TEXT);
        let num = sb.add_u64_field("num", FAST | INDEXED);
        let index = Index::create_in_ram(sb.build());
        let mut w: IndexWriter = index.writer_with_num_threads(1, 50_000_000).unwrap();
        w.set_merge_policy(Box::new(NoMergePolicy));
        let mut docs = Vec::new();
        let nseg = 1 + rng.below(3);
        let mut next = 0;
        for _ in 0..nseg {
            let n = 1 + rng.below(if seed % 2 == 0 { 200 } else { 10 });
            for _ in 0..n {
                let nw = rng.below(4);
                let words: Vec<&'static str> =
                    (0..nw).map(|_| VOCAB[rng.below(VOCAB.len() as u64) as usize]).collect();
                let numv = if seed % 4 == 3 || rng.below(3) > 0 { Some(rng.below(6)) } else { None };
                let mut td = TantivyDocument::new();
                td.add_u64(id, next);
                td.add_text(text, words.join(" "));
                if let Some(v) = numv {
                    td.add_u64(num, v);
                }
                w.add_document(td).unwrap();
                docs.push(D { id: next, words, num: numv });
                next += 1;
            }
            w.commit().unwrap();
        }
        let mut live = Vec::new();
        for d in docs {
            if rng.below(5) == 0 {
                w.delete_term(Term::from_field_u64(id, d.id));
            } else {
                live.push(d);
            }
        }
        w.commit().unwrap();
        for phase in 0..2 {
            if phase == 1 {
                let segs = index.searchable_segment_ids().unwrap();
                if segs.len() > 1 {
                    w.merge(&segs).wait().unwrap();
                }
            }
            let reader = index.reader().unwrap();
            reader.reload().unwrap();
            let searcher = reader.searcher();
            for _ in 0..400 {
                let q = gen(&mut rng, 3);
                let tq = build(&q, text, num);
                let expect: BTreeSet<u64> = live.iter().filter(|d| eval(&q, d)).map(|d| d.id).collect();
                let got = std::panic::catch_unwind(std::panic::AssertUnwindSafe(|| ids(&searcher, &*tq)))
                    .unwrap_or(Err("PANIC".to_string()));
                if got != Ok(expect.clone()) {
                    let desc = match &got {
                        Ok(g) => format!(
                            "extra={:?} missing={:?}",
                            g.difference(&expect).take(4).collect::<Vec<_>>(),
                            expect.difference(g).take(4).collect::<Vec<_>>()
                        ),
                        Err(e) => e.clone(),
                    };
                    fails.push(format!("seed={seed} phase={phase} q={q:?}: {desc}"));
                }
            }
        }
    }
    fails.sort_by_key(|f| f.len());
    for f in fails.iter().take(25) {
        eprintln!("FAIL {f}");
    }
    assert!(fails.is_empty(), "{} failures", fails.len());
}

