// EXPLORATORY: score / closure based sort keys with orders and tuples.
use std::cmp::Ordering;
use std::collections::BTreeMap;

use tantivy::collector::sort_key::SortBySimilarityScore;
use tantivy::collector::TopDocs;
use tantivy::indexer::NoMergePolicy;
use tantivy::query::{AllQuery, BooleanQuery, Occur, Query, TermQuery};
use tantivy::schema::{IndexRecordOption, Schema, FAST, INDEXED, TEXT};
use tantivy::{
    DocAddress, DocId, Index, IndexWriter, Order, Score, SegmentReader, TantivyDocument, Term,
};

struct Lcg(u64);
impl Lcg {
    fn next(&mut self) -> u64 {
        self.0 = self
            .0
            .wrapping_mul(6364136223846793005)
            .wrapping_add(1442695040888963407);
        self.0 >> 33
    }
    fn below(&mut self, n: u64) -> u64 {
        self.next() % n
    }
}

type Fails = BTreeMap<String, String>;
fn fail(fails: &mut Fails, cat: &str, msg: String) {
    fails.entry(cat.to_string()).or_insert(msg);
}

fn cmp_f(a: f32, b: f32) -> Ordering {
    a.partial_cmp(&b).unwrap()
}

fn run(seed: u64, fails: &mut Fails) {
    let mut rng = Lcg(seed * 977 + 3);
    let mut sb = Schema::builder();
    let body = sb.add_text_field("body", TEXT);
    let id_f = sb.add_u64_field("id", INDEXED | FAST);
    let mut index = Index::create_in_ram(sb.build());
    let mut writer: IndexWriter = index.writer_with_num_threads(1, 50_000_000).unwrap();
    writer.set_merge_policy(Box::new(NoMergePolicy));
    let nseg = 1 + rng.below(4);
    let mut id = 0u64;
    let mut ids = vec![];
    for _ in 0..nseg {
        let n = 1 + rng.below(40);
        for _ in 0..n {
            let ntok = rng.below(4);
            let tokens: Vec<&str> = (0..ntok)
                .map(|_| ["a", "b", "c"][rng.below(3) as usize])
                .collect();
            let mut d = TantivyDocument::default();
            d.add_u64(id_f, id);
            d.add_text(body, tokens.join(" "));
            writer.add_document(d).unwrap();
            ids.push(id);
            id += 1;
        }
        writer.commit().unwrap();
    }
    if rng.below(2) == 0 {
        for _ in 0..(1 + rng.below(5)) {
            let i = ids[rng.below(ids.len() as u64) as usize];
            writer.delete_term(Term::from_field_u64(id_f, i));
        }
        writer.commit().unwrap();
    }
    if seed % 2 == 0 {
        index.set_multithread_executor(2).unwrap();
    }
    let searcher = index.reader().unwrap().searcher();
    let queries: Vec<(&str, Box<dyn Query>)> = vec![
        ("all", Box::new(AllQuery)),
        (
            "term_a",
            Box::new(TermQuery::new(
                Term::from_field_text(body, "a"),
                IndexRecordOption::WithFreqs,
            )),
        ),
        (
            "a_and_b",
            Box::new(BooleanQuery::new(vec![
                (
                    Occur::Must,
                    Box::new(TermQuery::new(
                        Term::from_field_text(body, "a"),
                        IndexRecordOption::WithFreqs,
                    )) as Box<dyn Query>,
                ),
                (
                    Occur::Must,
                    Box::new(TermQuery::new(
                        Term::from_field_text(body, "b"),
                        IndexRecordOption::WithFreqs,
                    )) as Box<dyn Query>,
                ),
            ])),
        ),
    ];
    for (qname, q) in &queries {
        let ctx = format!("seed {seed} q {qname}");
        // ground truth scores via for_each path
        let truth: Vec<(Score, DocAddress)> = searcher
            .search(
                &**q,
                &TopDocs::with_limit(10_000)
                    .tweak_score(|_r: &SegmentReader| |_d: DocId, s: Score| s),
            )
            .unwrap();
        for (k, o) in [(1usize, 0usize), (2, 1), (3, 0), (5, 3), (10, 0), (4, 9), (1000, 0)] {
            // 1. score ascending
            {
                let mut exp = truth.clone();
                exp.sort_by(|a, b| cmp_f(a.0, b.0).then(a.1.cmp(&b.1)));
                let exp: Vec<_> = exp.into_iter().skip(o).take(k).collect();
                let got = searcher
                    .search(
                        &**q,
                        &TopDocs::with_limit(k)
                            .and_offset(o)
                            .order_by((SortBySimilarityScore, Order::Asc)),
                    )
                    .unwrap();
                if got != exp {
                    fail(fails, "score_asc", format!("{ctx} k={k} o={o}\n got={got:?}\n exp={exp:?}"));
                }
            }
            // 1b. score desc via Order
            {
                let exp: Vec<_> = truth.iter().cloned().skip(o).take(k).collect();
                let got = searcher
                    .search(
                        &**q,
                        &TopDocs::with_limit(k)
                            .and_offset(o)
                            .order_by((SortBySimilarityScore, Order::Desc)),
                    )
                    .unwrap();
                if got != exp {
                    fail(fails, "score_desc", format!("{ctx} k={k} o={o}\n got={got:?}\n exp={exp:?}"));
                }
            }
            // 2. (score asc, d%3 desc)
            {
                let mut exp: Vec<((Score, u32), DocAddress)> =
                    truth.iter().map(|(s, a)| ((*s, a.doc_id % 3), *a)).collect();
                exp.sort_by(|a, b| {
                    cmp_f(a.0 .0, b.0 .0)
                        .then(b.0 .1.cmp(&a.0 .1))
                        .then(a.1.cmp(&b.1))
                });
                let exp: Vec<_> = exp.into_iter().skip(o).take(k).collect();
                let got = searcher
                    .search(
                        &**q,
                        &TopDocs::with_limit(k).and_offset(o).order_by((
                            (SortBySimilarityScore, Order::Asc),
                            (|_r: &SegmentReader| |d: DocId| d % 3, Order::Desc),
                        )),
                    )
                    .unwrap();
                if got != exp {
                    fail(fails, "score_asc_mod_desc", format!("{ctx} k={k} o={o}\n got={got:?}\n exp={exp:?}"));
                }
            }
            // 3. (d%3 asc, score desc)
            {
                let mut exp: Vec<((u32, Score), DocAddress)> =
                    truth.iter().map(|(s, a)| ((a.doc_id % 3, *s), *a)).collect();
                exp.sort_by(|a, b| {
                    a.0 .0
                        .cmp(&b.0 .0)
                        .then(cmp_f(b.0 .1, a.0 .1))
                        .then(a.1.cmp(&b.1))
                });
                let exp: Vec<_> = exp.into_iter().skip(o).take(k).collect();
                let got = searcher
                    .search(
                        &**q,
                        &TopDocs::with_limit(k).and_offset(o).order_by((
                            (|_r: &SegmentReader| |d: DocId| d % 3, Order::Asc),
                            (SortBySimilarityScore, Order::Desc),
                        )),
                    )
                    .unwrap();
                if got != exp {
                    fail(fails, "mod_asc_score_desc", format!("{ctx} k={k} o={o}\n got={got:?}\n exp={exp:?}"));
                }
            }
            // 4. 3-tuple natural: (d%2, d%3, score) all desc
            {
                let mut exp: Vec<((u32, u32, Score), DocAddress)> = truth
                    .iter()
                    .map(|(s, a)| ((a.doc_id % 2, a.doc_id % 3, *s), *a))
                    .collect();
                exp.sort_by(|a, b| {
                    b.0 .0
                        .cmp(&a.0 .0)
                        .then(b.0 .1.cmp(&a.0 .1))
                        .then(cmp_f(b.0 .2, a.0 .2))
                        .then(a.1.cmp(&b.1))
                });
                let exp: Vec<_> = exp.into_iter().skip(o).take(k).collect();
                let got = searcher
                    .search(
                        &**q,
                        &TopDocs::with_limit(k).and_offset(o).order_by((
                            |_r: &SegmentReader| |d: DocId| d % 2,
                            |_r: &SegmentReader| |d: DocId| d % 3,
                            SortBySimilarityScore,
                        )),
                    )
                    .unwrap();
                if got != exp {
                    fail(fails, "tuple3", format!("{ctx} k={k} o={o}\n got={got:?}\n exp={exp:?}"));
                }
            }
            // 5. 3-tuple with orders: (d%2 asc, d%3 desc, score asc)
            {
                let mut exp: Vec<((u32, u32, Score), DocAddress)> = truth
                    .iter()
                    .map(|(s, a)| ((a.doc_id % 2, a.doc_id % 3, *s), *a))
                    .collect();
                exp.sort_by(|a, b| {
                    a.0 .0
                        .cmp(&b.0 .0)
                        .then(b.0 .1.cmp(&a.0 .1))
                        .then(cmp_f(a.0 .2, b.0 .2))
                        .then(a.1.cmp(&b.1))
                });
                let exp: Vec<_> = exp.into_iter().skip(o).take(k).collect();
                let got = searcher
                    .search(
                        &**q,
                        &TopDocs::with_limit(k).and_offset(o).order_by((
                            (|_r: &SegmentReader| |d: DocId| d % 2, Order::Asc),
                            (|_r: &SegmentReader| |d: DocId| d % 3, Order::Desc),
                            (SortBySimilarityScore, Order::Asc),
                        )),
                    )
                    .unwrap();
                if got != exp {
                    fail(fails, "tuple3_orders", format!("{ctx} k={k} o={o}\n got={got:?}\n exp={exp:?}"));
                }
            }
            // 6. tweak_score to a tuple key with ties
            {
                let mut exp: Vec<((u32, Score), DocAddress)> =
                    truth.iter().map(|(s, a)| ((a.doc_id % 4, *s), *a)).collect();
                exp.sort_by(|a, b| {
                    b.0 .0
                        .cmp(&a.0 .0)
                        .then(cmp_f(b.0 .1, a.0 .1))
                        .then(a.1.cmp(&b.1))
                });
                let exp: Vec<_> = exp.into_iter().skip(o).take(k).collect();
                let got = searcher
                    .search(
                        &**q,
                        &TopDocs::with_limit(k)
                            .and_offset(o)
                            .tweak_score(|_r: &SegmentReader| |d: DocId, s: Score| (d % 4, s)),
                    )
                    .unwrap();
                if got != exp {
                    fail(fails, "tweak_tuple", format!("{ctx} k={k} o={o}\n got={got:?}\n exp={exp:?}"));
                }
            }
        }
    }
}

#[test]
fn h7c_sortkey_explore() {
    let mut fails: Fails = BTreeMap::new();
    for seed in 0..80u64 {
        run(seed, &mut fails);
    }
    for (cat, msg) in &fails {
        let m: String = msg.chars().take(3000).collect();
        eprintln!("### {cat}\n{m}\n");
    }
    assert!(fails.is_empty(), "categories: {:?}", fails.keys().collect::<Vec<_>>());
}
