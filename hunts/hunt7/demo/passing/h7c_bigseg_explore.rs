// EXPLORATORY: large segments, count shortcuts vs enumeration.
use std::collections::{BTreeMap, BTreeSet, HashSet};
use std::ops::Bound;

use tantivy::collector::{Count, DocSetCollector, TopDocs};
use tantivy::indexer::NoMergePolicy;
use tantivy::query::{AllQuery, BooleanQuery, Occur, Query, RangeQuery, TermQuery};
use tantivy::schema::{IndexRecordOption, Schema, FAST, INDEXED, TEXT};
use tantivy::{DocAddress, Index, IndexWriter, Score, Searcher, TantivyDocument, Term};

struct Lcg(u64);
impl Lcg {
    fn next(&mut self) -> u64 {
        self.0 = self
            .0
            .wrapping_mul(6364136223846793005)
            .wrapping_add(1442695040888963407);
        self.0 >> 33
    }
    fn below(&mut self, n: u64) -> u64 {
        self.next() % n
    }
}

#[derive(Clone, Debug)]
enum MQ {
    All,
    Term(&'static str),
    Or(Vec<MQ>),
    And(Vec<MQ>),
    MustNot(Box<MQ>, Box<MQ>),
    MustShould(Box<MQ>, Box<MQ>),
    MinShould(usize, Vec<MQ>),
    IdRange(u64, u64),
}

struct MDoc {
    id: u64,
    tokens: Vec<&'static str>,
    alive: bool,
}

impl MQ {
    fn matches(&self, d: &MDoc) -> bool {
        match self {
            MQ::All => true,
            MQ::Term(t) => d.tokens.contains(t),
            MQ::Or(qs) => qs.iter().any(|q| q.matches(d)),
            MQ::And(qs) => qs.iter().all(|q| q.matches(d)),
            MQ::MustNot(m, n) => m.matches(d) && !n.matches(d),
            MQ::MustShould(m, _) => m.matches(d),
            MQ::MinShould(n, qs) => qs.iter().filter(|q| q.matches(d)).count() >= *n,
            MQ::IdRange(lo, hi) => d.id >= *lo && d.id < *hi,
        }
    }
    fn build(&self, body: tantivy::schema::Field, id: tantivy::schema::Field) -> Box<dyn Query> {
        match self {
            MQ::All => Box::new(AllQuery),
            MQ::Term(t) => Box::new(TermQuery::new(
                Term::from_field_text(body, t),
                IndexRecordOption::WithFreqs,
            )),
            MQ::Or(qs) => Box::new(BooleanQuery::new(
                qs.iter().map(|q| (Occur::Should, q.build(body, id))).collect(),
            )),
            MQ::And(qs) => Box::new(BooleanQuery::new(
                qs.iter().map(|q| (Occur::Must, q.build(body, id))).collect(),
            )),
            MQ::MustNot(m, n) => Box::new(BooleanQuery::new(vec![
                (Occur::Must, m.build(body, id)),
                (Occur::MustNot, n.build(body, id)),
            ])),
            MQ::MustShould(m, s) => Box::new(BooleanQuery::new(vec![
                (Occur::Must, m.build(body, id)),
                (Occur::Should, s.build(body, id)),
            ])),
            MQ::MinShould(n, qs) => Box::new(BooleanQuery::with_minimum_required_clauses(
                qs.iter().map(|q| (Occur::Should, q.build(body, id))).collect(),
                *n,
            )),
            MQ::IdRange(lo, hi) => Box::new(RangeQuery::new(
                Bound::Included(Term::from_field_u64(id, *lo)),
                Bound::Excluded(Term::from_field_u64(id, *hi)),
            )),
        }
    }
}

fn id_of(searcher: &Searcher, addr: DocAddress) -> u64 {
    searcher
        .segment_reader(addr.segment_ord)
        .fast_fields()
        .u64("id")
        .unwrap()
        .first(addr.doc_id)
        .unwrap()
}

type Fails = BTreeMap<String, String>;
fn fail(fails: &mut Fails, cat: &str, msg: String) {
    fails.entry(cat.to_string()).or_insert(msg);
}

fn run(seed: u64, fails: &mut Fails) {
    let mut rng = Lcg(seed * 31 + 5);
    let mut sb = Schema::builder();
    let body = sb.add_text_field("body", TEXT);
    let id_f = sb.add_u64_field("id", INDEXED | FAST);
    let index = Index::create_in_ram(sb.build());
    let mut writer: IndexWriter = index.writer_with_num_threads(1, 100_000_000).unwrap();
    writer.set_merge_policy(Box::new(NoMergePolicy));
    let mut docs = Vec::new();
    let nseg = 1 + rng.below(2);
    let mut id = 0u64;
    // clustered terms: "k" only in a contiguous id range, "g" has large gaps
    for _ in 0..nseg {
        let n = [1023u64, 1024, 1025, 4095, 4096, 4097, 6000, 9000][rng.below(8) as usize];
        let cluster_lo = rng.below(n);
        let cluster_hi = cluster_lo + rng.below(3000);
        for i in 0..n {
            let mut tokens: Vec<&'static str> = Vec::new();
            if rng.below(2) == 0 {
                tokens.push("a");
            }
            if rng.below(10) == 0 {
                tokens.push("b");
            }
            if rng.below(300) == 0 {
                tokens.push("r");
            }
            if rng.below(30) != 0 {
                tokens.push("e");
            }
            if i >= cluster_lo && i < cluster_hi {
                tokens.push("k");
            }
            if i % 2048 < 3 {
                tokens.push("g");
            }
            if rng.below(3) == 0 {
                tokens.push("a");
            }
            let mut d = TantivyDocument::default();
            d.add_u64(id_f, id);
            d.add_text(body, tokens.join(" "));
            writer.add_document(d).unwrap();
            docs.push(MDoc {
                id,
                tokens,
                alive: true,
            });
            id += 1;
        }
        writer.commit().unwrap();
    }
    let with_deletes = seed % 2 == 1;
    if with_deletes {
        let ndel = 1 + rng.below(200);
        for _ in 0..ndel {
            let i = rng.below(docs.len() as u64) as usize;
            docs[i].alive = false;
            writer.delete_term(Term::from_field_u64(id_f, docs[i].id));
        }
        writer.commit().unwrap();
    }
    let searcher = index.reader().unwrap().searcher();
    let n = docs.len() as u64;
    let t = |s: &'static str| MQ::Term(s);
    let queries = vec![
        MQ::And(vec![t("a"), t("b")]),
        MQ::And(vec![t("b"), t("a")]),
        MQ::And(vec![t("a"), t("r")]),
        MQ::And(vec![t("a"), t("e")]),
        MQ::And(vec![t("e"), t("a"), t("b")]),
        MQ::And(vec![t("a"), t("k")]),
        MQ::And(vec![t("k"), t("e")]),
        MQ::And(vec![t("g"), t("e")]),
        MQ::And(vec![t("e"), t("g"), t("a")]),
        MQ::And(vec![t("k"), t("g")]),
        MQ::And(vec![t("a"), MQ::IdRange(n / 3, n / 2)]),
        MQ::And(vec![t("e"), MQ::Or(vec![t("a"), t("b")])]),
        MQ::And(vec![MQ::Or(vec![t("k"), t("g")]), MQ::Or(vec![t("a"), t("b")])]),
        MQ::Or(vec![t("a"), t("b")]),
        MQ::Or(vec![t("r"), t("g")]),
        MQ::Or(vec![t("k"), t("g"), t("r")]),
        MQ::Or(vec![t("k"), MQ::IdRange(0, 10)]),
        MQ::Or(vec![MQ::And(vec![t("a"), t("b")]), t("r")]),
        MQ::MustNot(Box::new(t("e")), Box::new(t("a"))),
        MQ::MustNot(Box::new(MQ::All), Box::new(t("e"))),
        MQ::MustNot(Box::new(MQ::Or(vec![t("a"), t("b")])), Box::new(t("k"))),
        MQ::MustShould(Box::new(t("b")), Box::new(t("a"))),
        MQ::MustShould(Box::new(t("k")), Box::new(MQ::Or(vec![t("r"), t("g")]))),
        MQ::MinShould(2, vec![t("a"), t("b"), t("k")]),
        MQ::MinShould(2, vec![t("a"), t("b"), t("k"), t("g"), t("r")]),
        MQ::MinShould(3, vec![t("a"), t("e"), t("k"), t("g")]),
        MQ::Term("k"),
        MQ::Term("g"),
        MQ::IdRange(n / 4, n / 2 + 7),
    ];
    for mq in &queries {
        let q = mq.build(body, id_f);
        let ctx = format!("seed {seed} deletes {with_deletes} ndocs {n} query {mq:?}");
        let model: BTreeSet<u64> = docs
            .iter()
            .filter(|d| d.alive && mq.matches(d))
            .map(|d| d.id)
            .collect();
        let c = searcher.search(&*q, &Count).unwrap();
        if c != model.len() {
            fail(fails, "count", format!("{ctx}: Count={c} model={}", model.len()));
        }
        let qc = q.count(&searcher).unwrap();
        if qc != model.len() {
            fail(fails, "query_count", format!("{ctx}: Query::count={qc} model={}", model.len()));
        }
        let ds: HashSet<DocAddress> = searcher.search(&*q, &DocSetCollector).unwrap();
        let ds_ids: BTreeSet<u64> = ds.iter().map(|a| id_of(&searcher, *a)).collect();
        if ds_ids != model || ds.len() != model.len() {
            let missing: Vec<_> = model.difference(&ds_ids).take(10).collect();
            let extra: Vec<_> = ds_ids.difference(&model).take(10).collect();
            fail(fails, "docset", format!("{ctx}: len {} vs model {} missing {missing:?} extra {extra:?}", ds.len(), model.len()));
        }
        let full: Vec<(Score, DocAddress)> = searcher
            .search(&*q, &TopDocs::with_limit(100_000).order_by_score())
            .unwrap();
        let full_ids: BTreeSet<u64> = full.iter().map(|(_, a)| id_of(&searcher, *a)).collect();
        if full_ids != model || full.len() != model.len() {
            let missing: Vec<_> = model.difference(&full_ids).take(10).collect();
            let extra: Vec<_> = full_ids.difference(&model).take(10).collect();
            fail(fails, "topdocs_set", format!("{ctx}: len {} vs model {} missing {missing:?} extra {extra:?}", full.len(), model.len()));
        }
        // top-10 vs prefix of full (set of docs; scores known to be shaky for unions)
        let top10: Vec<(Score, DocAddress)> = searcher
            .search(&*q, &TopDocs::with_limit(10).order_by_score())
            .unwrap();
        let exp10: Vec<(Score, DocAddress)> = full.iter().take(10).cloned().collect();
        if top10 != exp10 {
            fail(fails, "top10", format!("{ctx}:\n got={top10:?}\n exp={exp10:?}"));
        }
        let (c2, top3) = searcher
            .search(&*q, &(Count, TopDocs::with_limit(3).and_offset(2).order_by_score()))
            .unwrap();
        let exp3: Vec<(Score, DocAddress)> = full.iter().skip(2).take(3).cloned().collect();
        if c2 != model.len() {
            fail(fails, "tuple_count", format!("{ctx}: {c2} vs {}", model.len()));
        }
        if top3 != exp3 {
            fail(fails, "tuple_top", format!("{ctx}:\n got={top3:?}\n exp={exp3:?}"));
        }
    }
}

#[test]
fn h7c_bigseg_explore() {
    let mut fails: Fails = BTreeMap::new();
    for seed in 0..12u64 {
        run(seed, &mut fails);
    }
    for (cat, msg) in &fails {
        let m: String = msg.chars().take(3000).collect();
        eprintln!("### {cat}\n{m}\n");
    }
    assert!(fails.is_empty(), "categories: {:?}", fails.keys().collect::<Vec<_>>());
}
