// EXPLORATORY differential test: collectors vs brute-force model.
use std::collections::{BTreeMap, BTreeSet, HashSet};
use std::ops::Bound;

use tantivy::collector::{
    BytesFilterCollector, Count, DocSetCollector, FilterCollector, HistogramCollector,
    MultiCollector, TopDocs,
};
use tantivy::indexer::NoMergePolicy;
use tantivy::query::{
    AllQuery, BooleanQuery, BoostQuery, ConstScoreQuery, EmptyQuery, Occur, Query, RangeQuery,
    TermQuery,
};
use tantivy::schema::{IndexRecordOption, Schema, FAST, INDEXED, STRING, TEXT};
use tantivy::{
    DateTime, DocAddress, DocId, Executor, Index, IndexWriter, Score, Searcher, SegmentReader,
    TantivyDocument, Term,
};

struct Lcg(u64);
impl Lcg {
    fn next(&mut self) -> u64 {
        self.0 = self
            .0
            .wrapping_mul(6364136223846793005)
            .wrapping_add(1442695040888963407);
        self.0 >> 33
    }
    fn below(&mut self, n: u64) -> u64 {
        self.next() % n
    }
}

#[derive(Clone, Debug)]
struct MDoc {
    id: u64,
    tokens: Vec<&'static str>,
    val_u: Option<u64>,
    val_i: Option<i64>,
    val_f: Option<f64>,
    flag: Option<bool>,
    date: Option<i64>,
    multi: Vec<u64>,
    bytes: Option<Vec<u8>>,
    s: Option<String>,
    alive: bool,
}

#[derive(Clone, Debug)]
enum MQ {
    All,
    Empty,
    Term(&'static str),
    Or(Vec<MQ>),
    And(Vec<MQ>),
    MustShould(Box<MQ>, Box<MQ>),
    MustNot(Box<MQ>, Box<MQ>),
    IdRange(u64, u64),   // inclusive..exclusive on indexed+fast id
    ValURange(u64, u64), // inclusive..inclusive on fast only
    Const(Box<MQ>, f32),
    Boost(Box<MQ>, f32),
}

struct Fields {
    body: tantivy::schema::Field,
    id: tantivy::schema::Field,
    val_u: tantivy::schema::Field,
}

impl MQ {
    fn matches(&self, d: &MDoc) -> bool {
        match self {
            MQ::All => true,
            MQ::Empty => false,
            MQ::Term(t) => d.tokens.contains(t),
            MQ::Or(qs) => qs.iter().any(|q| q.matches(d)),
            MQ::And(qs) => qs.iter().all(|q| q.matches(d)),
            MQ::MustShould(m, _) => m.matches(d),
            MQ::MustNot(m, n) => m.matches(d) && !n.matches(d),
            MQ::IdRange(lo, hi) => d.id >= *lo && d.id < *hi,
            MQ::ValURange(lo, hi) => d.val_u.map(|v| v >= *lo && v <= *hi).unwrap_or(false),
            MQ::Const(q, _) | MQ::Boost(q, _) => q.matches(d),
        }
    }
    fn build(&self, f: &Fields) -> Box<dyn Query> {
        match self {
            MQ::All => Box::new(AllQuery),
            MQ::Empty => Box::new(EmptyQuery),
            MQ::Term(t) => Box::new(TermQuery::new(
                Term::from_field_text(f.body, t),
                IndexRecordOption::WithFreqs,
            )),
            MQ::Or(qs) => Box::new(BooleanQuery::new(
                qs.iter().map(|q| (Occur::Should, q.build(f))).collect(),
            )),
            MQ::And(qs) => Box::new(BooleanQuery::new(
                qs.iter().map(|q| (Occur::Must, q.build(f))).collect(),
            )),
            MQ::MustShould(m, s) => Box::new(BooleanQuery::new(vec![
                (Occur::Must, m.build(f)),
                (Occur::Should, s.build(f)),
            ])),
            MQ::MustNot(m, n) => Box::new(BooleanQuery::new(vec![
                (Occur::Must, m.build(f)),
                (Occur::MustNot, n.build(f)),
            ])),
            MQ::IdRange(lo, hi) => Box::new(RangeQuery::new(
                Bound::Included(Term::from_field_u64(f.id, *lo)),
                Bound::Excluded(Term::from_field_u64(f.id, *hi)),
            )),
            MQ::ValURange(lo, hi) => Box::new(RangeQuery::new(
                Bound::Included(Term::from_field_u64(f.val_u, *lo)),
                Bound::Included(Term::from_field_u64(f.val_u, *hi)),
            )),
            MQ::Const(q, s) => Box::new(ConstScoreQuery::new(q.build(f), *s)),
            MQ::Boost(q, s) => Box::new(BoostQuery::new(q.build(f), *s)),
        }
    }
    // queries not containing known-buggy constructs for score comparison
    fn score_comparable(&self) -> bool {
        match self {
            MQ::Or(_) => false, // union seek scoring is a known issue
            MQ::And(qs) => qs.iter().all(|q| q.score_comparable() && !matches!(q, MQ::All)),
            MQ::MustShould(..) => false,
            MQ::MustNot(m, _) => m.score_comparable() && !matches!(**m, MQ::All),
            MQ::Const(..) => true,
            MQ::Boost(q, _) => q.score_comparable(),
            _ => true,
        }
    }
}

const VOCAB: &[&str] = &["a", "b", "c", "d"];

fn id_of(searcher: &Searcher, addr: DocAddress) -> u64 {
    searcher
        .segment_reader(addr.segment_ord)
        .fast_fields()
        .u64("id")
        .unwrap()
        .first(addr.doc_id)
        .unwrap()
}

type Fails = BTreeMap<String, String>;

fn fail(fails: &mut Fails, cat: &str, msg: String) {
    fails.entry(cat.to_string()).or_insert(msg);
}

fn run(seed: u64, fails: &mut Fails, big: bool) {
    let mut rng = Lcg(seed.wrapping_mul(7919) + 13);
    let mut sb = Schema::builder();
    let body = sb.add_text_field("body", TEXT);
    let id_f = sb.add_u64_field("id", INDEXED | FAST);
    let val_u_f = sb.add_u64_field("val_u", FAST);
    let val_i_f = sb.add_i64_field("val_i", FAST);
    let val_f_f = sb.add_f64_field("val_f", FAST);
    let flag_f = sb.add_bool_field("flag", FAST);
    let date_f = sb.add_date_field("date", FAST);
    let multi_f = sb.add_u64_field("multi", FAST);
    let bytes_f = sb.add_bytes_field("bytes", FAST);
    let s_f = sb.add_text_field("s", STRING | FAST);
    let schema = sb.build();
    let mut index = Index::create_in_ram(schema);
    let mut writer: IndexWriter = index.writer_with_num_threads(1, 50_000_000).unwrap();
    writer.set_merge_policy(Box::new(NoMergePolicy));
    let fields = Fields {
        body,
        id: id_f,
        val_u: val_u_f,
    };
    let mut docs: Vec<MDoc> = Vec::new();
    let nseg = 1 + rng.below(4);
    let mut id = 0u64;
    for _ in 0..nseg {
        let n = if big {
            [0u64, 63, 64, 65, 127, 128, 129, 200][rng.below(8) as usize]
        } else {
            rng.below(10)
        };
        for _ in 0..n {
            let ntok = rng.below(6);
            let tokens: Vec<&'static str> = (0..ntok)
                .map(|_| VOCAB[rng.below(VOCAB.len() as u64) as usize])
                .collect();
            let opt = |rng: &mut Lcg| rng.below(4) != 0;
            let val_u = if opt(&mut rng) {
                Some([0u64, 1, 5, 9, 10, 11, 50, u64::MAX - 1, u64::MAX][rng.below(9) as usize])
            } else {
                None
            };
            let val_i = if opt(&mut rng) {
                Some([i64::MIN, -11, -10, -1, 0, 1, 9, 10, i64::MAX][rng.below(9) as usize])
            } else {
                None
            };
            let val_f = if opt(&mut rng) {
                Some([-5.5f64, -0.0, 0.0, 1.5, 100.0, f64::MAX][rng.below(6) as usize])
            } else {
                None
            };
            let flag = if opt(&mut rng) {
                Some(rng.below(2) == 0)
            } else {
                None
            };
            let date = if opt(&mut rng) {
                Some([-100i64, 0, 1, 86400, 86401, 1_000_000][rng.below(6) as usize])
            } else {
                None
            };
            let nm = rng.below(4);
            let multi: Vec<u64> = (0..nm).map(|_| rng.below(6)).collect();
            let bytes = if opt(&mut rng) {
                Some(vec![b'0' + rng.below(3) as u8, b'0' + rng.below(3) as u8])
            } else {
                None
            };
            let s = if opt(&mut rng) {
                Some(["x", "y", "zz"][rng.below(3) as usize].to_string())
            } else {
                None
            };
            let mut d = TantivyDocument::default();
            d.add_u64(id_f, id);
            d.add_text(body, tokens.join(" "));
            if let Some(v) = val_u {
                d.add_u64(val_u_f, v);
            }
            if let Some(v) = val_i {
                d.add_i64(val_i_f, v);
            }
            if let Some(v) = val_f {
                d.add_f64(val_f_f, v);
            }
            if let Some(v) = flag {
                d.add_bool(flag_f, v);
            }
            if let Some(v) = date {
                d.add_date(date_f, DateTime::from_timestamp_secs(v));
            }
            for v in &multi {
                d.add_u64(multi_f, *v);
            }
            if let Some(v) = &bytes {
                d.add_bytes(bytes_f, v);
            }
            if let Some(v) = &s {
                d.add_text(s_f, v);
            }
            writer.add_document(d).unwrap();
            docs.push(MDoc {
                id,
                tokens,
                val_u,
                val_i,
                val_f,
                flag,
                date,
                multi,
                bytes,
                s,
                alive: true,
            });
            id += 1;
            // delete interleaved with adds (same commit)
            if rng.below(6) == 0 {
                let i = rng.below(docs.len() as u64) as usize;
                docs[i].alive = false;
                writer.delete_term(Term::from_field_u64(id_f, docs[i].id));
            }
        }
        writer.commit().unwrap();
    }
    if !docs.is_empty() && rng.below(3) != 0 {
        let ndel = 1 + rng.below(if big { 40 } else { 4 });
        for _ in 0..ndel {
            let i = rng.below(docs.len() as u64) as usize;
            docs[i].alive = false;
            writer.delete_term(Term::from_field_u64(id_f, docs[i].id));
        }
        writer.commit().unwrap();
    }
    if rng.below(4) == 0 {
        let ids = index.searchable_segment_ids().unwrap();
        if ids.len() > 1 {
            writer.merge(&ids).wait().unwrap();
        }
    }
    let searcher = index.reader().unwrap().searcher();
    index.set_multithread_executor(3).unwrap();
    let searcher_mt = index.reader().unwrap().searcher();
    let _ = Executor::single_thread();

    let n = docs.len() as u64 + 1;
    let queries = vec![
        MQ::All,
        MQ::Empty,
        MQ::Term("a"),
        MQ::Term("zzz"),
        MQ::Or(vec![MQ::Term("a"), MQ::Term("b")]),
        MQ::Or(vec![MQ::Term("a"), MQ::Term("b"), MQ::Term("c")]),
        MQ::And(vec![MQ::Term("a"), MQ::Term("b")]),
        MQ::And(vec![MQ::All, MQ::Term("b")]),
        MQ::MustShould(Box::new(MQ::Term("a")), Box::new(MQ::Term("b"))),
        MQ::MustNot(Box::new(MQ::Term("a")), Box::new(MQ::Term("b"))),
        MQ::MustNot(Box::new(MQ::All), Box::new(MQ::Term("b"))),
        MQ::IdRange(rng.below(n), rng.below(n) + 3),
        MQ::IdRange(0, n),
        MQ::ValURange(1, 10),
        MQ::ValURange(0, u64::MAX),
        MQ::Const(Box::new(MQ::Term("a")), 2.5),
        MQ::Const(Box::new(MQ::All), 0.5),
        MQ::Boost(Box::new(MQ::Term("a")), 3.0),
        MQ::Boost(Box::new(MQ::All), 3.0),
        MQ::And(vec![MQ::Term("a"), MQ::IdRange(0, n)]),
        MQ::Or(vec![MQ::IdRange(0, n / 2), MQ::Term("c")]),
    ];

    for mq in &queries {
        let q = mq.build(&fields);
        let ctx = format!("seed {seed} big {big} query {mq:?}");
        let model: BTreeSet<u64> = docs
            .iter()
            .filter(|d| d.alive && mq.matches(d))
            .map(|d| d.id)
            .collect();

        // --- Count / Query::count / DocSet / TopDocs
        let c = searcher.search(&*q, &Count).unwrap();
        if c != model.len() {
            fail(fails, "count", format!("{ctx}: Count={c} model={}", model.len()));
        }
        let c_mt = searcher_mt.search(&*q, &Count).unwrap();
        if c_mt != model.len() {
            fail(fails, "count_mt", format!("{ctx}: Count={c_mt} model={}", model.len()));
        }
        let qc = q.count(&searcher).unwrap();
        if qc != model.len() {
            fail(fails, "query_count", format!("{ctx}: Query::count={qc} model={}", model.len()));
        }
        let ds: HashSet<DocAddress> = searcher.search(&*q, &DocSetCollector).unwrap();
        let ds_ids: BTreeSet<u64> = ds.iter().map(|a| id_of(&searcher, *a)).collect();
        if ds_ids != model || ds.len() != model.len() {
            fail(fails, "docset", format!("{ctx}: docset={ds_ids:?} model={model:?}"));
        }
        let full: Vec<(Score, DocAddress)> = searcher
            .search(&*q, &TopDocs::with_limit(10_000).order_by_score())
            .unwrap();
        let full_ids: BTreeSet<u64> = full.iter().map(|(_, a)| id_of(&searcher, *a)).collect();
        if full_ids != model || full.len() != model.len() {
            fail(fails, "topdocs_set", format!("{ctx}: top={full_ids:?} model={model:?}"));
        }
        // ordering of full
        for w in full.windows(2) {
            let ok = w[0].0 > w[1].0 || (w[0].0 == w[1].0 && w[0].1 < w[1].1);
            if !ok {
                fail(fails, "topdocs_order", format!("{ctx}: {:?} then {:?}", w[0], w[1]));
            }
        }
        // identity tweak_score: scores through for_each path
        let tweak_full: Vec<(Score, DocAddress)> = searcher
            .search(
                &*q,
                &TopDocs::with_limit(10_000)
                    .tweak_score(|_r: &SegmentReader| |_d: DocId, s: Score| s),
            )
            .unwrap();
        let cmp_scores = mq.score_comparable();
        if cmp_scores && tweak_full != full {
            fail(
                fails,
                "tweak_identity",
                format!("{ctx}:\n tweak={tweak_full:?}\n full ={full:?}"),
            );
        }
        let tweak_ids: BTreeSet<u64> =
            tweak_full.iter().map(|(_, a)| id_of(&searcher, *a)).collect();
        if tweak_ids != model {
            fail(fails, "tweak_set", format!("{ctx}: {tweak_ids:?} vs {model:?}"));
        }
        // Reference list = tweak_full sorted (true scores via for_each)
        for (k, o) in [(1usize, 0usize), (2, 0), (3, 1), (5, 2), (1, 4), (7, 0), (64, 0), (3, 63)] {
            let expect: Vec<(Score, DocAddress)> =
                full.iter().skip(o).take(k).cloned().collect();
            let got = searcher
                .search(&*q, &TopDocs::with_limit(k).and_offset(o).order_by_score())
                .unwrap();
            if cmp_scores && got != expect {
                fail(
                    fails,
                    "topdocs_page",
                    format!("{ctx} k={k} o={o}:\n got={got:?}\n exp={expect:?}"),
                );
            }
            let got_mt = searcher_mt
                .search(&*q, &TopDocs::with_limit(k).and_offset(o).order_by_score())
                .unwrap();
            if got_mt != got {
                fail(fails, "topdocs_mt", format!("{ctx} k={k} o={o}:\n mt={got_mt:?}\n st={got:?}"));
            }
            let expect_t: Vec<(Score, DocAddress)> =
                tweak_full.iter().skip(o).take(k).cloned().collect();
            let got_t = searcher
                .search(
                    &*q,
                    &TopDocs::with_limit(k)
                        .and_offset(o)
                        .tweak_score(|_r: &SegmentReader| |_d: DocId, s: Score| s),
                )
                .unwrap();
            if got_t != expect_t {
                fail(
                    fails,
                    "tweak_page",
                    format!("{ctx} k={k} o={o}:\n got={got_t:?}\n exp={expect_t:?}"),
                );
            }
            // order_by closure with ties: key = doc % 3
            let full_c: Vec<(u32, DocAddress)> = searcher
                .search(
                    &*q,
                    &TopDocs::with_limit(10_000)
                        .order_by(|_r: &SegmentReader| |d: DocId| d % 3),
                )
                .unwrap();
            let mut model_c: Vec<(u32, DocAddress)> =
                ds.iter().map(|a| (a.doc_id % 3, *a)).collect();
            model_c.sort_by(|a, b| b.0.cmp(&a.0).then(a.1.cmp(&b.1)));
            if full_c != model_c {
                fail(fails, "orderby_closure_full", format!("{ctx}:\n got={full_c:?}\n exp={model_c:?}"));
            }
            let got_c: Vec<(u32, DocAddress)> = searcher_mt
                .search(
                    &*q,
                    &TopDocs::with_limit(k)
                        .and_offset(o)
                        .order_by(|_r: &SegmentReader| |d: DocId| d % 3),
                )
                .unwrap();
            let exp_c: Vec<(u32, DocAddress)> =
                model_c.iter().skip(o).take(k).cloned().collect();
            if got_c != exp_c {
                fail(fails, "orderby_closure_page", format!("{ctx} k={k} o={o}:\n got={got_c:?}\n exp={exp_c:?}"));
            }
        }

        // --- MultiCollector
        {
            let mut mc = MultiCollector::new();
            let h_top = mc.add_collector(TopDocs::with_limit(3).and_offset(1).order_by_score());
            let h_count = mc.add_collector(Count);
            let h_ds = mc.add_collector(DocSetCollector);
            let mut fruit = searcher_mt.search(&*q, &mc).unwrap();
            let top = h_top.extract(&mut fruit);
            let cnt = h_count.extract(&mut fruit);
            let dset = h_ds.extract(&mut fruit);
            let exp_top: Vec<(Score, DocAddress)> =
                tweak_full.iter().skip(1).take(3).cloned().collect();
            if top != exp_top {
                fail(fails, "multi_top", format!("{ctx}:\n got={top:?}\n exp={exp_top:?}"));
            }
            if cnt != model.len() {
                fail(fails, "multi_count", format!("{ctx}: {cnt} vs {}", model.len()));
            }
            if dset != ds {
                fail(fails, "multi_docset", format!("{ctx}"));
            }
            // non scoring only
            let mut mc = MultiCollector::new();
            let h_count = mc.add_collector(Count);
            let h_ds = mc.add_collector(DocSetCollector);
            let mut fruit = searcher.search(&*q, &mc).unwrap();
            let cnt = h_count.extract(&mut fruit);
            let dset = h_ds.extract(&mut fruit);
            if cnt != model.len() || dset != ds {
                fail(fails, "multi_noscore", format!("{ctx}: {cnt} vs {}", model.len()));
            }
            // tuple
            let (cnt, dset, top) = searcher
                .search(
                    &*q,
                    &(Count, DocSetCollector, TopDocs::with_limit(2).order_by_score()),
                )
                .unwrap();
            let exp_top: Vec<(Score, DocAddress)> = tweak_full.iter().take(2).cloned().collect();
            if cnt != model.len() || dset != ds || top != exp_top {
                fail(fails, "tuple", format!("{ctx}: {cnt} vs {} top {top:?} exp {exp_top:?}", model.len()));
            }
        }

        // --- FilterCollector
        {
            let in_model = |pred: &dyn Fn(&MDoc) -> bool| -> BTreeSet<u64> {
                docs.iter()
                    .filter(|d| d.alive && mq.matches(d) && pred(d))
                    .map(|d| d.id)
                    .collect()
            };
            macro_rules! check_filter {
                ($name:expr, $coll:expr, $pred:expr) => {{
                    let got: HashSet<DocAddress> = searcher.search(&*q, &$coll).unwrap();
                    let got_ids: BTreeSet<u64> =
                        got.iter().map(|a| id_of(&searcher, *a)).collect();
                    let exp = in_model(&$pred);
                    if got_ids != exp {
                        fail(fails, $name, format!("{ctx}: got={got_ids:?} exp={exp:?}"));
                    }
                }};
            }
            check_filter!(
                "filter_u64",
                FilterCollector::new("val_u".to_string(), |v: u64| v >= 5 && v != u64::MAX, DocSetCollector),
                |d: &MDoc| d.val_u.map(|v| v >= 5 && v != u64::MAX).unwrap_or(false)
            );
            check_filter!(
                "filter_i64",
                FilterCollector::new("val_i".to_string(), |v: i64| v < 0, DocSetCollector),
                |d: &MDoc| d.val_i.map(|v| v < 0).unwrap_or(false)
            );
            check_filter!(
                "filter_f64",
                FilterCollector::new("val_f".to_string(), |v: f64| v <= 0.0, DocSetCollector),
                |d: &MDoc| d.val_f.map(|v| v <= 0.0).unwrap_or(false)
            );
            check_filter!(
                "filter_bool",
                FilterCollector::new("flag".to_string(), |v: bool| !v, DocSetCollector),
                |d: &MDoc| d.flag.map(|v| !v).unwrap_or(false)
            );
            check_filter!(
                "filter_date",
                FilterCollector::new(
                    "date".to_string(),
                    |v: DateTime| v.into_timestamp_secs() >= 1 && v.into_timestamp_secs() <= 86400,
                    DocSetCollector
                ),
                |d: &MDoc| d.date.map(|v| v >= 1 && v <= 86400).unwrap_or(false)
            );
            check_filter!(
                "filter_multi",
                FilterCollector::new("multi".to_string(), |v: u64| v == 3, DocSetCollector),
                |d: &MDoc| d.multi.contains(&3)
            );
            check_filter!(
                "filter_bytes",
                BytesFilterCollector::new(
                    "bytes".to_string(),
                    |b: &[u8]| b.starts_with(b"1"),
                    DocSetCollector
                ),
                |d: &MDoc| d.bytes.as_ref().map(|b| b.starts_with(b"1")).unwrap_or(false)
            );
            check_filter!(
                "filter_str_bytes",
                BytesFilterCollector::new(
                    "s".to_string(),
                    |b: &[u8]| b == b"zz",
                    DocSetCollector
                ),
                |d: &MDoc| d.s.as_deref() == Some("zz")
            );
            // filter + Count + TopDocs with true scores
            let fc = FilterCollector::new(
                "val_i".to_string(),
                |v: i64| v >= 0,
                (Count, TopDocs::with_limit(3).and_offset(1).order_by_score()),
            );
            let (cnt, top) = searcher_mt.search(&*q, &fc).unwrap();
            let exp_ids = in_model(&|d: &MDoc| d.val_i.map(|v| v >= 0).unwrap_or(false));
            let exp_top: Vec<(Score, DocAddress)> = tweak_full
                .iter()
                .filter(|(_, a)| exp_ids.contains(&id_of(&searcher, *a)))
                .skip(1)
                .take(3)
                .cloned()
                .collect();
            if cnt != exp_ids.len() {
                fail(fails, "filter_count", format!("{ctx}: {cnt} vs {}", exp_ids.len()));
            }
            if top != exp_top {
                fail(fails, "filter_top", format!("{ctx}:\n got={top:?}\n exp={exp_top:?}"));
            }
        }

        // --- Histogram
        {
            let matching: Vec<&MDoc> = docs.iter().filter(|d| d.alive && mq.matches(d)).collect();
            let model_hist = |vals: Vec<Option<i128>>, min: i128, width: u64, nb: usize| -> Vec<u64> {
                let mut h = vec![0u64; nb];
                for v in vals.into_iter().flatten() {
                    if v < min {
                        continue;
                    }
                    let b = ((v - min) / width as i128) as u128;
                    if b < nb as u128 {
                        h[b as usize] += 1;
                    }
                }
                h
            };
            for (min, width, nb) in [(1u64, 5u64, 3usize), (0, 1, 2), (5, 1, 7), (u64::MAX - 1, 1, 3), (0, u64::MAX, 2)] {
                let res = searcher.search(&*q, &HistogramCollector::new("val_u".to_string(), min, width, nb));
                let exp = model_hist(
                    matching.iter().map(|d| d.val_u.map(|v| v as i128)).collect(),
                    min as i128,
                    width,
                    nb,
                );
                match res {
                    Ok(got) => {
                        if got != exp {
                            let cat = if min == 0 { "hist_u64_min0" } else { "hist_u64" };
                            fail(fails, cat, format!("{ctx} min={min} w={width} nb={nb}: got={got:?} exp={exp:?}"));
                        }
                    }
                    Err(e) => fail(fails, "hist_u64_err", format!("{ctx}: {e:?}")),
                }
            }
            for (min, width, nb) in [(-10i64, 5u64, 5usize), (i64::MIN, 1, 2), (i64::MIN, u64::MAX, 2), (-1, 1, 3), (i64::MAX - 1, 1, 4), (0, 10, 1)] {
                let res = searcher.search(&*q, &HistogramCollector::new("val_i".to_string(), min, width, nb));
                let exp = model_hist(
                    matching.iter().map(|d| d.val_i.map(|v| v as i128)).collect(),
                    min as i128,
                    width,
                    nb,
                );
                match res {
                    Ok(got) => {
                        if got != exp {
                            let cat = if min == i64::MIN { "hist_i64_minmin" } else { "hist_i64" };
                            fail(fails, cat, format!("{ctx} min={min} w={width} nb={nb}: got={got:?} exp={exp:?}"));
                        }
                    }
                    Err(e) => fail(fails, "hist_i64_err", format!("{ctx}: {e:?}")),
                }
            }
            // dates: stored with which precision? fast field default precision = seconds
            for (min, width_s, nb) in [(0i64, 86400u64, 2usize), (-100, 50, 4), (1, 1, 3)] {
                let width_ns = width_s * 1_000_000_000;
                let res = searcher.search(
                    &*q,
                    &HistogramCollector::new(
                        "date".to_string(),
                        DateTime::from_timestamp_secs(min),
                        width_ns,
                        nb,
                    ),
                );
                let exp = model_hist(
                    matching.iter().map(|d| d.date.map(|v| v as i128)).collect(),
                    min as i128,
                    width_s,
                    nb,
                );
                match res {
                    Ok(got) => {
                        if got != exp {
                            fail(fails, "hist_date", format!("{ctx} min={min} w={width_s} nb={nb}: got={got:?} exp={exp:?}"));
                        }
                    }
                    Err(e) => fail(fails, "hist_date_err", format!("{ctx}: {e:?}")),
                }
            }
        }
    }
}

#[test]
fn h7c_collectors_differential_explore() {
    let mut fails: Fails = BTreeMap::new();
    for seed in 0..60u64 {
        run(seed, &mut fails, false);
    }
    for seed in 0..10u64 {
        run(seed, &mut fails, true);
    }
    for (cat, msg) in &fails {
        let m: String = msg.chars().take(3000).collect();
        eprintln!("### {cat}\n{m}\n");
    }
    // Known categories, demonstrated/discussed separately:
    //  - hist_u64_min0 / hist_i64_minmin: see tests/h7c_histogram_missing.rs
    //  - filter_str_bytes: BytesFilterCollector on a str fast field silently matches nothing
    for known in ["hist_u64_min0", "hist_i64_minmin", "filter_str_bytes"] {
        fails.remove(known);
    }
    assert!(fails.is_empty(), "categories: {:?}", fails.keys().collect::<Vec<_>>());
}
