//! Differential test: the same documents in an unsorted index and in an index sorted by a fast
//! field must answer every query with the same set of documents (identified by their `id`).
use std::collections::BTreeSet;
use std::net::Ipv6Addr;
use std::ops::Bound;

use rand::rngs::StdRng;
use rand::{Rng, SeedableRng};
use tantivy::collector::{Count, DocSetCollector, TopDocs};
use tantivy::indexer::NoMergePolicy;
use tantivy::query::{
    AllQuery, BooleanQuery, ExistsQuery, Occur, PhrasePrefixQuery, PhraseQuery, Query, RangeQuery,
    TermQuery,
};
use tantivy::schema::{
    BytesOptions, DateOptions, Facet, FacetOptions, IndexRecordOption, IpAddrOptions,
    JsonObjectOptions, NumericOptions, Schema, TantivyDocument, TextFieldIndexing, TextOptions,
    FAST, INDEXED, STORED, STRING, TEXT,
};
use tantivy::{
    DateTime, Index, IndexSettings, IndexSortByField, IndexWriter, Order, Searcher, Term,
};

const WORDS: [&str; 6] = ["a", "b", "c", "d", "e", "f"];

#[derive(Clone, Debug)]
struct D {
    id: u64,
    sort_u: Option<u64>,
    sort_i: Option<i64>,
    sort_f: Option<f64>,
    sort_d: Option<i64>,
    text: Vec<String>, // multi-valued text
    tag: Vec<String>,
    nums: Vec<u64>,
    ip: Option<u128>,
    bytes: Option<Vec<u8>>,
    facet: Vec<String>,
    json: Option<String>,
}

fn gen(rng: &mut StdRng, id: u64) -> D {
    let sentence = |rng: &mut StdRng| {
        let n = rng.random_range(0..6);
        (0..n).map(|_| WORDS[rng.random_range(0..WORDS.len())]).collect::<Vec<_>>().join(" ")
    };
    D {
        id,
        sort_u: if rng.random_bool(0.15) { None } else { Some(rng.random_range(0..5)) },
        sort_i: if rng.random_bool(0.15) { None } else { Some(rng.random_range(-3..3)) },
        sort_f: if rng.random_bool(0.15) {
            None
        } else {
            Some([-1.5, -0.0, 0.0, 2.5, f64::INFINITY, f64::NEG_INFINITY][rng.random_range(0..6)])
        },
        sort_d: if rng.random_bool(0.15) { None } else { Some(rng.random_range(-3..3)) },
        text: (0..rng.random_range(0..3)).map(|_| sentence(rng)).collect(),
        tag: (0..rng.random_range(0..3))
            .map(|_| WORDS[rng.random_range(0..WORDS.len())].to_string())
            .collect(),
        nums: (0..rng.random_range(0..3)).map(|_| rng.random_range(0..6)).collect(),
        ip: if rng.random_bool(0.3) { None } else { Some(rng.random_range(0..5)) },
        bytes: if rng.random_bool(0.3) {
            None
        } else {
            Some(vec![rng.random_range(0..3u8); rng.random_range(0..3)])
        },
        facet: (0..rng.random_range(0..3))
            .map(|_| format!("/{}/{}", WORDS[rng.random_range(0..3)], WORDS[rng.random_range(0..3)]))
            .collect(),
        json: if rng.random_bool(0.3) {
            None
        } else {
            Some(match rng.random_range(0..4) {
                0 => format!(r#"{{"k":"{}","n":{}}}"#, sentence(rng), rng.random_range(0..4)),
                1 => format!(r#"{{"k":{},"o":{{"p":"{}"}}}}"#, rng.random_range(0..4), sentence(rng)),
                2 => format!(r#"{{"arr":["{}","{}"]}}"#, sentence(rng), sentence(rng)),
                _ => format!(r#"{{"b":{}}}"#, rng.random_bool(0.5)),
            })
        },
    }
}

fn schema() -> Schema {
    let mut sb = Schema::builder();
    sb.add_u64_field("id", FAST | INDEXED | STORED);
    sb.add_u64_field("sort_u", FAST | INDEXED);
    sb.add_i64_field("sort_i", FAST | INDEXED);
    sb.add_f64_field("sort_f", FAST | INDEXED);
    sb.add_date_field("sort_d", DateOptions::default().set_fast().set_indexed());
    sb.add_text_field(
        "text",
        TextOptions::default()
            .set_indexing_options(
                TextFieldIndexing::default()
                    .set_tokenizer("default")
                    .set_index_option(IndexRecordOption::WithFreqsAndPositions),
            )
            .set_stored(),
    );
    sb.add_text_field("tag", STRING | FAST);
    sb.add_u64_field("nums", NumericOptions::default().set_fast().set_indexed());
    sb.add_ip_addr_field("ip", IpAddrOptions::default().set_fast().set_indexed());
    sb.add_bytes_field("bytes", BytesOptions::default().set_fast().set_indexed());
    sb.add_facet_field("facet", FacetOptions::default());
    sb.add_json_field(
        "json",
        JsonObjectOptions::from(TEXT | STORED).set_fast(None).set_expand_dots_enabled(),
    );
    sb.build()
}

fn to_doc(schema: &Schema, d: &D) -> TantivyDocument {
    let f = |n: &str| schema.get_field(n).unwrap();
    let mut doc = TantivyDocument::default();
    doc.add_u64(f("id"), d.id);
    if let Some(v) = d.sort_u {
        doc.add_u64(f("sort_u"), v);
    }
    if let Some(v) = d.sort_i {
        doc.add_i64(f("sort_i"), v);
    }
    if let Some(v) = d.sort_f {
        doc.add_f64(f("sort_f"), v);
    }
    if let Some(v) = d.sort_d {
        doc.add_date(f("sort_d"), DateTime::from_timestamp_secs(v));
    }
    for t in &d.text {
        doc.add_text(f("text"), t);
    }
    for t in &d.tag {
        doc.add_text(f("tag"), t);
    }
    for n in &d.nums {
        doc.add_u64(f("nums"), *n);
    }
    if let Some(ip) = d.ip {
        doc.add_ip_addr(f("ip"), Ipv6Addr::from(ip));
    }
    if let Some(b) = &d.bytes {
        doc.add_bytes(f("bytes"), b);
    }
    for fc in &d.facet {
        doc.add_facet(f("facet"), Facet::from(fc.as_str()));
    }
    if let Some(j) = &d.json {
        let v: serde_json::Value = serde_json::from_str(j).unwrap();
        let obj: std::collections::BTreeMap<String, tantivy::schema::OwnedValue> = v
            .as_object()
            .unwrap()
            .iter()
            .map(|(k, v)| (k.clone(), tantivy::schema::OwnedValue::from(v.clone())))
            .collect();
        doc.add_object(f("json"), obj);
    }
    doc
}

/// ops: Add(doc) / Delete(id) / Commit, replayed identically on both indexes
enum Op {
    Add(D),
    Del(u64),
    Commit,
}

fn build(sort: Option<(&str, Order)>, ops: &[Op], merge: bool) -> Index {
    let schema = schema();
    let mut b = Index::builder().schema(schema.clone());
    if let Some((field, order)) = sort {
        b = b.settings(IndexSettings {
            sort_by_field: Some(IndexSortByField { field: field.to_string(), order }),
            ..Default::default()
        });
    }
    let index = b.create_in_ram().unwrap();
    let mut w: IndexWriter = index.writer_with_num_threads(1, 30_000_000).unwrap();
    w.set_merge_policy(Box::new(NoMergePolicy));
    let id = schema.get_field("id").unwrap();
    for op in ops {
        match op {
            Op::Add(d) => {
                w.add_document(to_doc(&schema, d)).unwrap();
            }
            Op::Del(k) => {
                w.delete_term(Term::from_field_u64(id, *k));
            }
            Op::Commit => {
                w.commit().unwrap();
            }
        }
    }
    w.commit().unwrap();
    if merge {
        let ids = index.searchable_segment_ids().unwrap();
        if ids.len() > 1 {
            w.merge(&ids).wait().unwrap();
        }
        w.wait_merging_threads().unwrap();
    }
    index
}

fn ids(searcher: &Searcher, q: &dyn Query) -> BTreeSet<u64> {
    let addrs = searcher.search(q, &DocSetCollector).unwrap();
    let n = addrs.len();
    let out: BTreeSet<u64> = addrs
        .into_iter()
        .map(|a| {
            searcher
                .segment_reader(a.segment_ord)
                .fast_fields()
                .u64("id")
                .unwrap()
                .first(a.doc_id)
                .unwrap()
        })
        .collect();
    assert_eq!(out.len(), n);
    assert_eq!(searcher.search(q, &Count).unwrap(), n, "count vs docset for {q:?}");
    let top = searcher.search(q, &TopDocs::with_limit(10_000).order_by_score()).unwrap();
    assert_eq!(top.len(), n, "topdocs vs docset for {q:?}");
    out
}

fn queries(schema: &Schema) -> Vec<Box<dyn Query>> {
    let f = |n: &str| schema.get_field(n).unwrap();
    let mut qs: Vec<Box<dyn Query>> = vec![Box::new(AllQuery)];
    let tq = |t: Term| -> Box<dyn Query> {
        Box::new(TermQuery::new(t, IndexRecordOption::WithFreqsAndPositions))
    };
    for w in WORDS {
        qs.push(tq(Term::from_field_text(f("text"), w)));
        qs.push(tq(Term::from_field_text(f("tag"), w)));
        for path in ["k", "o.p", "arr"] {
            let mut t = Term::from_field_json_path(f("json"), path, true);
            t.append_type_and_str(w);
            qs.push(tq(t));
        }
    }
    for a in WORDS {
        for b in WORDS {
            qs.push(Box::new(PhraseQuery::new(vec![
                Term::from_field_text(f("text"), a),
                Term::from_field_text(f("text"), b),
            ])));
            let mut pq = PhraseQuery::new(vec![
                Term::from_field_text(f("text"), a),
                Term::from_field_text(f("text"), b),
            ]);
            pq.set_slop(1);
            qs.push(Box::new(pq));
            let mut ta = Term::from_field_json_path(f("json"), "k", true);
            ta.append_type_and_str(a);
            let mut tb = Term::from_field_json_path(f("json"), "k", true);
            tb.append_type_and_str(b);
            qs.push(Box::new(PhraseQuery::new(vec![ta, tb])));
            qs.push(Box::new(BooleanQuery::new(vec![
                (Occur::Must, tq(Term::from_field_text(f("text"), a))),
                (Occur::MustNot, tq(Term::from_field_text(f("tag"), b))),
            ])));
        }
        qs.push(Box::new(PhrasePrefixQuery::new(vec![
            Term::from_field_text(f("text"), a),
            Term::from_field_text(f("text"), "b"),
        ])));
    }
    for n in 0..6u64 {
        qs.push(tq(Term::from_field_u64(f("nums"), n)));
        qs.push(tq(Term::from_field_u64(f("sort_u"), n)));
        qs.push(tq(Term::from_field_i64(f("sort_i"), n as i64 - 3)));
        qs.push(tq(Term::from_field_date(f("sort_d"), DateTime::from_timestamp_secs(n as i64 - 3))));
        qs.push(tq(Term::from_field_ip_addr(f("ip"), Ipv6Addr::from(n as u128))));
        qs.push(Box::new(RangeQuery::new(
            Bound::Included(Term::from_field_u64(f("nums"), n)),
            Bound::Unbounded,
        )));
        qs.push(Box::new(RangeQuery::new(
            Bound::Included(Term::from_field_i64(f("sort_i"), n as i64 - 3)),
            Bound::Excluded(Term::from_field_i64(f("sort_i"), 2)),
        )));
        qs.push(Box::new(RangeQuery::new(
            Bound::Excluded(Term::from_field_ip_addr(f("ip"), Ipv6Addr::from(n as u128))),
            Bound::Unbounded,
        )));
        let mut t = Term::from_field_json_path(f("json"), "n", true);
        t.append_type_and_fast_value(n as i64);
        qs.push(tq(t));
    }
    for v in [-1.5, -0.0, 0.0, 2.5, f64::INFINITY, f64::NEG_INFINITY] {
        qs.push(tq(Term::from_field_f64(f("sort_f"), v)));
        qs.push(Box::new(RangeQuery::new(
            Bound::Included(Term::from_field_f64(f("sort_f"), v)),
            Bound::Unbounded,
        )));
    }
    for b in [vec![], vec![0u8], vec![1u8, 1u8], vec![2u8]] {
        qs.push(tq(Term::from_field_bytes(f("bytes"), &b)));
    }
    for a in &WORDS[..3] {
        qs.push(tq(Term::from_facet(f("facet"), &Facet::from(format!("/{a}").as_str()))));
        for b in &WORDS[..3] {
            qs.push(tq(Term::from_facet(f("facet"), &Facet::from(format!("/{a}/{b}").as_str()))));
        }
    }
    for name in [
        "sort_u", "sort_i", "sort_f", "sort_d", "tag", "nums", "ip", "bytes", "json", "json.k",
        "json.o.p", "json.o", "json.n", "json.b", "json.arr",
    ] {
        qs.push(Box::new(ExistsQuery::new(name.to_string(), true)));
    }
    qs
}

fn run(seed: u64) {
    let mut rng = StdRng::seed_from_u64(seed);
    let mut ops = Vec::new();
    let n = rng.random_range(1..60);
    let mut next = 0u64;
    for _ in 0..n {
        match rng.random_range(0..10) {
            0 => ops.push(Op::Commit),
            1 if next > 0 => ops.push(Op::Del(rng.random_range(0..next))),
            _ => {
                ops.push(Op::Add(gen(&mut rng, next)));
                next += 1;
            }
        }
    }
    let merge = rng.random_bool(0.5);
    let sorts = [
        ("sort_u", Order::Asc),
        ("sort_u", Order::Desc),
        ("sort_i", Order::Asc),
        ("sort_i", Order::Desc),
        ("sort_f", Order::Asc),
        ("sort_f", Order::Desc),
        ("sort_d", Order::Asc),
        ("sort_d", Order::Desc),
    ];
    let sort = sorts[rng.random_range(0..sorts.len())];
    let plain = build(None, &ops, merge);
    let sorted = build(Some(sort), &ops, merge);
    let sp = plain.reader().unwrap().searcher();
    let ss = sorted.reader().unwrap().searcher();
    // the sorted index really is sorted
    for sr in ss.segment_readers() {
        let ff = sr.fast_fields();
        let col = ff.u64_lenient(sort.0).unwrap();
        if let Some((col, _)) = col {
            let vals: Vec<Option<u64>> = (0..sr.max_doc()).map(|d| col.first(d)).collect();
            let mut sorted_vals = vals.clone();
            // missing values are treated as the default (0) by the writer
            sorted_vals.sort_by_key(|v| v.unwrap_or(0));
            if sort.1 == Order::Desc {
                sorted_vals.reverse();
            }
            let key = |v: &Vec<Option<u64>>| v.iter().map(|x| x.unwrap_or(0)).collect::<Vec<_>>();
            if sort.0 != "sort_i" && sort.0 != "sort_f" && sort.0 != "sort_d" {
                assert_eq!(key(&vals), key(&sorted_vals), "seed {seed} segment not sorted by {sort:?}");
            }
        }
    }
    let schema = plain.schema();
    for q in queries(&schema) {
        let a = ids(&sp, q.as_ref());
        let b = ids(&ss, q.as_ref());
        assert_eq!(a, b, "seed={seed} sort={sort:?} merge={merge} query={q:?}");
    }
}

#[test]
fn sorted_vs_unsorted() {
    for seed in 0..120 {
        run(seed);
    }
}
