// EXPLORATORY differential test for FacetCollector vs brute force model.
use std::collections::{BTreeMap, BTreeSet};

use tantivy::collector::FacetCollector;
use tantivy::indexer::NoMergePolicy;
use tantivy::query::{AllQuery, Query, TermQuery};
use tantivy::schema::{Facet, FacetOptions, IndexRecordOption, Schema, FAST, INDEXED, STRING};
use tantivy::{doc, Index, IndexWriter, TantivyDocument, Term};

struct Lcg(u64);
impl Lcg {
    fn next(&mut self) -> u64 {
        self.0 = self
            .0
            .wrapping_mul(6364136223846793005)
            .wrapping_add(1442695040888963407);
        self.0 >> 33
    }
    fn below(&mut self, n: u64) -> u64 {
        self.next() % n
    }
}

const COMPS: &[&str] = &["a", "ab", "b", "bb", "a-b", "c", "ac"];

fn rand_facet(rng: &mut Lcg) -> Vec<String> {
    let depth = 1 + rng.below(3);
    (0..depth)
        .map(|_| COMPS[rng.below(COMPS.len() as u64) as usize].to_string())
        .collect()
}

#[derive(Clone, Debug)]
struct ModelDoc {
    id: u64,
    tag: &'static str,
    facets: Vec<Vec<String>>,
    alive: bool,
}

fn model_counts(
    docs: &[ModelDoc],
    tag: Option<&str>,
    roots: &[Vec<String>],
) -> BTreeMap<Facet, u64> {
    let mut res = BTreeMap::new();
    for d in docs {
        if !d.alive {
            continue;
        }
        if let Some(t) = tag {
            if d.tag != t {
                continue;
            }
        }
        let mut children: BTreeSet<Facet> = BTreeSet::new();
        for f in &d.facets {
            for r in roots {
                if f.len() > r.len() && f[..r.len()] == r[..] {
                    children.insert(Facet::from_path(f[..r.len() + 1].iter()));
                }
            }
        }
        for c in children {
            *res.entry(c).or_insert(0u64) += 1;
        }
    }
    res
}

fn run(seed: u64) -> Result<(), String> {
    let mut rng = Lcg(seed);
    let mut sb = Schema::builder();
    let facet_f = sb.add_facet_field("facet", FacetOptions::default());
    let tag_f = sb.add_text_field("tag", STRING);
    let id_f = sb.add_u64_field("id", INDEXED | FAST);
    let schema = sb.build();
    let index = Index::create_in_ram(schema);
    let mut writer: IndexWriter = index.writer_with_num_threads(1, 50_000_000).unwrap();
    writer.set_merge_policy(Box::new(NoMergePolicy));
    let mut docs: Vec<ModelDoc> = Vec::new();
    let nseg = 1 + rng.below(4);
    let mut id = 0u64;
    for _ in 0..nseg {
        let n = rng.below(8);
        for _ in 0..n {
            let nf = rng.below(4);
            let facets: Vec<Vec<String>> = (0..nf).map(|_| rand_facet(&mut rng)).collect();
            let tag = if rng.below(2) == 0 { "x" } else { "y" };
            let mut d = TantivyDocument::default();
            d.add_u64(id_f, id);
            d.add_text(tag_f, tag);
            for f in &facets {
                d.add_facet(facet_f, Facet::from_path(f.iter()));
            }
            writer.add_document(d).unwrap();
            docs.push(ModelDoc {
                id,
                tag,
                facets,
                alive: true,
            });
            id += 1;
        }
        writer.commit().unwrap();
    }
    // deletes
    if !docs.is_empty() && rng.below(2) == 0 {
        let ndel = rng.below(3);
        for _ in 0..ndel {
            let i = rng.below(docs.len() as u64) as usize;
            docs[i].alive = false;
            writer.delete_term(Term::from_field_u64(id_f, docs[i].id));
        }
        writer.commit().unwrap();
    }
    if rng.below(3) == 0 {
        let ids = index.searchable_segment_ids().unwrap();
        if ids.len() > 1 {
            writer.merge(&ids).wait().unwrap();
        }
    }
    let reader = index.reader().unwrap();
    let searcher = reader.searcher();

    let root_sets: Vec<Vec<Vec<String>>> = vec![
        // vec![vec![]], // root: known failing, see h7c_facet_root.rs
        vec![vec!["a".into()]],
        vec![vec!["a".into()], vec!["ab".into()]],
        vec![vec!["a".into()], vec!["a-b".into()], vec!["b".into()]],
        vec![vec!["a".into(), "b".into()], vec!["b".into()]],
        vec![
            vec!["a".into(), "a".into()],
            vec!["a".into(), "a-b".into()],
            vec!["a".into(), "ab".into()],
            vec!["c".into()],
        ],
        vec![vec!["zz".into()]],
        vec![vec!["ab".into()], vec!["zz".into()]],
    ];
    for roots in &root_sets {
        for tag in [None, Some("x")] {
            let mut coll = FacetCollector::for_field("facet");
            for r in roots {
                if r.is_empty() {
                    coll.add_facet(Facet::root());
                } else {
                    coll.add_facet(Facet::from_path(r.iter()));
                }
            }
            let q: Box<dyn Query> = match tag {
                None => Box::new(AllQuery),
                Some(t) => Box::new(TermQuery::new(
                    Term::from_field_text(tag_f, t),
                    IndexRecordOption::Basic,
                )),
            };
            let counts = searcher
                .search(&*q, &coll)
                .map_err(|e| format!("seed {seed} search error {e:?}"))?;
            let expected = model_counts(&docs, tag, roots);
            let got: BTreeMap<Facet, u64> = counts
                .get("/")
                .map(|(f, c)| (f.clone(), c))
                .collect();
            if got != expected {
                return Err(format!(
                    "seed {seed} roots {roots:?} tag {tag:?}\n got      {got:?}\n expected {expected:?}"
                ));
            }
            // per root get + top_k
            for r in roots {
                let rf = if r.is_empty() {
                    Facet::root()
                } else {
                    Facet::from_path(r.iter())
                };
                let exp_r: Vec<(Facet, u64)> = expected
                    .iter()
                    .filter(|(f, _)| rf.is_prefix_of(f))
                    .map(|(f, c)| (f.clone(), *c))
                    .collect();
                let got_r: Vec<(Facet, u64)> =
                    counts.get(rf.clone()).map(|(f, c)| (f.clone(), c)).collect();
                if got_r != exp_r {
                    return Err(format!(
                        "seed {seed} get({rf}) roots {roots:?}\n got {got_r:?}\n exp {exp_r:?}"
                    ));
                }
                for k in 0..4usize {
                    let mut exp_top = exp_r.clone();
                    exp_top.sort_by(|a, b| b.1.cmp(&a.1).then(a.0.cmp(&b.0)));
                    exp_top.truncate(k);
                    let got_top: Vec<(Facet, u64)> = counts
                        .top_k(rf.clone(), k)
                        .into_iter()
                        .map(|(f, c)| (f.clone(), c))
                        .collect();
                    if got_top != exp_top {
                        return Err(format!(
                            "seed {seed} top_k({rf},{k})\n got {got_top:?}\n exp {exp_top:?}"
                        ));
                    }
                }
            }
        }
    }
    Ok(())
}

#[test]
fn h7c_facet_differential_explore() {
    let mut failures = Vec::new();
    for seed in 0..400u64 {
        if let Err(e) = run(seed) {
            failures.push(e);
            if failures.len() >= 3 {
                break;
            }
        }
    }
    for f in &failures {
        eprintln!("{f}\n-----");
    }
    assert!(failures.is_empty(), "{} failures", failures.len());
}

#[allow(dead_code)]
fn unused(_: tantivy::DocAddress) {
    let _ = doc!();
}
