//! TopDocs ordered by `SortByErasedType` on a JSON path: the keys and the order depend on how the
//! documents are spread over segments.
use tantivy::collector::sort_key::SortByErasedType;
use tantivy::collector::TopDocs;
use tantivy::indexer::NoMergePolicy;
use tantivy::query::AllQuery;
use tantivy::schema::{OwnedValue, Schema, TantivyDocument, FAST, STORED};
use tantivy::{Index, IndexWriter, Order, Searcher};

fn schema() -> Schema {
    let mut sb = Schema::builder();
    sb.add_u64_field("id", FAST);
    sb.add_json_field("j", FAST | STORED);
    sb.build()
}

/// every inner Vec is one segment
fn build(segments: &[&[&str]]) -> (Index, IndexWriter) {
    let index = Index::create_in_ram(schema());
    let mut w: IndexWriter = index.writer_with_num_threads(1, 20_000_000).unwrap();
    w.set_merge_policy(Box::new(NoMergePolicy));
    for seg in segments {
        for d in seg.iter() {
            w.add_document(TantivyDocument::parse_json(&index.schema(), d).unwrap()).unwrap();
        }
        w.commit().unwrap();
    }
    (index, w)
}

fn ranked(searcher: &Searcher, order: Order) -> tantivy::Result<Vec<(u64, OwnedValue)>> {
    let hits = searcher
        .search(&AllQuery, &TopDocs::with_limit(10).order_by((SortByErasedType::for_field("j.a"), order)))?;
    Ok(hits
        .into_iter()
        .map(|(k, a)| {
            let id = searcher.segment_reader(a.segment_ord).fast_fields().u64("id").unwrap();
            (id.first(a.doc_id).unwrap(), k)
        })
        .collect())
}

const DOCS: [&str; 3] =
    [r#"{"id":0,"j":{"a":5}}"#, r#"{"id":1,"j":{"a":"foo"}}"#, r#"{"id":2,"j":{"a":2.5}}"#];

/// Three segments, then the very same documents after a merge: same live documents, same query,
/// same collector. The keys of the documents (and hence the ranking) must not change.
#[test]
fn erased_json_keys_change_after_merge() {
    let (index, mut w) = build(&[&DOCS[0..1], &DOCS[1..2], &DOCS[2..3]]);
    let before = ranked(&index.reader().unwrap().searcher(), Order::Asc).unwrap();
    let ids = index.searchable_segment_ids().unwrap();
    w.merge(&ids).wait().unwrap();
    let after = ranked(&index.reader().unwrap().searcher(), Order::Asc).unwrap();
    let id_seq = |v: &Vec<(u64, OwnedValue)>| v.iter().map(|x| x.0).collect::<Vec<u64>>();
    assert_eq!(
        id_seq(&before),
        id_seq(&after),
        "ranking with three segments {before:?} vs merged {after:?}"
    );
}

/// the key returned for doc 1 is not its value
#[test]
fn erased_json_key_is_not_the_true_key() {
    let (index, _w) = build(&[&DOCS[..]]);
    let r = ranked(&index.reader().unwrap().searcher(), Order::Desc).unwrap();
    let key_of_1 = r.iter().find(|(id, _)| *id == 1).unwrap().1.clone();
    assert_eq!(key_of_1, OwnedValue::Str("foo".to_string()), "ranking = {r:?}");
}

/// A segment in which no document has the path: the whole search fails, although
/// "documents that do not have this value are still considered" (SortByString on the same path
/// works and the same documents in one segment work).
#[test]
fn erased_json_segment_without_the_path_fails_the_search() {
    let docs_a: [&str; 1] = [r#"{"id":0,"j":{"a":5}}"#];
    let docs_b: [&str; 1] = [r#"{"id":1,"j":{"b":1}}"#];
    let all: [&str; 2] = [docs_a[0], docs_b[0]];
    let (one, _w1) = build(&[&all[..]]);
    let one = ranked(&one.reader().unwrap().searcher(), Order::Desc).unwrap();
    assert_eq!(one, vec![(0, OwnedValue::I64(5)), (1, OwnedValue::Null)]);
    let (two, _w2) = build(&[&docs_a[..], &docs_b[..]]);
    let two = ranked(&two.reader().unwrap().searcher(), Order::Desc);
    assert_eq!(two.map_err(|e| e.to_string()), Ok(one), "one segment vs two segments");
}
