// DEMO (fails on current code): FacetCollector with the root facet "/" miscounts
// top-level facets. C03: facet counts must equal a brute-force count.
use tantivy::collector::FacetCollector;
use tantivy::query::AllQuery;
use tantivy::schema::{Facet, FacetOptions, Schema};
use tantivy::{doc, Index, IndexWriter};

fn root_counts(facets_per_doc: &[&[&str]]) -> Vec<(String, u64)> {
    let mut sb = Schema::builder();
    let facet_f = sb.add_facet_field("facet", FacetOptions::default());
    let index = Index::create_in_ram(sb.build());
    let mut writer: IndexWriter = index.writer_with_num_threads(1, 50_000_000).unwrap();
    for facets in facets_per_doc {
        let mut d = tantivy::TantivyDocument::default();
        for f in *facets {
            d.add_facet(facet_f, Facet::from(*f));
        }
        writer.add_document(d).unwrap();
    }
    writer.commit().unwrap();
    let searcher = index.reader().unwrap().searcher();
    let mut coll = FacetCollector::for_field("facet");
    coll.add_facet("/");
    let counts = searcher.search(&AllQuery, &coll).unwrap();
    counts
        .get("/")
        .map(|(f, c)| (f.to_path_string(), c))
        .collect()
}

#[test]
fn h7c_facet_root_counts_single_char_and_shared_suffix() {
    let _ = doc!();
    // (a) two documents under the same single-character top-level facet.
    let got_a = root_counts(&[&["/b/x"], &["/b/y"]]);
    // (b) two different top-level facets that only differ by their first byte.
    let got_b = root_counts(&[&["/ab/x"], &["/bb/y"]]);
    let expected_a = vec![("/b".to_string(), 2)];
    let expected_b = vec![("/ab".to_string(), 1), ("/bb".to_string(), 1)];
    assert_eq!((got_a, got_b), (expected_a, expected_b));
}
