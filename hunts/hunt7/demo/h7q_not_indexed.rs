//! C03 demos: queries on fields that cannot answer them must fail, not silently match nothing,
//! and must behave the same with scoring enabled (TopDocs) and disabled (Count).
use std::ops::Bound;

use tantivy::collector::{Count, TopDocs};
use tantivy::query::{FuzzyTermQuery, Query, RangeQuery, RegexQuery, TermQuery};
use tantivy::schema::*;
use tantivy::{Index, IndexWriter, Searcher, TantivyDocument, Term};

fn build() -> (Searcher, Field, Field, Field) {
    let mut sb = Schema::builder();
    let stored_text = sb.add_text_field("stored_text", STORED);
    let fast_text = sb.add_text_field("fast_text", FAST);
    let stored_num = sb.add_u64_field("stored_num", STORED);
    let index = Index::create_in_ram(sb.build());
    let mut w: IndexWriter = index.writer_with_num_threads(1, 50_000_000).unwrap();
    let mut td = TantivyDocument::new();
    td.add_text(stored_text, "hello");
    td.add_text(fast_text, "hello");
    td.add_u64(stored_num, 5);
    w.add_document(td).unwrap();
    w.commit().unwrap();
    (index.reader().unwrap().searcher(), stored_text, fast_text, stored_num)
}

/// TermQuery / TermSetQuery / PhraseQuery / ExistsQuery all return a SchemaError on such fields.
/// FuzzyTermQuery, RegexQuery and RangeQuery go straight to `SegmentReader::inverted_index`, which
/// hands out an *empty* inverted index for a non-indexed field, so the only document (which does
/// hold "hello" / 5) is silently not matched: `Ok(0)`.
#[test]
fn automaton_and_range_queries_on_non_indexed_field_silently_match_nothing() {
    let (s, stored_text, _fast_text, stored_num) = build();
    let queries: Vec<(&str, Box<dyn Query>)> = vec![
        (
            "fuzzy",
            Box::new(FuzzyTermQuery::new(Term::from_field_text(stored_text, "hello"), 1, true)),
        ),
        ("regex", Box::new(RegexQuery::from_pattern("hel.*", stored_text).unwrap())),
        (
            "range",
            Box::new(RangeQuery::new(
                Bound::Included(Term::from_field_u64(stored_num, 0)),
                Bound::Included(Term::from_field_u64(stored_num, 10)),
            )),
        ),
    ];
    let mut silently_empty = Vec::new();
    for (name, q) in &queries {
        // The document's value does satisfy the query: either it is found, or an error is raised.
        match s.search(&**q, &Count) {
            Ok(1) | Err(_) => {}
            Ok(n) => silently_empty.push(format!("{name} -> Ok({n})")),
        }
    }
    assert!(silently_empty.is_empty(), "{silently_empty:?}");
}

/// A TermQuery on a FAST-only text field is answered through the fast field when scoring is
/// disabled (Count -> 1) but is an error when scoring is enabled (TopDocs).
#[test]
fn term_query_on_fast_only_field_count_vs_topdocs() {
    let (s, _stored_text, fast_text, _stored_num) = build();
    let q = TermQuery::new(Term::from_field_text(fast_text, "hello"), IndexRecordOption::Basic);
    let count = s.search(&q, &Count).map_err(|e| e.to_string());
    let top = s
        .search(&q, &TopDocs::with_limit(10).order_by_score())
        .map(|hits| hits.len())
        .map_err(|e| e.to_string());
    assert_eq!(count, top);
}
