//! The block-max metadata stored in the skip list is the (fieldnorm, term freq) pair that maximises
//! BM25 *for the average field length of the segment being written*. At search time the average
//! field length is the one of the whole index. When the two differ, the stored pair is no longer
//! the arg-max of the block, `block_max_score()` under-estimates, and block-WAND skips blocks that
//! contain the best documents.
use tantivy::collector::sort_key::SortBySimilarityScore;
use tantivy::collector::TopDocs;
use tantivy::indexer::NoMergePolicy;
use tantivy::query::{BooleanQuery, Occur, Query, TermQuery};
use tantivy::schema::{IndexRecordOption, Schema, FAST, TEXT};
use tantivy::{doc, DocAddress, Index, IndexWriter, Order, Score, Term};

fn build(with_long_segment: bool) -> Index {
    let mut sb = Schema::builder();
    let id = sb.add_u64_field("id", FAST);
    let body = sb.add_text_field("body", TEXT);
    let index = Index::create_in_ram(sb.build());
    let mut w: IndexWriter = index.writer_with_num_threads(1, 100_000_000).unwrap();
    w.set_merge_policy(Box::new(NoMergePolicy));
    // segment 1: 300 one-word documents "a" (and "b" for every other one), except document 200
    // which has tf("a") = 5, tf("b") = 5 in a 100 token text.
    for i in 0..300u64 {
        if i == 200 {
            let mut s = "a a a a a b b b b b".to_string();
            for _ in 0..90 {
                s.push_str(" f");
            }
            w.add_document(doc!(id => i, body => s)).unwrap();
        } else {
            w.add_document(doc!(id => i, body => "a b")).unwrap();
        }
    }
    w.commit().unwrap();
    if with_long_segment {
        // segment 2: a few very long documents: the average field length of the index becomes
        // ~1300 tokens instead of ~2.
        for i in 0..4u64 {
            let mut s = String::with_capacity(220_000);
            for _ in 0..100_000 {
                s.push_str("z ");
            }
            w.add_document(doc!(id => 1000 + i, body => s)).unwrap();
        }
        w.commit().unwrap();
    }
    index
}

fn check(index: &Index, q: &dyn Query, what: &str) {
    let searcher = index.reader().unwrap().searcher();
    let id_of = |a: DocAddress| {
        searcher.segment_reader(a.segment_ord).fast_fields().u64("id").unwrap().first(a.doc_id).unwrap()
    };
    // complete ranking, generic path (no pruning)
    let full: Vec<(Score, u64)> = searcher
        .search(q, &TopDocs::with_limit(1000).order_by((SortBySimilarityScore, Order::Desc)))
        .unwrap()
        .into_iter()
        .map(|(s, a)| (s, id_of(a)))
        .collect();
    for k in [1usize, 3] {
        let top: Vec<(Score, u64)> = searcher
            .search(q, &TopDocs::with_limit(k).order_by_score())
            .unwrap()
            .into_iter()
            .map(|(s, a)| (s, id_of(a)))
            .collect();
        assert_eq!(top, full[..k].to_vec(), "{what}: top-{k} (pruning) vs head of the full ranking");
    }
}

fn tq(index: &Index, t: &str) -> Box<dyn Query> {
    let body = index.schema().get_field("body").unwrap();
    Box::new(TermQuery::new(Term::from_field_text(body, t), IndexRecordOption::WithFreqs))
}

/// control: with one segment the write-time and search-time averages agree
#[test]
fn control_single_segment_is_fine() {
    let index = build(false);
    check(&index, tq(&index, "a").as_ref(), "term a");
    let q = BooleanQuery::new(vec![(Occur::Should, tq(&index, "a")), (Occur::Should, tq(&index, "b"))]);
    check(&index, &q, "a OR b");
    let q = BooleanQuery::new(vec![(Occur::Must, tq(&index, "a")), (Occur::Must, tq(&index, "b"))]);
    check(&index, &q, "a AND b");
}

#[test]
fn term_query_topk_misses_best_doc() {
    let index = build(true);
    check(&index, tq(&index, "a").as_ref(), "term a");
}

#[test]
fn union_topk_misses_best_doc() {
    let index = build(true);
    let q = BooleanQuery::new(vec![(Occur::Should, tq(&index, "a")), (Occur::Should, tq(&index, "b"))]);
    check(&index, &q, "a OR b");
}

#[test]
fn intersection_topk_misses_best_doc() {
    let index = build(true);
    let q = BooleanQuery::new(vec![(Occur::Must, tq(&index, "a")), (Occur::Must, tq(&index, "b"))]);
    check(&index, &q, "a AND b");
}

/// `Bm25Weight::max_score()` (= score(fieldnorm id 255, tf 2e9)) is used as the upper bound of a
/// posting list / of a block that is not loaded. Field norms are quantised downwards (41 tokens are
/// stored as 40), so a document made of 41 x "a" has tf > fieldnorm and scores *above* that
/// "maximum" when the average field length is small. The last (VInt) block is then skipped.
#[test]
fn max_score_is_not_an_upper_bound() {
    let mut sb = Schema::builder();
    let id = sb.add_u64_field("id", FAST);
    let body = sb.add_text_field("body", TEXT);
    let index = Index::create_in_ram(sb.build());
    let mut w: IndexWriter = index.writer_with_num_threads(1, 50_000_000).unwrap();
    for i in 0..200u64 {
        let n = match i {
            5 => 43,
            150 => 41,
            _ => 1,
        };
        let s = vec!["a"; n].join(" ");
        w.add_document(doc!(id => i, body => s)).unwrap();
    }
    w.commit().unwrap();
    check(&index, tq(&index, "a").as_ref(), "term a");
}
