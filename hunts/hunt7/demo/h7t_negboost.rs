//! A BooleanQuery whose term clauses carry a negative boost takes the block-WAND paths, whose
//! upper bounds assume positive weights.
use rand::rngs::StdRng;
use rand::{Rng, SeedableRng};
use tantivy::collector::sort_key::SortBySimilarityScore;
use tantivy::collector::{Count, TopDocs};
use tantivy::query::{BooleanQuery, BoostQuery, ConstScoreQuery, Occur, Query, TermQuery};
use tantivy::schema::{IndexRecordOption, Schema, TEXT};
use tantivy::{doc, DocAddress, Index, IndexWriter, Order, Score, Term};

fn build(seed: u64, n: usize) -> Index {
    let mut rng = StdRng::seed_from_u64(seed);
    let mut sb = Schema::builder();
    let body = sb.add_text_field("body", TEXT);
    let index = Index::create_in_ram(sb.build());
    let mut w: IndexWriter = index.writer_with_num_threads(1, 50_000_000).unwrap();
    for _ in 0..n {
        let mut s = String::new();
        // a: frequent, variable tf / doc length ; b: rarer
        let na = if rng.random_bool(0.7) { rng.random_range(1..6) } else { 0 };
        let nb = if rng.random_bool(0.3) { rng.random_range(1..4) } else { 0 };
        let filler = rng.random_range(0..30);
        for _ in 0..na {
            s.push_str("a ");
        }
        for _ in 0..nb {
            s.push_str("b ");
        }
        for _ in 0..filler {
            s.push_str("z ");
        }
        w.add_document(doc!(body => s)).unwrap();
    }
    w.commit().unwrap();
    index
}

fn tq(index: &Index, t: &str) -> Box<dyn Query> {
    let body = index.schema().get_field("body").unwrap();
    Box::new(TermQuery::new(Term::from_field_text(body, t), IndexRecordOption::WithFreqs))
}

fn check(index: &Index, q: &dyn Query, k: usize, what: &str) {
    let searcher = index.reader().unwrap().searcher();
    let n = searcher.search(q, &Count).unwrap();
    // complete ranking through the generic (non pruning) path
    let full: Vec<(Score, DocAddress)> = searcher
        .search(q, &TopDocs::with_limit(n.max(1)).order_by((SortBySimilarityScore, Order::Desc)))
        .unwrap();
    assert_eq!(full.len(), n);
    let top: Vec<(Score, DocAddress)> =
        searcher.search(q, &TopDocs::with_limit(k).order_by_score()).unwrap();
    let exp: Vec<(Score, DocAddress)> = full.iter().take(k).cloned().collect();
    let tops: Vec<Score> = top.iter().map(|x| x.0).collect();
    let exps: Vec<Score> = exp.iter().map(|x| x.0).collect();
    assert_eq!(top.len(), exp.len(), "{what}: number of hits; got {tops:?} expected {exps:?}");
    for (g, e) in top.iter().zip(exp.iter()) {
        assert!(
            (g.0 - e.0).abs() <= 1e-5 * e.0.abs().max(1.0),
            "{what}: got scores {tops:?}, expected {exps:?}"
        );
    }
}

#[test]
fn negative_boost_union_topk() {
    let index = build(1, 2000);
    let q = BooleanQuery::new(vec![
        (Occur::Should, Box::new(BoostQuery::new(tq(&index, "a"), -1.0)) as Box<dyn Query>),
        (Occur::Should, tq(&index, "b")),
    ]);
    check(&index, &q, 5, "should(a^-1, b)");
}

#[test]
fn negative_boost_intersection_topk() {
    let index = build(2, 2000);
    let q = BooleanQuery::new(vec![
        (Occur::Must, Box::new(BoostQuery::new(tq(&index, "a"), -1.0)) as Box<dyn Query>),
        (Occur::Must, tq(&index, "b")),
    ]);
    check(&index, &q, 5, "must(a^-1, b)");
}

#[test]
fn negative_boost_single_term_in_boolean_topk() {
    let index = build(3, 2000);
    let q = BooleanQuery::new(vec![(
        Occur::Should,
        Box::new(BoostQuery::new(tq(&index, "a"), -1.0)) as Box<dyn Query>,
    )]);
    check(&index, &q, 5, "should(a^-1)");
}

#[test]
fn negative_boost_plain_term_topk() {
    let index = build(4, 2000);
    let q = BoostQuery::new(tq(&index, "a"), -1.0);
    check(&index, &q, 5, "a^-1");
}

#[test]
fn const_score_neg_infinity_topk() {
    let index = build(5, 50);
    let q = ConstScoreQuery::new(tq(&index, "a"), f32::NEG_INFINITY);
    check(&index, &q, 5, "const(-inf)");
}
