//! C08 demo: "looking documents up by value range returns exactly the documents that hold a
//! value in the range".
//!
//! `Column::get_docids_for_value_range` with a range that lies entirely BELOW the smallest value of a
//! bit-packed column returns the documents holding the column's minimum value.
use tantivy::columnar::{ColumnarReader, ColumnarWriter, DynamicColumn};
use tantivy::schema::{Schema, FAST};
use tantivy::{doc, Index, IndexWriter};

#[test]
fn columnar_range_below_min_returns_docs_with_min_value() {
    // rows 0..4 hold 10, 11, 12, 15 (bit-packed codec: min=10, gcd=1)
    let mut writer = ColumnarWriter::default();
    for (row, val) in [10u64, 11, 12, 15].into_iter().enumerate() {
        writer.record_numerical(row as u32, "price", val);
    }
    let mut buffer = Vec::new();
    writer.serialize(4, None, &mut buffer).unwrap();
    let reader = ColumnarReader::open(buffer).unwrap();
    let handles = reader.read_columns("price").unwrap();
    let col = match handles[0].open().unwrap() {
        DynamicColumn::I64(col) => col, // small u64 values are stored as i64
        other => panic!("unexpected column type {:?}", other.column_type()),
    };
    assert_eq!(col.min_value(), 10);

    let mut docs = Vec::new();
    col.get_docids_for_value_range(0..=5, 0..4, &mut docs);
    assert_eq!(docs, Vec::<u32>::new(), "no row holds a value within 0..=5");
}

#[test]
fn segment_fast_field_range_below_min_returns_docs_with_min_value() {
    let mut schema_builder = Schema::builder();
    let price = schema_builder.add_u64_field("price", FAST);
    let index = Index::create_in_ram(schema_builder.build());
    let mut writer: IndexWriter = index.writer_with_num_threads(1, 20_000_000).unwrap();
    for val in [1000u64, 1000, 1003, 1017, 2000] {
        writer.add_document(doc!(price => val)).unwrap();
    }
    writer.commit().unwrap();
    let searcher = index.reader().unwrap().searcher();
    let segment = searcher.segment_reader(0);
    let col = segment.fast_fields().u64("price").unwrap();

    for range in [0u64..=999, 5..=5, 0..=0, 998..=999] {
        let mut docs = Vec::new();
        col.get_docids_for_value_range(range.clone(), 0..segment.max_doc(), &mut docs);
        let expected: Vec<u32> = (0..segment.max_doc())
            .filter(|doc| col.values_for_doc(*doc).any(|v| range.contains(&v)))
            .collect();
        assert_eq!(docs, expected, "docs with a price within {range:?}");
    }
}
