//! C15 demo: "bounded range ... streaming return precisely the keys ... that a sorted map would"
//! for "every range (ge/gt/le/lt/unbounded, empty, inverted)".
//!
//! On the sstable dictionary (which backs every string/bytes fast field, and the term dictionary under
//! the `quickwit` feature) an inverted range whose bounds fall in different blocks does not yield an
//! empty stream: it panics in `FileSlice::slice` (`assertion failed: end >= start`).
use std::collections::BTreeSet;

fn build_dict(num_keys: usize) -> (Vec<Vec<u8>>, tantivy::columnar::Dictionary) {
    let keys: Vec<Vec<u8>> = (0..num_keys).map(|i| format!("key{i:06}").into_bytes()).collect();
    let mut builder = <tantivy::columnar::Dictionary>::builder(Vec::new()).unwrap();
    for key in &keys {
        builder.insert(key, &()).unwrap();
    }
    let bytes = builder.finish().unwrap();
    let dict = <tantivy::columnar::Dictionary>::from_bytes(common::OwnedBytes::new(bytes)).unwrap();
    (keys, dict)
}

#[test]
fn inverted_range_within_one_block_is_empty() {
    // sanity check: this is the behaviour expected from any inverted range.
    let (_keys, dict) = build_dict(20_000);
    let mut stream = dict.range().ge(b"key000020").lt(b"key000010").into_stream().unwrap();
    assert!(!stream.advance());
}

#[test]
fn inverted_range_across_blocks_must_be_empty() {
    // 20_000 keys: about a dozen 4_000 byte blocks.
    let (keys, dict) = build_dict(20_000);
    let model: BTreeSet<Vec<u8>> = keys.iter().cloned().collect();
    let lo = b"key019000".to_vec();
    let hi = b"key001000".to_vec();
    // what a sorted map does with lo > hi when asked for keys k with lo <= k && k < hi.
    let expected: Vec<Vec<u8>> = model.iter().filter(|k| **k >= lo && **k < hi).cloned().collect();
    assert!(expected.is_empty());

    let mut stream = dict.range().ge(&lo).lt(&hi).into_stream().unwrap(); // <- panics
    let mut got: Vec<Vec<u8>> = Vec::new();
    while stream.advance() {
        got.push(stream.key().to_vec());
    }
    assert_eq!(got, expected);
}

/// With the sstable term dictionary (`--features quickwit`) the same defect turns a `RangeQuery` with
/// inverted bounds over an indexed text field into a panic instead of an empty result.
#[cfg(feature = "quickwit")]
#[test]
fn range_query_with_inverted_bounds_must_match_nothing() {
    use std::ops::Bound;

    use tantivy::collector::Count;
    use tantivy::query::RangeQuery;
    use tantivy::schema::{Schema, STRING};
    use tantivy::{doc, Index, IndexWriter, Term};

    let mut schema_builder = Schema::builder();
    let field = schema_builder.add_text_field("id", STRING);
    let index = Index::create_in_ram(schema_builder.build());
    let mut writer: IndexWriter = index.writer_with_num_threads(1, 50_000_000).unwrap();
    for i in 0..30_000 {
        writer.add_document(doc!(field => format!("key{i:06}"))).unwrap();
    }
    writer.commit().unwrap();
    let searcher = index.reader().unwrap().searcher();
    let query = RangeQuery::new(
        Bound::Included(Term::from_field_text(field, "key029000")),
        Bound::Excluded(Term::from_field_text(field, "key001000")),
    );
    let count = searcher.search(&query, &Count).unwrap(); // <- panics
    assert_eq!(count, 0);
}
