//! C08 demo: "looking documents up by value range returns exactly the documents that hold a value in
//! the range" - "IPv4-mapped and full IPv6" extremes.
//!
//! A range query answered from an IP address fast field turns an exclusive bound into an inclusive one
//! with an unchecked `+ 1` / `- 1` on the u128 value (`bound_range_inclusive_ip` in
//! src/query/range_query/range_query_fastfield.rs). With `Excluded(ffff:..:ffff)` as lower bound or
//! `Excluded(::)` as upper bound the arithmetic overflows: the query panics when overflow checks
//! are on (debug / test profile) and wraps around (matching documents it must not match) when they
//! are off.
use std::net::Ipv6Addr;
use std::ops::Bound;

use tantivy::collector::Count;
use tantivy::query::RangeQuery;
use tantivy::schema::{Schema, FAST};
use tantivy::{doc, Index, IndexWriter, Term};

fn index_with_ips() -> (Index, tantivy::schema::Field) {
    let mut schema_builder = Schema::builder();
    let ip = schema_builder.add_ip_addr_field("ip", FAST);
    let index = Index::create_in_ram(schema_builder.build());
    let mut writer: IndexWriter = index.writer_with_num_threads(1, 20_000_000).unwrap();
    for v in [0u128, 1, 0xffff_0a00_0001, u128::MAX] {
        writer.add_document(doc!(ip => Ipv6Addr::from(v))).unwrap();
    }
    writer.commit().unwrap();
    (index, ip)
}

#[test]
fn nothing_is_strictly_greater_than_the_largest_address() {
    let (index, ip) = index_with_ips();
    let searcher = index.reader().unwrap().searcher();
    let query = RangeQuery::new(
        Bound::Excluded(Term::from_field_ip_addr(ip, Ipv6Addr::from(u128::MAX))),
        Bound::Unbounded,
    );
    assert_eq!(searcher.search(&query, &Count).unwrap(), 0);
}

#[test]
fn nothing_is_strictly_smaller_than_the_smallest_address() {
    let (index, ip) = index_with_ips();
    let searcher = index.reader().unwrap().searcher();
    let query = RangeQuery::new(
        Bound::Unbounded,
        Bound::Excluded(Term::from_field_ip_addr(ip, Ipv6Addr::from(0u128))),
    );
    assert_eq!(searcher.search(&query, &Count).unwrap(), 0);
}
