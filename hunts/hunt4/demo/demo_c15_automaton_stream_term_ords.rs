//! C15 demo: "ordinal-to-key and key-to-ordinal conversion ... automaton-filtered streaming return
//! precisely the keys, in order and with their values, that a sorted map would".
//!
//! When an automaton search over an sstable dictionary can rule out whole blocks, the blocks are
//! skipped, but `Streamer::term_ord()` keeps counting as if no block had been skipped: every key
//! streamed after a skipped block is reported with a wrong (too small) ordinal.
//!
//! For the void-valued dictionaries of string fast fields the ordinal IS the payload: terms
//! aggregations with an `include`/`exclude` regex translate the matching terms to ordinals through
//! `stream.term_ord()`, and end up filtering on the wrong terms.
use tantivy::aggregation::agg_req::Aggregations;
use tantivy::aggregation::AggregationCollector;
use tantivy::query::AllQuery;
use tantivy::schema::{Schema, FAST, STRING};
use tantivy::{doc, Index, IndexWriter};

#[test]
fn automaton_stream_reports_wrong_term_ord_after_skipped_block() {
    // ~2_000 keys "aaa......" (several blocks that cannot match `z.*`), then the "z" keys.
    let mut keys: Vec<Vec<u8>> = (0..2_000).map(|i| format!("aaa{i:06}").into_bytes()).collect();
    keys.extend((0..5).map(|i| format!("z{i}").into_bytes()));
    let mut builder = <tantivy::columnar::Dictionary>::builder(Vec::new()).unwrap();
    for key in &keys {
        builder.insert(key, &()).unwrap();
    }
    let dict = <tantivy::columnar::Dictionary>::from_bytes(common::OwnedBytes::new(builder.finish().unwrap())).unwrap();

    let regex = tantivy_fst::Regex::new("z.*").unwrap();
    let mut stream = dict.search(regex).into_stream().unwrap();
    let mut got: Vec<(Vec<u8>, u64)> = Vec::new();
    while stream.advance() {
        got.push((stream.key().to_vec(), stream.term_ord()));
    }
    let expected: Vec<(Vec<u8>, u64)> = (2_000..2_005u64).map(|ord| (keys[ord as usize].clone(), ord)).collect();
    // the keys are right...
    assert_eq!(
        got.iter().map(|x| &x.0).collect::<Vec<_>>(),
        expected.iter().map(|x| &x.0).collect::<Vec<_>>()
    );
    // ... and key -> ordinal must agree with `term_ord(key)` / `ord_to_term(ord)`
    for (key, ord) in &got {
        assert_eq!(dict.term_ord(key).unwrap(), Some(*ord), "ordinal streamed for {:?}", String::from_utf8_lossy(key));
    }
    assert_eq!(got, expected);
}

#[test]
fn terms_aggregation_with_include_regex_returns_wrong_buckets() {
    let mut schema_builder = Schema::builder();
    let tag = schema_builder.add_text_field("tag", STRING | FAST);
    let index = Index::create_in_ram(schema_builder.build());
    let mut writer: IndexWriter = index.writer_with_num_threads(1, 100_000_000).unwrap();
    for i in 0..2_000 {
        writer.add_document(doc!(tag => format!("aaa{i:06}"))).unwrap();
    }
    for _ in 0..3 {
        writer.add_document(doc!(tag => "zebra")).unwrap();
    }
    for _ in 0..2 {
        writer.add_document(doc!(tag => "zoo")).unwrap();
    }
    writer.commit().unwrap();
    let searcher = index.reader().unwrap().searcher();
    assert_eq!(searcher.segment_readers().len(), 1);

    let agg_req: Aggregations = serde_json::from_value(serde_json::json!({
        "tags": { "terms": { "field": "tag", "include": "z.*", "size": 10 } }
    }))
    .unwrap();
    let collector = AggregationCollector::from_aggs(agg_req, Default::default());
    let agg_res = searcher.search(&AllQuery, &collector).unwrap();
    let res: serde_json::Value = serde_json::to_value(agg_res).unwrap();
    let buckets: Vec<(String, u64)> = res["tags"]["buckets"]
        .as_array()
        .unwrap()
        .iter()
        .map(|b| (b["key"].as_str().unwrap().to_string(), b["doc_count"].as_u64().unwrap()))
        .collect();
    assert_eq!(buckets, vec![("zebra".to_string(), 3), ("zoo".to_string(), 2)]);
}
