//! C17: random histories on a sorted index, full read-back.
use std::collections::{BTreeMap, BTreeSet};

use rand::rngs::StdRng;
use rand::{Rng, SeedableRng};
use tantivy::indexer::NoMergePolicy;
use tantivy::postings::Postings;
use tantivy::schema::*;
use tantivy::{
    DateTime, DocSet, Index, IndexSettings, IndexSortByField, IndexWriter, Order, SegmentReader,
    TantivyDocument, Term, TERMINATED,
};

#[derive(Clone, Copy, Debug, PartialEq, Eq)]
enum Kind {
    U64,
    I64,
    F64,
    Date,
    Str,
    Bytes,
}

#[derive(Clone, Debug, PartialEq)]
enum SortVal {
    U64(u64),
    I64(i64),
    F64(f64),
    Date(i64),
    Str(String),
    Bytes(Vec<u8>),
}

impl SortVal {
    fn cmp(&self, other: &SortVal) -> std::cmp::Ordering {
        match (self, other) {
            (SortVal::U64(a), SortVal::U64(b)) => a.cmp(b),
            (SortVal::I64(a), SortVal::I64(b)) => a.cmp(b),
            (SortVal::F64(a), SortVal::F64(b)) => a.partial_cmp(b).unwrap(),
            (SortVal::Date(a), SortVal::Date(b)) => a.cmp(b),
            (SortVal::Str(a), SortVal::Str(b)) => a.as_bytes().cmp(b.as_bytes()),
            (SortVal::Bytes(a), SortVal::Bytes(b)) => a.cmp(b),
            _ => panic!(),
        }
    }
}

#[derive(Clone, Debug)]
struct MDoc {
    uid: u64,
    key: u64,
    sort: Option<SortVal>,
    body: Vec<String>,
    multi: Vec<u64>,
    tag: Option<String>,
    alive: bool,
}

fn gen_sort(rng: &mut StdRng, kind: Kind, range: (i64, i64)) -> SortVal {
    let extreme = rng.random_range(0..20) == 0;
    let v = rng.random_range(range.0..=range.1);
    match kind {
        Kind::U64 => {
            if extreme {
                SortVal::U64(*[0u64, u64::MAX, 1 << 63, (1 << 63) - 1].get(rng.random_range(0..4)).unwrap())
            } else {
                SortVal::U64(v as u64)
            }
        }
        Kind::I64 => {
            if extreme {
                SortVal::I64(*[i64::MIN, i64::MAX, 0, -1].get(rng.random_range(0..4)).unwrap())
            } else {
                SortVal::I64(v - 50)
            }
        }
        Kind::F64 => {
            if extreme {
                SortVal::F64(
                    *[f64::NEG_INFINITY, f64::INFINITY, 0.0, f64::MIN_POSITIVE, -1e300]
                        .get(rng.random_range(0..5))
                        .unwrap(),
                )
            } else {
                SortVal::F64((v - 50) as f64 * 0.5)
            }
        }
        Kind::Date => {
            if extreme {
                SortVal::Date(*[i64::MIN, i64::MAX, 0, -1].get(rng.random_range(0..4)).unwrap())
            } else {
                SortVal::Date((v - 50) * 1_000_000_007)
            }
        }
        Kind::Str => {
            if extreme {
                SortVal::Str(["", "\u{0}", "zzzzzzzz", "é", "A"][rng.random_range(0..5)].to_string())
            } else {
                SortVal::Str(format!("s{:03}", v))
            }
        }
        Kind::Bytes => {
            if extreme {
                SortVal::Bytes(
                    [&b""[..], &[0u8][..], &[255u8, 255][..], &[0u8, 0][..]][rng.random_range(0..4)].to_vec(),
                )
            } else {
                SortVal::Bytes(vec![(v / 7) as u8, (v % 7) as u8 * 40])
            }
        }
    }
}

struct Fields {
    sort: Field,
    uid: Field,
    key: Field,
    body: Field,
    multi: Field,
    tag: Field,
}

fn build_schema(kind: Kind) -> (Schema, Fields) {
    let mut sb = Schema::builder();
    let sort = match kind {
        Kind::U64 => sb.add_u64_field("sort", FAST | STORED),
        Kind::I64 => sb.add_i64_field("sort", FAST | STORED),
        Kind::F64 => sb.add_f64_field("sort", FAST | STORED),
        Kind::Date => sb.add_date_field(
            "sort",
            DateOptions::default()
                .set_fast()
                .set_stored()
                .set_precision(DateTimePrecision::Nanoseconds),
        ),
        Kind::Str => sb.add_text_field("sort", STRING | FAST | STORED),
        Kind::Bytes => sb.add_bytes_field("sort", BytesOptions::default().set_fast().set_stored()),
    };
    let uid = sb.add_u64_field("uid", FAST | STORED | INDEXED);
    let key = sb.add_u64_field("key", FAST | INDEXED);
    let body = sb.add_text_field("body", TEXT | STORED);
    let multi = sb.add_u64_field("multi", FAST);
    let tag = sb.add_text_field("tag", STRING | FAST);
    (
        sb.build(),
        Fields {
            sort,
            uid,
            key,
            body,
            multi,
            tag,
        },
    )
}

fn to_doc(f: &Fields, d: &MDoc) -> TantivyDocument {
    let mut doc = TantivyDocument::new();
    doc.add_u64(f.uid, d.uid);
    doc.add_u64(f.key, d.key);
    if let Some(s) = &d.sort {
        match s {
            SortVal::U64(v) => doc.add_u64(f.sort, *v),
            SortVal::I64(v) => doc.add_i64(f.sort, *v),
            SortVal::F64(v) => doc.add_f64(f.sort, *v),
            SortVal::Date(v) => doc.add_date(f.sort, DateTime::from_timestamp_nanos(*v)),
            SortVal::Str(v) => doc.add_text(f.sort, v),
            SortVal::Bytes(v) => doc.add_bytes(f.sort, v),
        }
    }
    if !d.body.is_empty() {
        doc.add_text(f.body, d.body.join(" "));
    }
    for m in &d.multi {
        doc.add_u64(f.multi, *m);
    }
    if let Some(t) = &d.tag {
        doc.add_text(f.tag, t);
    }
    doc
}

fn read_sort(reader: &SegmentReader, kind: Kind, doc: u32) -> Option<SortVal> {
    let ff = reader.fast_fields();
    match kind {
        Kind::U64 => ff.u64("sort").unwrap().first(doc).map(SortVal::U64),
        Kind::I64 => ff.i64("sort").unwrap().first(doc).map(SortVal::I64),
        Kind::F64 => ff.f64("sort").unwrap().first(doc).map(SortVal::F64),
        Kind::Date => ff
            .date("sort")
            .unwrap()
            .first(doc)
            .map(|d| SortVal::Date(d.into_timestamp_nanos())),
        Kind::Str => {
            let col = ff.str("sort").unwrap().unwrap();
            let ord = col.ords().first(doc)?;
            let mut s = String::new();
            assert!(col.ord_to_str(ord, &mut s).unwrap());
            Some(SortVal::Str(s))
        }
        Kind::Bytes => {
            let col = ff.bytes("sort").unwrap().unwrap();
            let ord = col.ords().first(doc)?;
            let mut s = Vec::new();
            assert!(col.ord_to_bytes(ord, &mut s).unwrap());
            Some(SortVal::Bytes(s))
        }
    }
}

fn verify(index: &Index, f: &Fields, kind: Kind, order: Order, model: &BTreeMap<u64, MDoc>, ctx: &str) {
    let reader = index.reader().unwrap();
    reader.reload().unwrap();
    let searcher = reader.searcher();
    let mut seen_alive: BTreeSet<u64> = BTreeSet::new();
    for (seg_ord, seg) in searcher.segment_readers().iter().enumerate() {
        let ctx = format!("{ctx} seg#{seg_ord} maxdoc={} numdocs={}", seg.max_doc(), seg.num_docs());
        let uid_col = seg.fast_fields().u64("uid").unwrap();
        let multi_col = seg.fast_fields().u64("multi").unwrap();
        let tag_col = seg.fast_fields().str("tag").unwrap().unwrap();
        let store = seg.get_store_reader(10).unwrap();
        let fieldnorm = seg.get_fieldnorms_reader(f.body).unwrap();
        let mut prev: Option<Option<SortVal>> = None;
        let mut uids = Vec::new();
        for doc in 0..seg.max_doc() {
            let uid = uid_col.first(doc).unwrap_or_else(|| panic!("{ctx}: no uid for doc {doc}"));
            uids.push(uid);
            let m = model.get(&uid).unwrap_or_else(|| panic!("{ctx}: unknown uid {uid}"));
            let alive = !seg.is_deleted(doc);
            if alive {
                assert!(seen_alive.insert(uid), "{ctx}: uid {uid} alive twice");
                assert!(m.alive, "{ctx}: uid {uid} (key {}) should have been deleted", m.key);
            }
            // sort value
            let sv = read_sort(seg, kind, doc);
            assert_eq!(sv, m.sort, "{ctx}: sort fast value of doc {doc} uid {uid}");
            if let Some(prev) = &prev {
                let ord = match (prev, &sv) {
                    (None, None) => std::cmp::Ordering::Equal,
                    (None, Some(_)) => std::cmp::Ordering::Less,
                    (Some(_), None) => std::cmp::Ordering::Greater,
                    (Some(a), Some(b)) => a.cmp(b),
                };
                let ok = match order {
                    Order::Asc => ord != std::cmp::Ordering::Greater,
                    Order::Desc => ord != std::cmp::Ordering::Less,
                };
                assert!(ok, "{ctx}: segment not sorted ({order:?}) at doc {doc}: {prev:?} then {sv:?}");
            }
            prev = Some(sv);
            // multi
            let multi: Vec<u64> = multi_col.values_for_doc(doc).collect();
            assert_eq!(multi, m.multi, "{ctx}: multi of doc {doc} uid {uid}");
            // tag
            let tag = tag_col.ords().first(doc).map(|o| {
                let mut s = String::new();
                tag_col.ord_to_str(o, &mut s).unwrap();
                s
            });
            assert_eq!(tag, m.tag, "{ctx}: tag of doc {doc} uid {uid}");
            // fieldnorm
            assert_eq!(fieldnorm.fieldnorm(doc), m.body.len() as u32, "{ctx}: fieldnorm doc {doc} uid {uid}");
            // store
            if alive {
                let sdoc: TantivyDocument = store.get(doc).unwrap();
                let suid = sdoc.get_first(f.uid).and_then(|v| v.as_u64());
                assert_eq!(suid, Some(uid), "{ctx}: stored uid of doc {doc}");
                let sbody = sdoc.get_first(f.body).and_then(|v| v.as_str().map(|s| s.to_string()));
                let exp_body = if m.body.is_empty() { None } else { Some(m.body.join(" ")) };
                assert_eq!(sbody, exp_body, "{ctx}: stored body of doc {doc}");
                let ssort = sdoc.get_first(f.sort).map(|v| match kind {
                    Kind::U64 => SortVal::U64(v.as_u64().unwrap()),
                    Kind::I64 => SortVal::I64(v.as_i64().unwrap()),
                    Kind::F64 => SortVal::F64(v.as_f64().unwrap()),
                    Kind::Date => SortVal::Date(v.as_datetime().unwrap().into_timestamp_nanos()),
                    Kind::Str => SortVal::Str(v.as_str().unwrap().to_string()),
                    Kind::Bytes => SortVal::Bytes(v.as_bytes().unwrap().to_vec()),
                });
                assert_eq!(ssort, m.sort, "{ctx}: stored sort of doc {doc}");
            }
        }
        // store iteration
        let stored_uids: Vec<u64> = store
            .iter::<TantivyDocument>(seg.alive_bitset())
            .map(|d| d.unwrap().get_first(f.uid).unwrap().as_u64().unwrap())
            .collect();
        let exp_uids: Vec<u64> = (0..seg.max_doc())
            .filter(|d| !seg.is_deleted(*d))
            .map(|d| uids[d as usize])
            .collect();
        assert_eq!(stored_uids, exp_uids, "{ctx}: store iteration");

        // postings of body: expected
        let mut expected: BTreeMap<String, Vec<(u32, u32, Vec<u32>)>> = BTreeMap::new();
        for (doc, uid) in uids.iter().enumerate() {
            let m = &model[uid];
            let mut per_term: BTreeMap<&str, Vec<u32>> = BTreeMap::new();
            for (pos, tok) in m.body.iter().enumerate() {
                per_term.entry(tok.as_str()).or_default().push(pos as u32);
            }
            for (t, positions) in per_term {
                expected
                    .entry(t.to_string())
                    .or_default()
                    .push((doc as u32, positions.len() as u32, positions));
            }
        }
        let is_merged_or_has_deleted_terms = true;
        let _ = is_merged_or_has_deleted_terms;
        let inv = seg.inverted_index(f.body).unwrap();
        let mut stream = inv.terms().stream().unwrap();
        let mut got_terms = Vec::new();
        while stream.advance() {
            let term = String::from_utf8(stream.key().to_vec()).unwrap();
            let ti = stream.value().clone();
            let mut p = inv
                .read_postings_from_terminfo(&ti, IndexRecordOption::WithFreqsAndPositions)
                .unwrap();
            let mut got = Vec::new();
            let mut d = p.doc();
            while d != TERMINATED {
                let mut pos = Vec::new();
                p.positions(&mut pos);
                got.push((d, p.term_freq(), pos));
                d = p.advance();
            }
            let exp = expected.get(&term).cloned().unwrap_or_default();
            // a term may keep deleted docs only in never-merged segments; expected contains all docs
            // physically in the segment (deleted docs included), so must match exactly.
            assert_eq!(got, exp, "{ctx}: postings of term {term:?}");
            assert_eq!(ti.doc_freq as usize, exp.len(), "{ctx}: doc_freq of {term:?}");
            got_terms.push(term);
        }
        let exp_terms: Vec<String> = expected.keys().cloned().collect();
        assert_eq!(got_terms, exp_terms, "{ctx}: term set");

        // uid term -> exactly that doc
        let inv_uid = seg.inverted_index(f.uid).unwrap();
        for (doc, uid) in uids.iter().enumerate() {
            let term = Term::from_field_u64(f.uid, *uid);
            let mut p = inv_uid
                .read_postings(&term, IndexRecordOption::Basic)
                .unwrap()
                .unwrap_or_else(|| panic!("{ctx}: uid term {uid} missing"));
            assert_eq!(p.doc(), doc as u32, "{ctx}: uid posting");
            assert_eq!(p.advance(), TERMINATED);
        }
    }
    let exp_alive: BTreeSet<u64> = model.values().filter(|m| m.alive).map(|m| m.uid).collect();
    assert_eq!(seen_alive, exp_alive, "{ctx}: alive set");
}

fn run(kind: Kind, order: Order, seed: u64) {
    run_scaled(kind, order, seed, 1, 1)
}

fn run_scaled(kind: Kind, order: Order, seed: u64, scale: usize, threads: usize) {
    let mut rng = StdRng::seed_from_u64(seed);
    let (schema, f) = build_schema(kind);
    let settings = IndexSettings {
        sort_by_field: Some(IndexSortByField {
            field: "sort".to_string(),
            order,
        }),
        docstore_blocksize: [50usize, 300, 16384][rng.random_range(0..3)],
        ..Default::default()
    };
    let index = Index::builder().schema(schema).settings(settings).create_in_ram().unwrap();
    let mut writer: IndexWriter = index.writer_with_num_threads(threads, 20_000_000 * threads).unwrap();
    writer.set_merge_policy(Box::new(NoMergePolicy));
    let mut model: BTreeMap<u64, MDoc> = BTreeMap::new();
    let mut next_uid = 0u64;
    let p_missing = [0.0, 0.1, 0.5][rng.random_range(0..3)];
    let num_rounds = rng.random_range(2..7);
    for round in 0..num_rounds {
        let ctx = format!("kind={kind:?} order={order:?} seed={seed} round={round}");
        let n = rng.random_range(1..60) * scale;
        // value range for this round: disjoint or overlapping
        let base = if rng.random_bool(0.5) { round as i64 * 15 } else { rng.random_range(0..40) };
        let range = (base, base + rng.random_range(0..14));
        let missing_this_round = rng.random_bool(0.6);
        for _ in 0..n {
            let op = rng.random_range(0..10);
            if op < 8 {
                let nb = rng.random_range(0..8);
                let d = MDoc {
                    uid: next_uid,
                    key: rng.random_range(0..25),
                    sort: if missing_this_round && rng.random_bool(p_missing) {
                        None
                    } else {
                        Some(gen_sort(&mut rng, kind, range))
                    },
                    body: (0..nb).map(|_| format!("w{}", rng.random_range(0..12))).collect(),
                    multi: (0..rng.random_range(0..4)).map(|_| rng.random_range(0..1000)).collect(),
                    tag: if rng.random_bool(0.7) { Some(format!("t{}", rng.random_range(0..6))) } else { None },
                    alive: true,
                };
                next_uid += 1;
                writer.add_document(to_doc(&f, &d)).unwrap();
                model.insert(d.uid, d);
            } else {
                let key = rng.random_range(0..25);
                writer.delete_term(Term::from_field_u64(f.key, key));
                for m in model.values_mut() {
                    if m.key == key {
                        m.alive = false;
                    }
                }
            }
        }
        writer.commit().unwrap();
        verify(&index, &f, kind, order, &model, &format!("{ctx} after-commit"));
        if rng.random_bool(0.6) {
            let seg_ids = index.searchable_segment_ids().unwrap();
            if seg_ids.len() >= 2 {
                let k = rng.random_range(2..=seg_ids.len());
                let mut ids = seg_ids.clone();
                // random subset
                for i in 0..ids.len() {
                    let j = rng.random_range(i..ids.len());
                    ids.swap(i, j);
                }
                ids.truncate(k);
                writer.merge(&ids).wait().unwrap();
                verify(&index, &f, kind, order, &model, &format!("{ctx} after-merge"));
            }
        }
    }
    // final full merge
    let seg_ids = index.searchable_segment_ids().unwrap();
    if seg_ids.len() >= 2 {
        writer.merge(&seg_ids).wait().unwrap();
        verify(&index, &f, kind, order, &model, &format!("kind={kind:?} order={order:?} seed={seed} final-merge"));
    }
}

fn run_kind(kind: Kind) {
    for seed in 0..60 {
        for order in [Order::Asc, Order::Desc] {
            run(kind, order, seed);
        }
    }
}

#[test]
fn sorted_big_segments() {
    for (i, kind) in [Kind::U64, Kind::I64, Kind::F64, Kind::Date, Kind::Str, Kind::Bytes].into_iter().enumerate() {
        for order in [Order::Asc, Order::Desc] {
            run_scaled(kind, order, 7000 + i as u64, 60, 1);
        }
    }
}

#[test]
fn sorted_multi_threaded_writer() {
    for (i, kind) in [Kind::U64, Kind::Str, Kind::Date].into_iter().enumerate() {
        for order in [Order::Asc, Order::Desc] {
            for seed in 0..6 {
                run_scaled(kind, order, 8000 + 10 * i as u64 + seed, 8, 3);
            }
        }
    }
}

#[test]
fn sorted_u64() {
    run_kind(Kind::U64);
}
#[test]
fn sorted_i64() {
    run_kind(Kind::I64);
}
#[test]
fn sorted_f64() {
    run_kind(Kind::F64);
}
#[test]
fn sorted_date() {
    run_kind(Kind::Date);
}
#[test]
fn sorted_str() {
    run_kind(Kind::Str);
}
#[test]
fn sorted_bytes() {
    run_kind(Kind::Bytes);
}
