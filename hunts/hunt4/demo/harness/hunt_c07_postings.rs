//! C07: read back every (term, doc, tf, positions) of generated segments.
use std::collections::BTreeMap;

use rand::rngs::StdRng;
use rand::{Rng, SeedableRng};
use tantivy::indexer::NoMergePolicy;
use tantivy::postings::Postings;
use tantivy::schema::*;
use tantivy::{DocSet, Index, IndexWriter, SegmentReader, TantivyDocument, Term, TERMINATED};

type Model = BTreeMap<Vec<u8>, Vec<(u32, u32, Vec<u32>)>>;

/// A doc is a list of values (multi-valued), each a list of tokens.
fn model_of(docs: &[Vec<Vec<String>>]) -> (Model, Vec<u32>, u64) {
    let mut model: Model = BTreeMap::new();
    let mut norms = Vec::new();
    let mut total = 0u64;
    for (doc, values) in docs.iter().enumerate() {
        let mut per_term: BTreeMap<&str, Vec<u32>> = BTreeMap::new();
        let mut offset = 0u32;
        let mut num_tokens = 0u32;
        for value in values {
            let mut end = offset;
            for (i, tok) in value.iter().enumerate() {
                per_term.entry(tok.as_str()).or_default().push(offset + i as u32);
                end = end.max(offset + i as u32 + 1);
                num_tokens += 1;
            }
            offset = end + 1;
        }
        norms.push(num_tokens);
        total += num_tokens as u64;
        for (t, pos) in per_term {
            model
                .entry(t.as_bytes().to_vec())
                .or_default()
                .push((doc as u32, pos.len() as u32, pos));
        }
    }
    (model, norms, total)
}

fn check_field(
    seg: &SegmentReader,
    field: Field,
    opt: IndexRecordOption,
    model: &Model,
    total_tokens: Option<u64>,
    rng: &mut StdRng,
    ctx: &str,
) {
    let inv = seg.inverted_index(field).unwrap();
    if let Some(total_tokens) = total_tokens {
        assert_eq!(inv.total_num_tokens(), total_tokens, "{ctx}: total_num_tokens");
    }
    let dict = inv.terms();
    assert_eq!(dict.num_terms(), model.len(), "{ctx}: num_terms");
    let mut stream = dict.stream().unwrap();
    let mut it = model.iter();
    let mut ord = 0u64;
    while stream.advance() {
        let (exp_key, exp_postings) = it.next().unwrap_or_else(|| panic!("{ctx}: extra term {:?}", stream.key()));
        assert_eq!(stream.key(), &exp_key[..], "{ctx}: term #{ord}");
        assert_eq!(stream.term_ord(), ord);
        let ti = stream.value().clone();
        let tname = String::from_utf8_lossy(&exp_key[..exp_key.len().min(30)]).to_string();
        assert_eq!(ti.doc_freq as usize, exp_postings.len(), "{ctx}: doc_freq of {tname:?}");
        assert_eq!(dict.term_ord(exp_key).unwrap(), Some(ord));
        assert_eq!(dict.get(exp_key).unwrap().map(|t| t.doc_freq), Some(ti.doc_freq));

        // 1. sequential, everything
        let mut p = inv.read_postings_from_terminfo(&ti, opt).unwrap();
        assert_eq!(p.doc_freq() as usize, exp_postings.len());
        let mut pos = Vec::new();
        for (i, (d, tf, positions)) in exp_postings.iter().enumerate() {
            assert_eq!(p.doc(), *d, "{ctx}: term {tname:?} posting #{i} doc");
            if opt.has_freq() {
                assert_eq!(p.term_freq(), *tf, "{ctx}: term {tname:?} doc {d} tf");
            }
            if opt.has_positions() {
                p.positions(&mut pos);
                assert_eq!(&pos, positions, "{ctx}: term {tname:?} doc {d} positions");
            }
            let nd = p.advance();
            if i + 1 == exp_postings.len() {
                assert_eq!(nd, TERMINATED, "{ctx}: term {tname:?} should terminate");
            }
        }
        assert_eq!(p.advance(), TERMINATED);

        // 2. sequential, positions only from time to time (exercises position skipping)
        if opt.has_positions() && exp_postings.len() > 1 {
            let mut p = inv.read_postings_from_terminfo(&ti, opt).unwrap();
            let step = rng.random_range(1..5usize);
            for (i, (d, tf, positions)) in exp_postings.iter().enumerate() {
                assert_eq!(p.doc(), *d);
                if i % step == 0 || rng.random_range(0..50) == 0 {
                    p.positions(&mut pos);
                    assert_eq!(&pos, positions, "{ctx}: term {tname:?} doc {d} positions (sparse read)");
                    assert_eq!(p.term_freq(), *tf);
                }
                p.advance();
            }
        }

        // 3. seeks
        for _ in 0..3 {
            let mut p = inv.read_postings_from_terminfo(&ti, opt).unwrap();
            let mut idx = 0usize;
            let last_doc = exp_postings.last().unwrap().0;
            loop {
                // choose target >= current doc
                let cur = p.doc();
                if cur == TERMINATED {
                    break;
                }
                let mode = rng.random_range(0..6);
                let target = match mode {
                    0 => cur,
                    1 => cur + 1,
                    2 => {
                        // jump some postings ahead, exactly on a doc
                        let j = (idx + rng.random_range(1..400)).min(exp_postings.len() - 1);
                        exp_postings[j].0
                    }
                    3 => {
                        let j = (idx + rng.random_range(1..400)).min(exp_postings.len() - 1);
                        exp_postings[j].0 + 1
                    }
                    4 => cur + rng.random_range(0..2000),
                    _ => {
                        let j = (idx + 127 + rng.random_range(0..3)).min(exp_postings.len() - 1);
                        exp_postings[j].0
                    }
                };
                let target = target.max(cur);
                let got = p.seek(target);
                // expected
                while idx < exp_postings.len() && exp_postings[idx].0 < target {
                    idx += 1;
                }
                if idx == exp_postings.len() {
                    assert_eq!(got, TERMINATED, "{ctx}: term {tname:?} seek({target}) last_doc={last_doc}");
                    assert_eq!(p.doc(), TERMINATED);
                    break;
                }
                let (d, tf, positions) = &exp_postings[idx];
                assert_eq!(got, *d, "{ctx}: term {tname:?} seek({target})");
                assert_eq!(p.doc(), *d);
                if opt.has_freq() {
                    assert_eq!(p.term_freq(), *tf, "{ctx}: term {tname:?} seek({target}) tf");
                }
                if opt.has_positions() && rng.random_bool(0.7) {
                    p.positions(&mut pos);
                    assert_eq!(&pos, positions, "{ctx}: term {tname:?} seek({target}) positions");
                }
                if rng.random_bool(0.3) {
                    p.advance();
                    idx += 1;
                }
            }
        }

        // 4. block postings
        {
            let mut bp = inv.read_block_postings_from_terminfo(&ti, opt).unwrap();
            let mut all_docs = Vec::new();
            let mut all_freqs = Vec::new();
            loop {
                let docs = bp.docs();
                if docs.is_empty() {
                    break;
                }
                all_docs.extend_from_slice(docs);
                if opt.has_freq() {
                    assert_eq!(bp.freqs().len(), docs.len());
                    all_freqs.extend_from_slice(bp.freqs());
                }
                bp.advance();
            }
            let exp_docs: Vec<u32> = exp_postings.iter().map(|x| x.0).collect();
            assert_eq!(all_docs, exp_docs, "{ctx}: term {tname:?} block docs");
            if opt.has_freq() {
                let exp_f: Vec<u32> = exp_postings.iter().map(|x| x.1).collect();
                assert_eq!(all_freqs, exp_f, "{ctx}: term {tname:?} block freqs");
            }
            // block seek
            let mut bp = inv.read_block_postings_from_terminfo(&ti, opt).unwrap();
            let mut rk = inv.read_block_postings_from_terminfo(&ti, opt).unwrap();
            let mut target = 0u32;
            for _ in 0..20 {
                let j = rng.random_range(0..exp_postings.len());
                let t = exp_postings[j].0 + rng.random_range(0..2);
                if t < target {
                    continue;
                }
                target = t;
                let in_block = bp.seek(target);
                let exp_idx = exp_postings.partition_point(|x| x.0 < target);
                assert_eq!(rk.rank(target) as usize, exp_idx, "{ctx}: term {tname:?} rank({target})");
                if exp_idx == exp_postings.len() {
                    assert_eq!(bp.doc(in_block), TERMINATED, "{ctx}: term {tname:?} block seek({target}) past the end");
                } else {
                    assert_eq!(
                        bp.docs().get(in_block).copied(),
                        Some(exp_postings[exp_idx].0),
                        "{ctx}: term {tname:?} block seek({target})"
                    );
                    if opt.has_freq() {
                        assert_eq!(bp.freq(in_block), exp_postings[exp_idx].1);
                    }
                }
            }
        }
        ord += 1;
    }
    assert!(it.next().is_none(), "{ctx}: missing terms");

    // 5. one block cursor re-used for every term through `reset_block_postings_from_terminfo`
    let mut stream = dict.stream().unwrap();
    let mut reused: Option<tantivy::postings::BlockSegmentPostings> = None;
    let mut it = model.iter();
    while stream.advance() {
        let (exp_key, exp_postings) = it.next().unwrap();
        let ti = stream.value().clone();
        match reused.as_mut() {
            None => reused = Some(inv.read_block_postings_from_terminfo(&ti, opt).unwrap()),
            Some(bp) => inv.reset_block_postings_from_terminfo(&ti, bp).unwrap(),
        }
        let bp = reused.as_mut().unwrap();
        assert_eq!(bp.doc_freq() as usize, exp_postings.len());
        let mut all_docs = Vec::new();
        let mut all_freqs = Vec::new();
        loop {
            let docs = bp.docs();
            if docs.is_empty() {
                break;
            }
            all_docs.extend_from_slice(docs);
            if opt.has_freq() {
                all_freqs.extend_from_slice(bp.freqs());
            }
            bp.advance();
        }
        let exp_docs: Vec<u32> = exp_postings.iter().map(|x| x.0).collect();
        let tname = String::from_utf8_lossy(&exp_key[..exp_key.len().min(30)]).to_string();
        assert_eq!(all_docs, exp_docs, "{ctx}: term {tname:?} docs through a reset block cursor");
        if opt.has_freq() {
            let exp_f: Vec<u32> = exp_postings.iter().map(|x| x.1).collect();
            assert_eq!(all_freqs, exp_f, "{ctx}: term {tname:?} freqs through a reset block cursor");
        }
    }
}

struct TextFields {
    basic: Field,
    freq: Field,
    pos: Field,
    pos_nonorm: Field,
}

fn text_schema() -> (Schema, TextFields) {
    let mut sb = Schema::builder();
    let mk = |opt: IndexRecordOption, norms: bool| {
        TextOptions::default().set_indexing_options(
            TextFieldIndexing::default()
                .set_tokenizer("whitespace")
                .set_index_option(opt)
                .set_fieldnorms(norms),
        )
    };
    let basic = sb.add_text_field("basic", mk(IndexRecordOption::Basic, true));
    let freq = sb.add_text_field("freq", mk(IndexRecordOption::WithFreqs, true));
    let pos = sb.add_text_field("pos", mk(IndexRecordOption::WithFreqsAndPositions, true));
    let pos_nonorm = sb.add_text_field("posnn", mk(IndexRecordOption::WithFreqsAndPositions, false));
    sb.add_u64_field("uid", FAST);
    (
        sb.build(),
        TextFields {
            basic,
            freq,
            pos,
            pos_nonorm,
        },
    )
}

fn index_text_docs(docs: &[Vec<Vec<String>>], commits_at: &[usize], merge: bool) -> (Index, TextFields) {
    let (schema, f) = text_schema();
    let index = Index::create_in_ram(schema);
    let mut writer: IndexWriter = index.writer_with_num_threads(1, 400_000_000).unwrap();
    writer.set_merge_policy(Box::new(NoMergePolicy));
    for (i, values) in docs.iter().enumerate() {
        if commits_at.contains(&i) {
            writer.commit().unwrap();
        }
        let mut d = TantivyDocument::new();
        d.add_u64(index.schema().get_field("uid").unwrap(), i as u64);
        for v in values {
            let s = v.join(" ");
            for fld in [f.basic, f.freq, f.pos, f.pos_nonorm] {
                d.add_text(fld, &s);
            }
        }
        writer.add_document(d).unwrap();
    }
    writer.commit().unwrap();
    if merge {
        let ids = index.searchable_segment_ids().unwrap();
        if ids.len() > 1 {
            writer.merge(&ids).wait().unwrap();
        }
    }
    writer.wait_merging_threads().unwrap();
    (index, f)
}

fn check_text_index(index: &Index, f: &TextFields, docs: &[Vec<Vec<String>>], rng: &mut StdRng, ctx: &str) {
    let searcher = index.reader().unwrap().searcher();
    assert_eq!(searcher.segment_readers().len(), 1, "{ctx}");
    let seg = searcher.segment_reader(0);
    assert_eq!(seg.max_doc() as usize, docs.len());
    // merges may stack the segments in any order: recover the doc order from the uid column.
    let uid_col = seg.fast_fields().u64("uid").unwrap();
    let docs: Vec<Vec<Vec<String>>> = (0..seg.max_doc())
        .map(|d| docs[uid_col.first(d).unwrap() as usize].clone())
        .collect();
    let docs = &docs[..];
    let (model, norms, total) = model_of(docs);
    for (fld, opt, has_norm) in [
        (f.basic, IndexRecordOption::Basic, true),
        (f.freq, IndexRecordOption::WithFreqs, true),
        (f.pos, IndexRecordOption::WithFreqsAndPositions, true),
        (f.pos_nonorm, IndexRecordOption::WithFreqsAndPositions, false),
    ] {
        let ctx = format!("{ctx} field={:?}", seg.schema().get_field_name(fld));
        check_field(seg, fld, opt, &model, Some(total), rng, &ctx);
        if has_norm {
            let fr = seg.get_fieldnorms_reader(fld).unwrap();
            for (d, n) in norms.iter().enumerate() {
                let exp = tantivy::fieldnorm::FieldNormReader::id_to_fieldnorm(
                    tantivy::fieldnorm::FieldNormReader::fieldnorm_to_id(*n),
                );
                assert_eq!(fr.fieldnorm(d as u32), exp, "{ctx}: fieldnorm doc {d} ({n} tokens)");
            }
        }
    }
}

fn gen_big_corpus(rng: &mut StdRng, n: usize) -> Vec<Vec<Vec<String>>> {
    let mut docs = Vec::with_capacity(n);
    for i in 0..n {
        let mut toks: Vec<String> = Vec::new();
        toks.push("all".to_string());
        if rng.random_bool(0.5) {
            toks.push("half".to_string());
        }
        if rng.random_bool(0.1) {
            toks.push("p10".to_string());
        }
        if rng.random_bool(0.01) {
            toks.push("p100".to_string());
        }
        if rng.random_bool(0.001) {
            toks.push("p1000".to_string());
        }
        if rng.random_bool(0.0001) {
            toks.push("p10000".to_string());
        }
        for k in [1usize, 127, 128, 129, 255, 256, 257, 384, 1024, 1025] {
            if i < k {
                toks.push(format!("first{k}"));
            }
            if i % 97 == 0 && i / 97 < k {
                toks.push(format!("every97x{k}"));
            }
        }
        if i >= n - 128 {
            toks.push("last128".to_string());
        }
        if i >= n - 129 {
            toks.push("last129".to_string());
        }
        if i == 0 || i == n - 1 {
            toks.push("ends".to_string());
        }
        // power-of-two doc ids: gaps needing 1..N bits
        if (i + 1).is_power_of_two() {
            toks.push("pow2".to_string());
        }
        // bursts: dense then sparse
        if (i / 1000) % 2 == 0 && rng.random_bool(0.9) || rng.random_bool(0.001) {
            toks.push("bursty".to_string());
        }
        // repeated token with many occurrences
        let r = rng.random_range(0..3000);
        if r < 3 {
            let cnt = [127, 128, 129, 300, 1000][rng.random_range(0..5)];
            for _ in 0..cnt {
                toks.push("many".to_string());
                if rng.random_bool(0.3) {
                    toks.push("filler".to_string());
                }
            }
        } else if r < 600 {
            for _ in 0..rng.random_range(1..4) {
                toks.push("many".to_string());
            }
        }
        // shuffle
        for a in 0..toks.len() {
            let b = rng.random_range(a..toks.len());
            toks.swap(a, b);
        }
        // sometimes multi-valued
        if rng.random_bool(0.2) && toks.len() > 1 {
            let cut = rng.random_range(0..=toks.len());
            let b = toks.split_off(cut);
            docs.push(vec![toks, b]);
        } else {
            docs.push(vec![toks]);
        }
    }
    docs
}

#[test]
fn big_corpus_single_segment() {
    let mut rng = StdRng::seed_from_u64(1);
    let docs = gen_big_corpus(&mut rng, 40_000);
    let (index, f) = index_text_docs(&docs, &[], false);
    check_text_index(&index, &f, &docs, &mut rng, "big single");
}

#[test]
fn big_corpus_merged() {
    let mut rng = StdRng::seed_from_u64(2);
    let docs = gen_big_corpus(&mut rng, 30_000);
    let (index, f) = index_text_docs(&docs, &[1, 130, 9000, 9128, 20_000], true);
    check_text_index(&index, &f, &docs, &mut rng, "big merged");
}

#[test]
fn small_random_corpora() {
    for seed in 0..150u64 {
        let mut rng = StdRng::seed_from_u64(seed + 1000);
        let n = [1usize, 2, 127, 128, 129, 130, 255, 256, 257, 300, 513][rng.random_range(0..11)];
        let vocab = rng.random_range(1..40);
        let mut docs = Vec::new();
        for _ in 0..n {
            let nvals = rng.random_range(0..4);
            let mut values = Vec::new();
            for _ in 0..nvals {
                let nt = if rng.random_range(0..20) == 0 {
                    rng.random_range(100..400)
                } else {
                    rng.random_range(0..6)
                };
                values.push((0..nt).map(|_| format!("w{}", rng.random_range(0..vocab))).collect::<Vec<_>>());
            }
            docs.push(values);
        }
        let commits: Vec<usize> = (0..rng.random_range(0..3)).map(|_| rng.random_range(0..n)).filter(|c| *c > 0).collect();
        let merge = true;
        let (index, f) = index_text_docs(&docs, &commits, merge);
        check_text_index(&index, &f, &docs, &mut rng, &format!("small seed={seed} n={n} commits={commits:?}"));
    }
}

#[test]
fn long_terms_shared_prefixes() {
    // STRING field (raw tokenizer), terms up to MAX_TOKEN_LEN with long shared prefixes; also empty term.
    let mut sb = Schema::builder();
    let f = sb.add_text_field("raw", STRING);
    let schema = sb.build();
    let index = Index::create_in_ram(schema);
    let mut writer: IndexWriter = index.writer_with_num_threads(1, 400_000_000).unwrap();
    let mut rng = StdRng::seed_from_u64(77);
    let max = tantivy::tokenizer::MAX_TOKEN_LEN;
    let mut terms: Vec<String> = vec![String::new(), "a".repeat(max), "a".repeat(max - 1), "a".repeat(max + 1)];
    for len in [1usize, 2, 15, 16, 17, 255, 256, 257, 4000, 4096, 10_000, 65_000] {
        for suffix in ["", "b", "c\u{7f}", "\u{0}"] {
            terms.push(format!("{}{}", "p".repeat(len), suffix));
        }
    }
    for _ in 0..300 {
        let len = rng.random_range(0..600);
        let mut s = "common-prefix/".repeat(len / 14 + 1);
        s.truncate(len);
        s.push_str(&format!("{}", rng.random_range(0..50)));
        terms.push(s);
    }
    let mut docs: Vec<Vec<Vec<String>>> = Vec::new();
    for _ in 0..400 {
        let nv = rng.random_range(0..4);
        let values: Vec<Vec<String>> = (0..nv)
            .map(|_| vec![terms[rng.random_range(0..terms.len())].clone()])
            .collect();
        let mut d = TantivyDocument::new();
        for v in &values {
            d.add_text(f, &v[0]);
        }
        writer.add_document(d).unwrap();
        docs.push(values);
    }
    writer.commit().unwrap();
    // model: drop tokens longer than max
    let docs_model: Vec<Vec<Vec<String>>> = docs
        .iter()
        .map(|vals| {
            vals.iter()
                .map(|v| v.iter().filter(|t| t.len() <= max).cloned().collect::<Vec<_>>())
                .collect()
        })
        .collect();
    // raw tokenizer: 1 token per value at position 0; dropped tokens still advance the position gap
    let mut model: Model = BTreeMap::new();
    for (doc, values) in docs_model.iter().enumerate() {
        let mut per_term: BTreeMap<&str, u32> = BTreeMap::new();
        for v in values {
            for t in v {
                *per_term.entry(t.as_str()).or_default() += 1;
            }
        }
        for (t, tf) in per_term {
            model.entry(t.as_bytes().to_vec()).or_default().push((doc as u32, tf, vec![]));
        }
    }
    let searcher = index.reader().unwrap().searcher();
    let seg = searcher.segment_reader(0);
    check_field(seg, f, IndexRecordOption::Basic, &model, None, &mut rng, "long terms");
    // lookups via Term
    for (k, v) in &model {
        let term = Term::from_field_text(f, std::str::from_utf8(k).unwrap());
        assert_eq!(seg.inverted_index(f).unwrap().doc_freq(&term).unwrap() as usize, v.len());
    }
}

// ---------------------------------------------------------------------------------------------
// typed fields + JSON, with deletes and merges
// ---------------------------------------------------------------------------------------------
use std::net::Ipv6Addr;
use tantivy::DateTime;

#[derive(Clone, Debug)]
struct TDoc {
    uid: u64,
    u: Vec<u64>,
    i: Vec<i64>,
    f: Vec<f64>,
    b: Vec<bool>,
    d: Vec<i64>, // seconds
    ip: Vec<u128>,
    bytes: Vec<Vec<u8>>,
    facet: Vec<String>,
    json: serde_json::Value,
}

fn pick<T: Clone>(rng: &mut StdRng, xs: &[T]) -> T {
    xs[rng.random_range(0..xs.len())].clone()
}

fn gen_tdoc(rng: &mut StdRng, uid: u64) -> TDoc {
    let n = |rng: &mut StdRng| if rng.random_bool(0.3) { 0 } else { rng.random_range(1..3) };
    let us = [0u64, 1, 2, 255, 256, u64::MAX, u64::MAX - 1, 1 << 63, 1 << 32];
    let is = [0i64, -1, 1, i64::MIN, i64::MAX, -256, 255, 1 << 40];
    let fs = [0.0f64, -0.0, 1.5, -1.5, f64::INFINITY, f64::NEG_INFINITY, f64::MIN_POSITIVE, 1e300, -1e300, 3.0];
    let ds = [0i64, -1, 1, 1_600_000_000, -1_600_000_000, 4_000_000_000];
    let ips = [0u128, 1, u128::MAX, 0xffff_0a00_0001u128, 0xffff_ffff_ffffu128, 1 << 127, 0xffff_0000_0000u128];
    let bytes = [vec![], vec![0u8], vec![0, 0], vec![255], vec![255, 255, 0], vec![1, 2, 3]];
    let facets = ["/a", "/a/b", "/a/b/c", "/b", "/", "/a b/c"];
    let nu = n(rng);
    let ni = n(rng);
    let nf = n(rng);
    let nb = n(rng);
    let nd = n(rng);
    let nip = n(rng);
    let nby = n(rng);
    let nfa = n(rng);
    // JSON
    let words = ["x", "y", "z", "hello"];
    let mut obj = serde_json::Map::new();
    if rng.random_bool(0.7) {
        let nt = rng.random_range(0..4);
        let s: Vec<&str> = (0..nt).map(|_| pick(rng, &words)).collect();
        obj.insert("s".to_string(), serde_json::Value::String(s.join(" ")));
    }
    if rng.random_bool(0.5) {
        let arr: Vec<serde_json::Value> = (0..rng.random_range(0..4))
            .map(|_| {
                let nt = rng.random_range(0..3);
                let s: Vec<&str> = (0..nt).map(|_| pick(rng, &words)).collect();
                serde_json::Value::String(s.join(" "))
            })
            .collect();
        obj.insert("arr".to_string(), serde_json::Value::Array(arr));
    }
    if rng.random_bool(0.5) {
        let v = match rng.random_range(0..5) {
            0 => serde_json::json!(pick(rng, &[0i64, -1, 5, i64::MIN, i64::MAX])),
            1 => serde_json::json!(pick(rng, &[u64::MAX, (i64::MAX as u64) + 1])),
            2 => serde_json::json!(pick(rng, &[1.5f64, -2.25, 3.0, 0.0, 1e100])),
            3 => serde_json::json!(rng.random_bool(0.5)),
            _ => serde_json::json!([1, 1, 2]),
        };
        let mut inner = serde_json::Map::new();
        inner.insert("n".to_string(), v);
        if rng.random_bool(0.3) {
            inner.insert("s".to_string(), serde_json::json!("x y x"));
        }
        obj.insert("o".to_string(), serde_json::Value::Object(inner));
    }
    TDoc {
        uid,
        u: (0..nu).map(|_| pick(rng, &us)).collect(),
        i: (0..ni).map(|_| pick(rng, &is)).collect(),
        f: (0..nf).map(|_| pick(rng, &fs)).collect(),
        b: (0..nb).map(|_| rng.random_bool(0.5)).collect(),
        d: (0..nd).map(|_| pick(rng, &ds)).collect(),
        ip: (0..nip).map(|_| pick(rng, &ips)).collect(),
        bytes: (0..nby).map(|_| pick(rng, &bytes)).collect(),
        facet: (0..nfa).map(|_| pick(rng, &facets).to_string()).collect(),
        json: serde_json::Value::Object(obj),
    }
}

struct TFields {
    uid: Field,
    u: Field,
    i: Field,
    f: Field,
    b: Field,
    d: Field,
    ip: Field,
    bytes: Field,
    facet: Field,
    json: Field,
}

fn tschema() -> (Schema, TFields) {
    let mut sb = Schema::builder();
    let uid = sb.add_u64_field("uid", FAST | INDEXED);
    let u = sb.add_u64_field("u", INDEXED);
    let i = sb.add_i64_field("i", INDEXED);
    let f = sb.add_f64_field("f", INDEXED);
    let b = sb.add_bool_field("b", INDEXED);
    let d = sb.add_date_field("d", INDEXED);
    let ip = sb.add_ip_addr_field("ip", INDEXED);
    let bytes = sb.add_bytes_field("bytes", INDEXED);
    let facet = sb.add_facet_field("facet", FacetOptions::default());
    let json = sb.add_json_field(
        "json",
        JsonObjectOptions::default().set_indexing_options(
            TextFieldIndexing::default()
                .set_tokenizer("whitespace")
                .set_index_option(IndexRecordOption::WithFreqsAndPositions),
        ),
    );
    (
        sb.build(),
        TFields {
            uid,
            u,
            i,
            f,
            b,
            d,
            ip,
            bytes,
            facet,
            json,
        },
    )
}

fn tdoc_to_doc(f: &TFields, t: &TDoc) -> TantivyDocument {
    let mut d = TantivyDocument::new();
    d.add_u64(f.uid, t.uid);
    for v in &t.u {
        d.add_u64(f.u, *v);
    }
    for v in &t.i {
        d.add_i64(f.i, *v);
    }
    for v in &t.f {
        d.add_f64(f.f, *v);
    }
    for v in &t.b {
        d.add_bool(f.b, *v);
    }
    for v in &t.d {
        d.add_date(f.d, DateTime::from_timestamp_secs(*v));
    }
    for v in &t.ip {
        d.add_ip_addr(f.ip, Ipv6Addr::from(*v));
    }
    for v in &t.bytes {
        d.add_bytes(f.bytes, v);
    }
    for v in &t.facet {
        d.add_facet(f.facet, Facet::from(v.as_str()));
    }
    let obj: BTreeMap<String, OwnedValue> = match OwnedValue::from(t.json.clone()) {
        OwnedValue::Object(o) => o.into_iter().collect(),
        _ => unreachable!(),
    };
    d.add_object(f.json, obj);
    d
}

fn add_simple(model: &mut Model, doc: u32, keys: Vec<Vec<u8>>) {
    let mut per: BTreeMap<Vec<u8>, u32> = BTreeMap::new();
    for k in keys {
        *per.entry(k).or_default() += 1;
    }
    for (k, tf) in per {
        model.entry(k).or_default().push((doc, tf, vec![]));
    }
}

fn json_terms(
    f: &TFields,
    path: &str,
    v: &serde_json::Value,
    strs: &mut BTreeMap<Vec<u8>, Vec<u32>>,
    nums: &mut Vec<Vec<u8>>,
    pos_per_path: &mut BTreeMap<String, u32>,
) {
    match v {
        serde_json::Value::Null => {}
        serde_json::Value::String(s) => {
            let offset = *pos_per_path.get(path).unwrap_or(&0);
            let mut end = offset;
            for (i, tok) in s.split_whitespace().enumerate() {
                let mut t = Term::from_field_json_path(f.json, path, false);
                t.append_type_and_str(tok);
                strs.entry(t.serialized_value_bytes().to_vec()).or_default().push(offset + i as u32);
                end = end.max(offset + i as u32 + 1);
            }
            pos_per_path.insert(path.to_string(), end + 1);
        }
        serde_json::Value::Bool(b) => {
            let mut t = Term::from_field_json_path(f.json, path, false);
            t.append_type_and_fast_value(*b);
            nums.push(t.serialized_value_bytes().to_vec());
        }
        serde_json::Value::Number(n) => {
            let mut t = Term::from_field_json_path(f.json, path, false);
            if let Some(i) = n.as_i64() {
                t.append_type_and_fast_value(i);
            } else if let Some(u) = n.as_u64() {
                t.append_type_and_fast_value(u);
            } else {
                let x = n.as_f64().unwrap();
                if x.fract() == 0.0 && x.abs() < 9e15 {
                    t.append_type_and_fast_value(x as i64);
                } else {
                    t.append_type_and_fast_value(x);
                }
            }
            nums.push(t.serialized_value_bytes().to_vec());
        }
        serde_json::Value::Array(a) => {
            for x in a {
                json_terms(f, path, x, strs, nums, pos_per_path);
            }
        }
        serde_json::Value::Object(o) => {
            for (k, x) in o {
                let p = if path.is_empty() { k.clone() } else { format!("{path}.{k}") };
                json_terms(f, &p, x, strs, nums, pos_per_path);
            }
        }
    }
}

fn check_typed(index: &Index, f: &TFields, all: &BTreeMap<u64, TDoc>, merged: bool, rng: &mut StdRng, ctx: &str) {
    let reader = index.reader().unwrap();
    reader.reload().unwrap();
    let searcher = reader.searcher();
    for (so, seg) in searcher.segment_readers().iter().enumerate() {
        let ctx = format!("{ctx} seg#{so}");
        let uid_col = seg.fast_fields().u64("uid").unwrap();
        let docs: Vec<&TDoc> = (0..seg.max_doc()).map(|d| &all[&uid_col.first(d).unwrap()]).collect();
        if merged {
            assert_eq!(seg.num_deleted_docs(), 0);
        }
        let mut m_u = Model::new();
        let mut m_i = Model::new();
        let mut m_f = Model::new();
        let mut m_b = Model::new();
        let mut m_d = Model::new();
        let mut m_ip = Model::new();
        let mut m_bytes = Model::new();
        let mut m_facet = Model::new();
        let mut m_json = Model::new();
        let val = |t: Term| t.serialized_value_bytes().to_vec();
        for (doc, t) in docs.iter().enumerate() {
            let doc = doc as u32;
            add_simple(&mut m_u, doc, t.u.iter().map(|v| val(Term::from_field_u64(f.u, *v))).collect());
            add_simple(&mut m_i, doc, t.i.iter().map(|v| val(Term::from_field_i64(f.i, *v))).collect());
            add_simple(&mut m_f, doc, t.f.iter().map(|v| val(Term::from_field_f64(f.f, *v))).collect());
            add_simple(&mut m_b, doc, t.b.iter().map(|v| val(Term::from_field_bool(f.b, *v))).collect());
            add_simple(
                &mut m_d,
                doc,
                t.d.iter().map(|v| val(Term::from_field_date(f.d, DateTime::from_timestamp_secs(*v)))).collect(),
            );
            add_simple(
                &mut m_ip,
                doc,
                t.ip.iter().map(|v| val(Term::from_field_ip_addr(f.ip, Ipv6Addr::from(*v)))).collect(),
            );
            add_simple(&mut m_bytes, doc, t.bytes.iter().map(|v| val(Term::from_field_bytes(f.bytes, v))).collect());
            // facets: every prefix of the facet path is a term, once per value... dedup handled below
            let mut fkeys = Vec::new();
            for fa in &t.facet {
                let facet = Facet::from(fa.as_str());
                let enc = facet.encoded_str().as_bytes().to_vec();
                // prefixes at each \0 boundary
                let mut last = 0;
                fkeys.push(Vec::new()); // the root facet is always emitted
                for (i, b) in enc.iter().enumerate() {
                    if *b == 0 {
                        fkeys.push(enc[..i].to_vec());
                        last = i;
                    }
                }
                let _ = last;
                if !enc.is_empty() {
                    fkeys.push(enc.clone());
                }
            }
            add_simple(&mut m_facet, doc, fkeys);
            let mut strs = BTreeMap::new();
            let mut nums = Vec::new();
            let mut ppp = BTreeMap::new();
            json_terms(f, "", &t.json, &mut strs, &mut nums, &mut ppp);
            for (k, pos) in strs {
                m_json.entry(k).or_default().push((doc, pos.len() as u32, pos));
            }
            // numbers: doc only, no freq: mark tf = u32::MAX placeholder? handled by separate check
            let mut per: BTreeMap<Vec<u8>, u32> = BTreeMap::new();
            for k in nums {
                *per.entry(k).or_default() += 1;
            }
            for (k, _) in per {
                m_json.entry(k).or_default().push((doc, 1, vec![0; 0]));
            }
        }
        check_field(seg, f.u, IndexRecordOption::Basic, &m_u, None, rng, &format!("{ctx} u64"));
        check_field(seg, f.i, IndexRecordOption::Basic, &m_i, None, rng, &format!("{ctx} i64"));
        check_field(seg, f.f, IndexRecordOption::Basic, &m_f, None, rng, &format!("{ctx} f64"));
        check_field(seg, f.b, IndexRecordOption::Basic, &m_b, None, rng, &format!("{ctx} bool"));
        check_field(seg, f.d, IndexRecordOption::Basic, &m_d, None, rng, &format!("{ctx} date"));
        check_field(seg, f.ip, IndexRecordOption::Basic, &m_ip, None, rng, &format!("{ctx} ip"));
        check_field(seg, f.bytes, IndexRecordOption::Basic, &m_bytes, None, rng, &format!("{ctx} bytes"));
        check_field(seg, f.facet, IndexRecordOption::Basic, &m_facet, None, rng, &format!("{ctx} facet"));
        // JSON: string terms carry freqs+positions, other terms only docs.
        let mut m_json_docs = m_json.clone();
        for v in m_json_docs.values_mut() {
            for p in v.iter_mut() {
                p.2.clear();
            }
        }
        check_field(seg, f.json, IndexRecordOption::Basic, &m_json_docs, None, rng, &format!("{ctx} json-basic"));
        // positions for string terms
        let inv = seg.inverted_index(f.json).unwrap();
        for (k, exp) in &m_json {
            let is_str = exp.iter().any(|p| !p.2.is_empty());
            if !is_str {
                continue;
            }
            let ti = inv.terms().get(k).unwrap().unwrap();
            let mut p = inv.read_postings_from_terminfo(&ti, IndexRecordOption::WithFreqsAndPositions).unwrap();
            let mut pos = Vec::new();
            for (d, tf, positions) in exp {
                assert_eq!(p.doc(), *d);
                assert_eq!(p.term_freq(), *tf, "{ctx}: json term {:?} doc {d} tf", String::from_utf8_lossy(k));
                p.positions(&mut pos);
                assert_eq!(&pos, positions, "{ctx}: json term {:?} doc {d} positions", String::from_utf8_lossy(k));
                p.advance();
            }
            assert_eq!(p.doc(), TERMINATED);
        }
    }
}

#[test]
fn typed_fields_and_json_with_deletes_and_merges() {
    for seed in 0..40u64 {
        let mut rng = StdRng::seed_from_u64(seed + 5000);
        let (schema, f) = tschema();
        let index = Index::create_in_ram(schema);
        let mut writer: IndexWriter = index.writer_with_num_threads(1, 100_000_000).unwrap();
        writer.set_merge_policy(Box::new(NoMergePolicy));
        let mut all: BTreeMap<u64, TDoc> = BTreeMap::new();
        let mut alive: std::collections::BTreeSet<u64> = Default::default();
        let mut uid = 0u64;
        let rounds = rng.random_range(1..4);
        for _ in 0..rounds {
            let n = pick(&mut rng, &[1usize, 5, 130, 300]);
            for _ in 0..n {
                let t = gen_tdoc(&mut rng, uid);
                writer.add_document(tdoc_to_doc(&f, &t)).unwrap();
                all.insert(uid, t);
                alive.insert(uid);
                uid += 1;
                if rng.random_range(0..15) == 0 {
                    let victim = rng.random_range(0..uid);
                    writer.delete_term(Term::from_field_u64(f.uid, victim));
                    alive.remove(&victim);
                }
            }
            writer.commit().unwrap();
            check_typed(&index, &f, &all, false, &mut rng, &format!("typed seed={seed} commit"));
        }
        let ids = index.searchable_segment_ids().unwrap();
        if !ids.is_empty() {
            writer.merge(&ids).wait().unwrap();
            // after the merge only alive docs remain
            let all_alive: BTreeMap<u64, TDoc> = all.iter().filter(|(k, _)| alive.contains(k)).map(|(k, v)| (*k, v.clone())).collect();
            check_typed(&index, &f, &all_alive, true, &mut rng, &format!("typed seed={seed} merged"));
            let searcher = index.reader().unwrap().searcher();
            let total: u32 = searcher.segment_readers().iter().map(|s| s.num_docs()).sum();
            assert_eq!(total as usize, alive.len());
        }
    }
}
