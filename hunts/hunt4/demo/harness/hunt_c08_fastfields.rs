//! C08 through the tantivy pipeline: writer -> segment files -> reader -> merge, plus range queries
//! answered from fast fields.
use std::collections::BTreeMap;
use std::net::Ipv6Addr;
use std::ops::Bound;

use rand::rngs::StdRng;
use rand::{Rng, SeedableRng};
use tantivy::collector::DocSetCollector;
use tantivy::indexer::NoMergePolicy;
use tantivy::query::RangeQuery;
use tantivy::schema::*;
use tantivy::{DateTime, DocAddress, Index, IndexWriter, TantivyDocument, Term};

#[derive(Clone, Debug, Default)]
struct MDoc {
    uid: u64,
    alive: bool,
    u: Vec<u64>,
    i: Vec<i64>,
    f: Vec<f64>,
    b: Vec<bool>,
    d: Vec<i64>, // seconds
    ip: Vec<u128>,
    bytes: Vec<Vec<u8>>,
    s: Vec<String>,
    // json paths
    jn: Vec<i64>,
    js: Vec<String>,
}

struct F {
    uid: Field,
    u: Field,
    i: Field,
    f: Field,
    b: Field,
    d: Field,
    ip: Field,
    bytes: Field,
    s: Field,
    json: Field,
}

fn schema() -> (Schema, F) {
    let mut sb = Schema::builder();
    let uid = sb.add_u64_field("uid", FAST | INDEXED);
    let u = sb.add_u64_field("u", FAST);
    let i = sb.add_i64_field("i", FAST);
    let f = sb.add_f64_field("f", FAST);
    let b = sb.add_bool_field("b", FAST);
    let d = sb.add_date_field("d", DateOptions::default().set_fast().set_precision(DateTimePrecision::Seconds));
    let ip = sb.add_ip_addr_field("ip", FAST);
    let bytes = sb.add_bytes_field("bytes", FAST);
    let s = sb.add_text_field("s", TextOptions::default().set_fast(Some("raw")));
    let json = sb.add_json_field("json", JsonObjectOptions::default().set_fast(Some("raw")));
    (
        sb.build(),
        F {
            uid,
            u,
            i,
            f,
            b,
            d,
            ip,
            bytes,
            s,
            json,
        },
    )
}

#[derive(Clone, Copy)]
struct Profile {
    density: f64, // probability that a field has values
    multi: bool,
    spread: u64,
}

fn gen_doc(rng: &mut StdRng, uid: u64, p: Profile) -> MDoc {
    let n = |rng: &mut StdRng| -> usize {
        if !rng.random_bool(p.density) {
            0
        } else if p.multi {
            rng.random_range(1..4)
        } else {
            1
        }
    };
    let base = 1_000u64;
    let mut m = MDoc {
        uid,
        alive: true,
        ..Default::default()
    };
    for _ in 0..n(rng) {
        m.u.push(if rng.random_range(0..50) == 0 { u64::MAX } else { base + rng.random_range(0..p.spread) * 3 });
    }
    for _ in 0..n(rng) {
        m.i.push(if rng.random_range(0..50) == 0 {
            [i64::MIN, i64::MAX][rng.random_range(0..2)]
        } else {
            rng.random_range(0..p.spread) as i64 - (p.spread / 2) as i64
        });
    }
    for _ in 0..n(rng) {
        m.f.push(if rng.random_range(0..50) == 0 {
            [f64::NEG_INFINITY, f64::INFINITY, -0.0, 0.0][rng.random_range(0..4)]
        } else {
            rng.random_range(0..p.spread) as f64 * 0.5 - 10.0
        });
    }
    for _ in 0..n(rng) {
        m.b.push(rng.random_bool(0.5));
    }
    for _ in 0..n(rng) {
        m.d.push(1_600_000_000 + rng.random_range(0..p.spread) as i64 * 3600 - 1_000_000);
    }
    for _ in 0..n(rng) {
        m.ip.push(if rng.random_range(0..30) == 0 {
            [0u128, u128::MAX, 1 << 100][rng.random_range(0..3)]
        } else {
            0xffff_0a00_0000u128 + rng.random_range(0..p.spread) as u128
        });
    }
    for _ in 0..n(rng) {
        m.bytes.push((rng.random_range(0..p.spread) as u32).to_be_bytes()[2..].to_vec());
    }
    for _ in 0..n(rng) {
        m.s.push(format!("s{:04}", rng.random_range(0..p.spread)));
    }
    for _ in 0..n(rng) {
        m.jn.push(rng.random_range(0..p.spread) as i64 - 5);
    }
    for _ in 0..n(rng) {
        m.js.push(format!("j{:03}", rng.random_range(0..p.spread)));
    }
    m
}

fn to_doc(f: &F, m: &MDoc) -> TantivyDocument {
    let mut d = TantivyDocument::new();
    d.add_u64(f.uid, m.uid);
    for v in &m.u {
        d.add_u64(f.u, *v);
    }
    for v in &m.i {
        d.add_i64(f.i, *v);
    }
    for v in &m.f {
        d.add_f64(f.f, *v);
    }
    for v in &m.b {
        d.add_bool(f.b, *v);
    }
    for v in &m.d {
        // sub-second part must be truncated by the Seconds precision
        d.add_date(f.d, DateTime::from_timestamp_nanos(*v * 1_000_000_000 + 123_456_789));
    }
    for v in &m.ip {
        d.add_ip_addr(f.ip, Ipv6Addr::from(*v));
    }
    for v in &m.bytes {
        d.add_bytes(f.bytes, v);
    }
    for v in &m.s {
        d.add_text(f.s, v);
    }
    if !m.jn.is_empty() || !m.js.is_empty() {
        let mut o: BTreeMap<String, OwnedValue> = BTreeMap::new();
        if !m.jn.is_empty() {
            o.insert("n".to_string(), OwnedValue::Array(m.jn.iter().map(|v| OwnedValue::I64(*v)).collect()));
        }
        if !m.js.is_empty() {
            let mut inner: Vec<(String, OwnedValue)> = Vec::new();
            inner.push(("s".to_string(), OwnedValue::Array(m.js.iter().map(|v| OwnedValue::Str(v.clone())).collect())));
            o.insert("o".to_string(), OwnedValue::Object(inner));
        }
        d.add_object(f.json, o);
    }
    d
}

fn verify_values(index: &Index, model: &BTreeMap<u64, MDoc>, ctx: &str) -> BTreeMap<DocAddress, u64> {
    let reader = index.reader().unwrap();
    reader.reload().unwrap();
    let searcher = reader.searcher();
    let mut addr_to_uid = BTreeMap::new();
    for (so, seg) in searcher.segment_readers().iter().enumerate() {
        let ctx = format!("{ctx} seg#{so}");
        let ff = seg.fast_fields();
        let uid_col = ff.u64("uid").unwrap();
        let u = ff.u64("u").unwrap();
        let i = ff.i64("i").unwrap();
        let f = ff.f64("f").unwrap();
        let b = ff.bool("b").unwrap();
        let d = ff.date("d").unwrap();
        let ip = ff.ip_addr("ip").unwrap();
        let bytes = ff.bytes("bytes").unwrap().unwrap();
        let s = ff.str("s").unwrap().unwrap();
        let jn = ff.i64("json.n").ok();
        let js = ff.str("json.o.s").unwrap();
        for doc in 0..seg.max_doc() {
            let uid = uid_col.first(doc).unwrap();
            let m = &model[&uid];
            if !seg.is_deleted(doc) {
                addr_to_uid.insert(DocAddress::new(so as u32, doc), uid);
                assert!(m.alive, "{ctx}: uid {uid} should be deleted");
            }
            assert_eq!(u.values_for_doc(doc).collect::<Vec<_>>(), m.u, "{ctx}: u of doc {doc}");
            assert_eq!(i.values_for_doc(doc).collect::<Vec<_>>(), m.i, "{ctx}: i of doc {doc}");
            assert_eq!(
                f.values_for_doc(doc).map(|x| x.to_bits()).collect::<Vec<_>>(),
                m.f.iter().map(|x| x.to_bits()).collect::<Vec<_>>(),
                "{ctx}: f of doc {doc}"
            );
            assert_eq!(b.values_for_doc(doc).collect::<Vec<_>>(), m.b, "{ctx}: b of doc {doc}");
            assert_eq!(
                d.values_for_doc(doc).map(|x| x.into_timestamp_nanos()).collect::<Vec<_>>(),
                m.d.iter().map(|x| x * 1_000_000_000).collect::<Vec<_>>(),
                "{ctx}: d of doc {doc}"
            );
            assert_eq!(
                ip.values_for_doc(doc).map(u128::from).collect::<Vec<_>>(),
                m.ip,
                "{ctx}: ip of doc {doc}"
            );
            let got_bytes: Vec<Vec<u8>> = bytes
                .term_ords(doc)
                .map(|o| {
                    let mut v = Vec::new();
                    assert!(bytes.ord_to_bytes(o, &mut v).unwrap());
                    v
                })
                .collect();
            assert_eq!(got_bytes, m.bytes, "{ctx}: bytes of doc {doc}");
            let got_s: Vec<String> = s
                .term_ords(doc)
                .map(|o| {
                    let mut v = String::new();
                    assert!(s.ord_to_str(o, &mut v).unwrap());
                    v
                })
                .collect();
            assert_eq!(got_s, m.s, "{ctx}: s of doc {doc}");
            let got_jn: Vec<i64> = jn.as_ref().map(|c| c.values_for_doc(doc).collect()).unwrap_or_default();
            assert_eq!(got_jn, m.jn, "{ctx}: json.n of doc {doc}");
            let got_js: Vec<String> = js
                .as_ref()
                .map(|c| {
                    c.term_ords(doc)
                        .map(|o| {
                            let mut v = String::new();
                            assert!(c.ord_to_str(o, &mut v).unwrap());
                            v
                        })
                        .collect()
                })
                .unwrap_or_default();
            assert_eq!(got_js, m.js, "{ctx}: json.o.s of doc {doc}");
        }
    }
    let alive = model.values().filter(|m| m.alive).count();
    assert_eq!(addr_to_uid.len(), alive, "{ctx}: alive docs");
    addr_to_uid
}

fn gen_bound<T: Clone>(rng: &mut StdRng, cands: &[T]) -> Bound<T> {
    let v = cands[rng.random_range(0..cands.len())].clone();
    match rng.random_range(0..5) {
        0 => Bound::Unbounded,
        1 | 2 => Bound::Included(v),
        _ => Bound::Excluded(v),
    }
}

fn in_bounds<T: PartialOrd>(v: &T, lo: &Bound<T>, hi: &Bound<T>) -> bool {
    (match lo {
        Bound::Included(b) => b <= v,
        Bound::Excluded(b) => b < v,
        Bound::Unbounded => true,
    }) && (match hi {
        Bound::Included(b) => v <= b,
        Bound::Excluded(b) => v < b,
        Bound::Unbounded => true,
    })
}

fn map_bound<T, U>(b: &Bound<T>, f: impl Fn(&T) -> U) -> Bound<U> {
    match b {
        Bound::Included(x) => Bound::Included(f(x)),
        Bound::Excluded(x) => Bound::Excluded(f(x)),
        Bound::Unbounded => Bound::Unbounded,
    }
}

fn run_range<T: PartialOrd + Clone + std::fmt::Debug>(
    index: &Index,
    addr_to_uid: &BTreeMap<DocAddress, u64>,
    model: &BTreeMap<u64, MDoc>,
    rng: &mut StdRng,
    ctx: &str,
    name: &str,
    cands: &[T],
    vals: impl Fn(&MDoc) -> Vec<T>,
    term: impl Fn(&T) -> Term,
    failures: &mut Vec<String>,
) {
    let searcher = index.reader().unwrap().searcher();
    for _ in 0..12 {
        let lo = gen_bound(rng, cands);
        let hi = gen_bound(rng, cands);
        if matches!((&lo, &hi), (Bound::Unbounded, Bound::Unbounded)) {
            continue;
        }
        let q = RangeQuery::new(map_bound(&lo, &term), map_bound(&hi, &term));
        let res = std::panic::catch_unwind(std::panic::AssertUnwindSafe(|| searcher.search(&q, &DocSetCollector)));
        let got = match res {
            Ok(Ok(got)) => got,
            Ok(Err(e)) => {
                failures.push(format!("{ctx}: range {name} ({lo:?}, {hi:?}) error {e:?}"));
                continue;
            }
            Err(_) => {
                failures.push(format!("{ctx}: range {name} ({lo:?}, {hi:?}) PANICKED"));
                continue;
            }
        };
        let mut got_uids: Vec<u64> = got.iter().map(|a| addr_to_uid[a]).collect();
        got_uids.sort();
        let exp_uids: Vec<u64> = model
            .values()
            .filter(|m| m.alive && vals(m).iter().any(|v| in_bounds(v, &lo, &hi)))
            .map(|m| m.uid)
            .collect();
        if got_uids != exp_uids {
            failures.push(format!(
                "{ctx}: range {name} ({lo:?}, {hi:?}): got {} docs, expected {}: first got {:?} exp {:?}",
                got_uids.len(),
                exp_uids.len(),
                got_uids.iter().find(|u| !exp_uids.contains(u)),
                exp_uids.iter().find(|u| !got_uids.contains(u))
            ));
        }
    }
}

fn verify_ranges(index: &Index, f: &F, model: &BTreeMap<u64, MDoc>, rng: &mut StdRng, ctx: &str, failures: &mut Vec<String>) {
    let addr_to_uid = verify_values(index, model, ctx);
    let alive: Vec<&MDoc> = model.values().filter(|m| m.alive).collect();
    if alive.is_empty() {
        return;
    }
    // u64
    let mut c: Vec<u64> = alive.iter().flat_map(|m| m.u.clone()).collect();
    c.extend([0, 1, 999, 1000, 1001, 5000, u64::MAX, u64::MAX - 1]);
    let ext: Vec<u64> = c.iter().take(20).flat_map(|v| [v.wrapping_add(1), v.wrapping_sub(1)]).collect();
    c.extend(ext);
    run_range(index, &addr_to_uid, model, rng, ctx, "u", &c, |m| m.u.clone(), |v| Term::from_field_u64(f.u, *v), failures);
    // i64
    let mut c: Vec<i64> = alive.iter().flat_map(|m| m.i.clone()).collect();
    c.extend([0, -1, 1, i64::MIN, i64::MAX, i64::MIN + 1, i64::MAX - 1, -100000, 100000]);
    run_range(index, &addr_to_uid, model, rng, ctx, "i", &c, |m| m.i.clone(), |v| Term::from_field_i64(f.i, *v), failures);
    // f64 (total order: -0.0 < 0.0)
    #[derive(Clone, Debug)]
    struct TF(f64);
    impl PartialEq for TF {
        fn eq(&self, o: &TF) -> bool {
            self.0.total_cmp(&o.0) == std::cmp::Ordering::Equal
        }
    }
    impl PartialOrd for TF {
        fn partial_cmp(&self, o: &TF) -> Option<std::cmp::Ordering> {
            Some(self.0.total_cmp(&o.0))
        }
    }
    let mut c: Vec<TF> = alive.iter().flat_map(|m| m.f.iter().map(|x| TF(*x)).collect::<Vec<_>>()).collect();
    c.extend([0.0, -0.0, 0.25, -1000.0, 1e18, f64::INFINITY, f64::NEG_INFINITY, f64::MAX, f64::MIN].map(TF));
    run_range(
        index,
        &addr_to_uid,
        model,
        rng,
        ctx,
        "f",
        &c,
        |m| m.f.iter().map(|x| TF(*x)).collect(),
        |v| Term::from_field_f64(f.f, v.0),
        failures,
    );
    // date (seconds)
    let mut c: Vec<i64> = alive.iter().flat_map(|m| m.d.clone()).collect();
    c.extend([0, -1, 1_600_000_000, 2_000_000_000, 1_000_000_000]);
    run_range(
        index,
        &addr_to_uid,
        model,
        rng,
        ctx,
        "d",
        &c,
        |m| m.d.clone(),
        |v| Term::from_field_date(f.d, DateTime::from_timestamp_secs(*v)),
        failures,
    );
    // ip
    let mut c: Vec<u128> = alive.iter().flat_map(|m| m.ip.clone()).collect();
    c.extend([0, 1, u128::MAX, u128::MAX - 1, 0xffff_0a00_0000, 0xffff_0a00_ffff, 1 << 100, (1 << 100) + 1]);
    run_range(
        index,
        &addr_to_uid,
        model,
        rng,
        ctx,
        "ip",
        &c,
        |m| m.ip.clone(),
        |v| Term::from_field_ip_addr(f.ip, Ipv6Addr::from(*v)),
        failures,
    );
    // str
    let mut c: Vec<String> = alive.iter().flat_map(|m| m.s.clone()).collect();
    c.extend(["", "s", "s0000", "s00005", "s9999", "t", "a", "s0100\u{0}"].map(String::from));
    run_range(index, &addr_to_uid, model, rng, ctx, "s", &c, |m| m.s.clone(), |v| Term::from_field_text(f.s, v), failures);
    // bytes
    let mut c: Vec<Vec<u8>> = alive.iter().flat_map(|m| m.bytes.clone()).collect();
    c.extend([vec![], vec![0], vec![0, 0], vec![0, 0, 0], vec![255, 255], vec![0, 5, 0]]);
    run_range(
        index,
        &addr_to_uid,
        model,
        rng,
        ctx,
        "bytes",
        &c,
        |m| m.bytes.clone(),
        |v| Term::from_field_bytes(f.bytes, v),
        failures,
    );
    // json numeric path
    let mut c: Vec<i64> = alive.iter().flat_map(|m| m.jn.clone()).collect();
    c.extend([0, -6, -5, 100000, i64::MIN, i64::MAX]);
    run_range(
        index,
        &addr_to_uid,
        model,
        rng,
        ctx,
        "json.n",
        &c,
        |m| m.jn.clone(),
        |v| {
            let mut t = Term::from_field_json_path(f.json, "n", false);
            t.append_type_and_fast_value(*v);
            t
        },
        failures,
    );
    // json str path
    let mut c: Vec<String> = alive.iter().flat_map(|m| m.js.clone()).collect();
    c.extend(["", "j", "j000", "j999", "k"].map(String::from));
    run_range(
        index,
        &addr_to_uid,
        model,
        rng,
        ctx,
        "json.o.s",
        &c,
        |m| m.js.clone(),
        |v| {
            let mut t = Term::from_field_json_path(f.json, "o.s", false);
            t.append_type_and_str(v);
            t
        },
        failures,
    );
}

fn run(seed: u64, failures: &mut Vec<String>) {
    let mut rng = StdRng::seed_from_u64(seed);
    let (schema, f) = schema();
    let index = Index::create_in_ram(schema);
    let mut writer: IndexWriter = index.writer_with_num_threads(1, 50_000_000).unwrap();
    writer.set_merge_policy(Box::new(NoMergePolicy));
    let mut model: BTreeMap<u64, MDoc> = BTreeMap::new();
    let mut uid = 0u64;
    let rounds = rng.random_range(1..4);
    for round in 0..rounds {
        let p = Profile {
            density: [1.0, 0.9, 0.3, 0.02][rng.random_range(0..4)],
            multi: rng.random_bool(0.4),
            spread: [1u64, 3, 50, 3000][rng.random_range(0..4)],
        };
        let n = [1usize, 10, 200, 700, 1500][rng.random_range(0..5)];
        let ctx = format!("seed={seed} round={round} n={n} density={} multi={} spread={}", p.density, p.multi, p.spread);
        for _ in 0..n {
            let m = gen_doc(&mut rng, uid, p);
            writer.add_document(to_doc(&f, &m)).unwrap();
            model.insert(uid, m);
            uid += 1;
            if rng.random_range(0..40) == 0 {
                let victim = rng.random_range(0..uid);
                writer.delete_term(Term::from_field_u64(f.uid, victim));
                model.get_mut(&victim).unwrap().alive = false;
            }
        }
        writer.commit().unwrap();
        verify_ranges(&index, &f, &model, &mut rng, &format!("{ctx} commit"), failures);
    }
    let ids = index.searchable_segment_ids().unwrap();
    if !ids.is_empty() {
        writer.merge(&ids).wait().unwrap();
        // after a merge, deleted docs are gone: restrict the model
        let alive_model: BTreeMap<u64, MDoc> = model.iter().filter(|(_, m)| m.alive).map(|(k, v)| (*k, v.clone())).collect();
        verify_ranges(&index, &f, &alive_model, &mut rng, &format!("seed={seed} merged"), failures);
    }
}

#[test]
fn fast_fields_pipeline_and_range_queries() {
    let mut failures = Vec::new();
    for seed in 0..80 {
        run(seed, &mut failures);
    }
    if !failures.is_empty() {
        let non_ip: Vec<&String> = failures.iter().filter(|f| !(f.contains("range ip") && f.contains("PANICKED"))).collect();
        eprintln!("{} failures other than ip range panics", non_ip.len());
        for f in non_ip.iter().take(40) {
            eprintln!("OTHER FAILURE: {f}");
        }
        for f in failures.iter().take(5) {
            eprintln!("FAILURE: {f}");
        }
        panic!("{} failures", failures.len());
    }
}
