use common::{BinarySerializable, VInt};
use tantivy::fieldnorm::FieldNormReader;

#[test]
fn fieldnorm_code() {
    let mut prev = None;
    for id in 0u16..=255 {
        let id = id as u8;
        let norm = FieldNormReader::id_to_fieldnorm(id);
        assert_eq!(FieldNormReader::fieldnorm_to_id(norm), id, "id {id} norm {norm}");
        if let Some(p) = prev {
            assert!(norm > p, "id {id}");
            // every value in between maps to the previous id
            assert_eq!(FieldNormReader::fieldnorm_to_id(norm - 1), id - 1, "norm {}", norm - 1);
        }
        prev = Some(norm);
    }
    for n in 0..2000u32 {
        let id = FieldNormReader::fieldnorm_to_id(n);
        assert!(FieldNormReader::id_to_fieldnorm(id) <= n);
        if id < 255 {
            assert!(FieldNormReader::id_to_fieldnorm(id + 1) > n);
        }
    }
    assert_eq!(FieldNormReader::fieldnorm_to_id(u32::MAX), 255);
}

#[test]
fn monotonic_mappings() {
    let fs = [
        f64::NEG_INFINITY, f64::MIN, -1e300, -2.5, -1.0, -f64::MIN_POSITIVE, -0.0, 0.0, f64::MIN_POSITIVE, 1.0, 2.5, 1e300,
        f64::MAX, f64::INFINITY,
    ];
    for w in fs.windows(2) {
        assert!(tantivy::f64_to_u64(w[0]) < tantivy::f64_to_u64(w[1]), "{:?}", w);
    }
    for f in fs {
        assert_eq!(tantivy::u64_to_f64(tantivy::f64_to_u64(f)).to_bits(), f.to_bits());
    }
    let is = [i64::MIN, i64::MIN + 1, -2, -1, 0, 1, 2, i64::MAX - 1, i64::MAX];
    for w in is.windows(2) {
        assert!(tantivy::i64_to_u64(w[0]) < tantivy::i64_to_u64(w[1]));
    }
    for i in is {
        assert_eq!(tantivy::u64_to_i64(tantivy::i64_to_u64(i)), i);
    }
}

#[test]
fn vint_roundtrip() {
    let mut vals: Vec<u64> = vec![0, 1, 127, 128, 129, 16383, 16384, u32::MAX as u64, u32::MAX as u64 + 1, u64::MAX, u64::MAX - 1];
    for s in 0..64 {
        vals.push(1 << s);
        vals.push((1u64 << s).wrapping_sub(1));
    }
    for v in vals {
        let mut buf = Vec::new();
        VInt(v).serialize(&mut buf).unwrap();
        let mut cur = &buf[..];
        assert_eq!(VInt::deserialize(&mut cur).unwrap().0, v);
        assert!(cur.is_empty());
        let mut buf2 = Vec::new();
        VInt(v).serialize_into_vec(&mut buf2);
        assert_eq!(buf, buf2);
        if v <= u32::MAX as u64 {
            let mut cur = &buf[..];
            assert_eq!(common::read_u32_vint(&mut cur) as u64, v);
            assert!(cur.is_empty());
            let (val, n) = common::read_u32_vint_no_advance(&buf);
            assert_eq!((val as u64, n), (v, buf.len()));
            let mut b8 = [0u8; 8];
            assert_eq!(common::serialize_vint_u32(v as u32, &mut b8), &buf[..]);
        }
    }
}

#[test]
fn num_bits() {
    assert_eq!(tantivy_bitpacker::compute_num_bits(0), 0);
    for s in 0..64u32 {
        let v = 1u64 << s;
        let nb = tantivy_bitpacker::compute_num_bits(v);
        let exp = s as u8 + 1;
        // widths 57..=63 are not supported by the unpacker and are rounded up to 64
        if exp > 56 {
            assert_eq!(nb, 64, "v=2^{s}");
        } else {
            assert_eq!(nb, exp, "v=2^{s}");
        }
        if s > 0 {
            let nb = tantivy_bitpacker::compute_num_bits(v - 1);
            let exp = s as u8;
            if exp > 56 {
                assert_eq!(nb, 64);
            } else {
                assert_eq!(nb, exp, "v=2^{s}-1");
            }
        }
    }
}

#[test]
fn datetime_truncate() {
    use tantivy::schema::DateTimePrecision;
    use tantivy::DateTime;
    for nanos in [0i64, 1, -1, 999_999_999, 1_000_000_000, -999_999_999, -1_000_000_001, 1_700_000_000_123_456_789, -1_700_000_000_123_456_789] {
        let d = DateTime::from_timestamp_nanos(nanos);
        for (p, unit) in [
            (DateTimePrecision::Seconds, 1_000_000_000i64),
            (DateTimePrecision::Milliseconds, 1_000_000),
            (DateTimePrecision::Microseconds, 1_000),
            (DateTimePrecision::Nanoseconds, 1),
        ] {
            let t = d.truncate(p).into_timestamp_nanos();
            assert_eq!(t % unit, 0, "{nanos} {p:?}");
            assert!((t - nanos).abs() < unit, "{nanos} {p:?} -> {t}");
            // monotonic (non decreasing) w.r.t. neighbours
            let t2 = DateTime::from_timestamp_nanos(nanos + 1).truncate(p).into_timestamp_nanos();
            assert!(t2 >= t, "{nanos} {p:?}");
        }
    }
}
