//! C15: term dictionaries as ordered maps, against a BTreeMap model.
//!
//! - `tantivy::termdict::TermDictionary` (FST by default, sstable with `--features quickwit`)
//! - `tantivy::columnar::Dictionary` (the sstable with void values which backs string fast fields)
use std::collections::{BTreeMap, BTreeSet};
use std::ops::Bound;

use levenshtein_automata::{Distance, LevenshteinAutomatonBuilder, DFA};
use rand::rngs::StdRng;
use rand::{Rng, SeedableRng};
use tantivy::directory::FileSlice;
use tantivy::postings::TermInfo;
use tantivy::termdict::{TermDictionary, TermDictionaryBuilder};
use tantivy_fst::Automaton;

thread_local! {
    static IN_GUARD: std::cell::Cell<bool> = std::cell::Cell::new(false);
    static FAILURES: std::cell::RefCell<Vec<String>> = std::cell::RefCell::new(Vec::new());
}
fn record_failure(msg: String) {
    FAILURES.with(|f| {
        let mut f = f.borrow_mut();
        // class = message up to the first ':' after the context, digits removed
        let class = |m: &str| -> String {
            let tail = m.splitn(2, ": ").nth(1).unwrap_or(m);
            tail.chars().filter(|c| !c.is_ascii_digit()).take(60).collect()
        };
        let c = class(&msg);
        if f.iter().filter(|m| class(m) == c).count() < 3 && f.len() < 200 {
            let mut msg = msg;
            msg.truncate(1500);
            f.push(msg);
        }
    });
}
fn take_failures() -> Vec<String> {
    FAILURES.with(|f| std::mem::take(&mut *f.borrow_mut()))
}
/// Runs `f`; a panic (assertion of the model or panic inside the library) is recorded and swallowed.
fn guarded(what: &str, f: impl FnOnce()) {
    static HOOK: std::sync::Once = std::sync::Once::new();
    HOOK.call_once(|| {
        let default = std::panic::take_hook();
        std::panic::set_hook(Box::new(move |info| {
            // panics inside `guarded` are recorded by the caller; keep them quiet (and cheap).
            let in_guard = IN_GUARD.with(|g| g.get());
            if !in_guard {
                default(info);
            }
        }));
    });
    IN_GUARD.with(|g| g.set(true));
    let f = || {
        f();
    };
    let res = std::panic::catch_unwind(std::panic::AssertUnwindSafe(f));
    IN_GUARD.with(|g| g.set(false));
    if let Err(e) = res {
        let msg = if let Some(s) = e.downcast_ref::<String>() {
            s.clone()
        } else if let Some(s) = e.downcast_ref::<&str>() {
            s.to_string()
        } else {
            "?".to_string()
        };
        record_failure(format!("{what}: {msg}"));
    }
}
fn finish(test: &str) {
    let failures = take_failures();
    if !failures.is_empty() {
        for f in &failures {
            eprintln!("FAILURE: {f}\n");
        }
        panic!("{test}: {} failures", failures.len());
    }
}

struct DfaW(DFA);
impl Automaton for DfaW {
    type State = u32;
    fn start(&self) -> u32 {
        self.0.initial_state()
    }
    fn is_match(&self, state: &u32) -> bool {
        matches!(self.0.distance(*state), Distance::Exact(_))
    }
    fn can_match(&self, state: &u32) -> bool {
        *state != levenshtein_automata::SINK_STATE
    }
    fn accept(&self, state: &u32, byte: u8) -> u32 {
        self.0.transition(*state, byte)
    }
}

fn automaton_matches<A: Automaton>(a: &A, key: &[u8]) -> bool {
    let mut s = a.start();
    for b in key {
        s = a.accept(&s, *b);
    }
    a.is_match(&s)
}

#[derive(Clone, Copy, Debug)]
enum KeyGen {
    ShortAscii,
    LongSharedPrefix,
    Binary,
    Numbers,
    HugeKeys,
    Words,
}

fn gen_keys(rng: &mut StdRng, kg: KeyGen, n: usize) -> BTreeSet<Vec<u8>> {
    let mut keys = BTreeSet::new();
    if n == 0 {
        return keys;
    }
    if rng.random_bool(0.3) {
        keys.insert(Vec::new());
    }
    let prefix_len = [0usize, 1, 14, 15, 16, 17, 40, 255, 256, 300, 5000][rng.random_range(0..11)];
    let prefix: Vec<u8> = (0..prefix_len).map(|i| b'a' + (i % 7) as u8).collect();
    let mut attempts = 0;
    while keys.len() < n && attempts < n * 20 {
        attempts += 1;
        let k: Vec<u8> = match kg {
            KeyGen::ShortAscii => {
                let len = rng.random_range(0..8);
                (0..len).map(|_| b'a' + rng.random_range(0..4) as u8).collect()
            }
            KeyGen::LongSharedPrefix => {
                let mut k = prefix.clone();
                let len = rng.random_range(0..40);
                k.extend((0..len).map(|_| b'a' + rng.random_range(0..3) as u8));
                if rng.random_bool(0.1) {
                    k.truncate(rng.random_range(0..=k.len()));
                }
                k
            }
            KeyGen::Binary => {
                let len = rng.random_range(0..6);
                (0..len).map(|_| [0u8, 0, 1, 127, 128, 254, 255, 255][rng.random_range(0..8)]).collect()
            }
            KeyGen::Numbers => {
                let v: u64 = if rng.random_bool(0.5) { rng.random_range(0..100_000) } else { rng.random() };
                v.to_be_bytes().to_vec()
            }
            KeyGen::HugeKeys => {
                let len = [0usize, 1, 100, 3999, 4000, 4001, 8000, 20_000, 40_000][rng.random_range(0..9)];
                let shared = rng.random_range(0..=len);
                let mut k: Vec<u8> = (0..shared).map(|i| (i % 251) as u8).collect();
                k.extend((shared..len).map(|_| rng.random::<u8>()));
                k
            }
            KeyGen::Words => {
                let syll = ["ab", "ba", "abc", "cab", "x", "aa", "b", "hello", "help", "hel"];
                let len = rng.random_range(1..4);
                let mut k = Vec::new();
                for _ in 0..len {
                    k.extend_from_slice(syll[rng.random_range(0..syll.len())].as_bytes());
                }
                k
            }
        };
        keys.insert(k);
    }
    keys
}

fn mutate_key(rng: &mut StdRng, keys: &[Vec<u8>]) -> Vec<u8> {
    if keys.is_empty() {
        return (0..rng.random_range(0..4)).map(|_| rng.random()).collect();
    }
    let mut k = keys[rng.random_range(0..keys.len())].clone();
    match rng.random_range(0..8) {
        0 => {}
        1 => {
            k.push(rng.random());
        }
        2 => {
            k.push(0);
        }
        3 => {
            k.pop();
        }
        4 => {
            if let Some(l) = k.last_mut() {
                *l = l.wrapping_add(1);
            }
        }
        5 => {
            if let Some(l) = k.last_mut() {
                *l = l.wrapping_sub(1);
            }
        }
        6 => {
            let cut = rng.random_range(0..=k.len());
            k.truncate(cut);
            k.push(255);
        }
        _ => {
            k = (0..rng.random_range(0..4)).map(|_| rng.random()).collect();
        }
    }
    k
}

fn in_range(k: &[u8], lo: &Bound<Vec<u8>>, hi: &Bound<Vec<u8>>) -> bool {
    (match lo {
        Bound::Included(b) => &b[..] <= k,
        Bound::Excluded(b) => &b[..] < k,
        Bound::Unbounded => true,
    }) && (match hi {
        Bound::Included(b) => k <= &b[..],
        Bound::Excluded(b) => k < &b[..],
        Bound::Unbounded => true,
    })
}

fn gen_bound(rng: &mut StdRng, keys: &[Vec<u8>]) -> Bound<Vec<u8>> {
    match rng.random_range(0..5) {
        0 => Bound::Unbounded,
        1 | 2 => Bound::Included(mutate_key(rng, keys)),
        _ => Bound::Excluded(mutate_key(rng, keys)),
    }
}

fn gen_automata(rng: &mut StdRng, keys: &[Vec<u8>]) -> Vec<(String, Box<dyn Fn(&[u8]) -> bool>, AutomatonKind)> {
    let mut out: Vec<(String, Box<dyn Fn(&[u8]) -> bool>, AutomatonKind)> = Vec::new();
    // Levenshtein around an existing / mutated key (utf8 only)
    for _ in 0..4 {
        let k = mutate_key(rng, keys);
        let Ok(s) = String::from_utf8(k) else { continue };
        if s.len() > 14 {
            continue;
        }
        let dist = rng.random_range(0..3u8);
        let transp = rng.random_bool(0.5);
        let prefix = rng.random_bool(0.3);
        out.push((
            format!("lev({s:?}, d={dist}, transp={transp}, prefix={prefix})"),
            Box::new(|_| false),
            AutomatonKind::Lev(s, dist, transp, prefix),
        ));
    }
    for re in ["a.*", ".*a", "ab.*c.*", "(ab|ba)+", "hel.*", "[a-c]{2,5}", ".*", "", "x?", "aa*b", ".{3}"] {
        if rng.random_bool(0.5) {
            out.push((format!("regex({re:?})"), Box::new(|_| false), AutomatonKind::Regex(re.to_string())));
        }
    }
    out
}

enum AutomatonKind {
    Lev(String, u8, bool, bool),
    Regex(String),
}

fn cached_regex(re: &str) -> &'static tantivy_fst::Regex {
    static CACHE: std::sync::Mutex<Option<std::collections::HashMap<String, &'static tantivy_fst::Regex>>> =
        std::sync::Mutex::new(None);
    let mut g = CACHE.lock().unwrap();
    let m = g.get_or_insert_with(Default::default);
    *m.entry(re.to_string())
        .or_insert_with(|| Box::leak(Box::new(tantivy_fst::Regex::new(re).unwrap())))
}

fn build_lev(s: &str, dist: u8, transp: bool, prefix: bool) -> DfaW {
    let b = LevenshteinAutomatonBuilder::new(dist, transp);
    DfaW(if prefix { b.build_prefix_dfa(s) } else { b.build_dfa(s) })
}

fn term_info_seq(rng: &mut StdRng, n: usize) -> Vec<TermInfo> {
    let mut postings = [0usize, 17, 1 << 33][rng.random_range(0..3)];
    let mut positions = [0usize, 3, 1 << 34][rng.random_range(0..3)];
    let big = rng.random_bool(0.2);
    (0..n)
        .map(|_| {
            let pl = if big { rng.random_range(0..100_000_000) } else { rng.random_range(0..50) };
            let ql = if rng.random_bool(0.5) { 0 } else { rng.random_range(0..5000) };
            let ti = TermInfo {
                doc_freq: if rng.random_bool(0.05) { rng.random() } else { rng.random_range(0..1000) },
                postings_range: postings..postings + pl,
                positions_range: positions..positions + ql,
            };
            postings += pl;
            positions += ql;
            ti
        })
        .collect()
}

fn check_tantivy_termdict(model: &BTreeMap<Vec<u8>, TermInfo>, rng: &mut StdRng, ctx: &str) {
    let mut b = TermDictionaryBuilder::create(Vec::new()).unwrap();
    for (k, v) in model {
        guarded(ctx, || {
        b.insert(k, v).unwrap();
        });
    }
    let bytes = b.finish().unwrap();
    let dict = TermDictionary::open(FileSlice::from(bytes)).unwrap();
    let keys: Vec<Vec<u8>> = model.keys().cloned().collect();
    assert_eq!(dict.num_terms(), keys.len(), "{ctx}: num_terms");
    // full stream
    {
        let mut s = dict.stream().unwrap();
        let mut i = 0usize;
        while s.advance() {
            assert!(i < keys.len(), "{ctx}: stream yields too many keys");
            assert_eq!(s.key(), &keys[i][..], "{ctx}: stream key #{i}");
            assert_eq!(s.value(), &model[&keys[i]], "{ctx}: stream value #{i}");
            assert_eq!(s.term_ord(), i as u64, "{ctx}: stream ord #{i}");
            i += 1;
        }
        assert_eq!(i, keys.len(), "{ctx}: stream len");
    }
    // point lookups
    let mut buf = Vec::new();
    let step = (keys.len() / 300).max(1);
    for (i, k) in keys.iter().enumerate().step_by(step) {
        guarded(ctx, || {
        assert_eq!(dict.term_ord(k).unwrap(), Some(i as u64), "{ctx}: term_ord #{i}");
        assert_eq!(dict.get(k).unwrap().as_ref(), Some(&model[k]), "{ctx}: get #{i}");
        assert!(dict.ord_to_term(i as u64, &mut buf).unwrap(), "{ctx}: ord_to_term #{i}");
        assert_eq!(&buf, k, "{ctx}: ord_to_term #{i}");
        });
    }
    for _ in 0..200 {
        guarded(ctx, || {
        let k = mutate_key(rng, &keys);
        let exp = keys.binary_search(&k).ok();
        assert_eq!(dict.term_ord(&k).unwrap(), exp.map(|x| x as u64), "{ctx}: term_ord({k:?})");
        assert_eq!(dict.get(&k).unwrap(), exp.map(|i| model[&keys[i]].clone()), "{ctx}: get({k:?})");
        });
    }
    assert!(!dict.ord_to_term(keys.len() as u64, &mut buf).unwrap_or(false), "{ctx}: ord_to_term(num_terms) found");
    // ranges
    for _ in 0..60 {
        guarded(ctx, || {
        let lo = gen_bound(rng, &keys);
        let hi = gen_bound(rng, &keys);
        let mut rb = dict.range();
        rb = match &lo {
            Bound::Included(b) => rb.ge(b),
            Bound::Excluded(b) => rb.gt(b),
            Bound::Unbounded => rb,
        };
        rb = match &hi {
            Bound::Included(b) => rb.le(b),
            Bound::Excluded(b) => rb.lt(b),
            Bound::Unbounded => rb,
        };
        let mut s = rb.into_stream().unwrap();
        let exp: Vec<usize> = (0..keys.len()).filter(|i| in_range(&keys[*i], &lo, &hi)).collect();
        let mut got = Vec::new();
        while s.advance() {
            let i = keys.binary_search(&s.key().to_vec()).unwrap_or_else(|_| panic!("{ctx}: range yields unknown key"));
            assert_eq!(s.value(), &model[&keys[i]], "{ctx}: range value");
            assert_eq!(s.term_ord(), i as u64, "{ctx}: range({lo:?},{hi:?}) term_ord of key #{i}");
            got.push(i);
        }
        assert_eq!(got, exp, "{ctx}: range({lo:?}, {hi:?})");
        });
    }
    // automata
    for (name, _, kind) in gen_automata(rng, &keys) {
        guarded(ctx, || {
        let lo = if rng.random_bool(0.5) { Bound::Unbounded } else { gen_bound(rng, &keys) };
        let hi = if rng.random_bool(0.5) { Bound::Unbounded } else { gen_bound(rng, &keys) };
        macro_rules! run {
            ($a:expr, $b:expr) => {{
                let exp: Vec<usize> = (0..keys.len())
                    .filter(|i| in_range(&keys[*i], &lo, &hi) && automaton_matches(&$a, &keys[*i]))
                    .collect();
                let mut rb = dict.search($b);
                rb = match &lo {
                    Bound::Included(b) => rb.ge(b),
                    Bound::Excluded(b) => rb.gt(b),
                    Bound::Unbounded => rb,
                };
                rb = match &hi {
                    Bound::Included(b) => rb.le(b),
                    Bound::Excluded(b) => rb.lt(b),
                    Bound::Unbounded => rb,
                };
                let mut s = rb.into_stream().unwrap();
                let mut got = Vec::new();
                let mut ords = Vec::new();
                while s.advance() {
                    let i = keys.binary_search(&s.key().to_vec()).unwrap();
                    assert_eq!(s.value(), &model[&keys[i]], "{ctx}: {name} value of key #{i}");
                    ords.push(s.term_ord());
                    got.push(i);
                }
                assert_eq!(got, exp, "{ctx}: search {name} in ({lo:?},{hi:?})");
                let exp_ords: Vec<u64> = exp.iter().map(|i| *i as u64).collect();
                assert_eq!(ords, exp_ords, "{ctx}: search {name} in ({lo:?},{hi:?}) term ords");
            }};
        }
        match kind {
            AutomatonKind::Lev(s, d, t, p) => run!(build_lev(&s, d, t, p), build_lev(&s, d, t, p)),
            AutomatonKind::Regex(re) => {
                run!(cached_regex(&re), cached_regex(&re))
            }
        }
        });
    }
}

fn check_columnar_dict(keys: &[Vec<u8>], block_len: Option<usize>, rng: &mut StdRng, ctx: &str) {
    let mut b = <tantivy::columnar::Dictionary>::builder(Vec::new()).unwrap();
    if let Some(bl) = block_len {
        b.set_block_len(bl);
    }
    for k in keys {
        guarded(ctx, || {
        b.insert(k, &()).unwrap();
        });
    }
    let bytes = b.finish().unwrap();
    let dict = <tantivy::columnar::Dictionary>::from_bytes(common::OwnedBytes::new(bytes)).unwrap();
    assert_eq!(dict.num_terms(), keys.len(), "{ctx}: num_terms");
    {
        let mut s = dict.stream().unwrap();
        let mut i = 0usize;
        while s.advance() {
            assert!(i < keys.len(), "{ctx}: stream yields too many keys");
            assert_eq!(s.key(), &keys[i][..], "{ctx}: stream key #{i}");
            assert_eq!(s.term_ord(), i as u64, "{ctx}: stream ord #{i}");
            i += 1;
        }
        assert_eq!(i, keys.len(), "{ctx}: stream len");
    }
    let mut buf = Vec::new();
    let step = (keys.len() / 300).max(1);
    for (i, k) in keys.iter().enumerate().step_by(step) {
        guarded(ctx, || {
        assert_eq!(dict.term_ord(k).unwrap(), Some(i as u64), "{ctx}: term_ord #{i}");
        assert_eq!(dict.get(k).unwrap(), Some(()), "{ctx}: get #{i}");
        buf.clear();
        assert!(dict.ord_to_term(i as u64, &mut buf).unwrap(), "{ctx}: ord_to_term #{i}");
        assert_eq!(&buf, k, "{ctx}: ord_to_term #{i}");
        assert_eq!(
            dict.term_ord_or_next(k).unwrap(),
            tantivy::columnar::TermOrdHit::Exact(i as u64),
            "{ctx}: term_ord_or_next exact #{i}"
        );
        });
    }
    for _ in 0..200 {
        guarded(ctx, || {
        let k = mutate_key(rng, keys);
        let pos = keys.binary_search(&k);
        assert_eq!(dict.term_ord(&k).unwrap(), pos.ok().map(|x| x as u64), "{ctx}: term_ord({k:?})");
        assert_eq!(dict.get(&k).unwrap(), pos.ok().map(|_| ()), "{ctx}: get({k:?})");
        let hit = dict.term_ord_or_next(&k).unwrap();
        match pos {
            Ok(i) => assert_eq!(hit, tantivy::columnar::TermOrdHit::Exact(i as u64), "{ctx}: term_ord_or_next({k:?})"),
            Err(i) => {
                if i < keys.len() {
                    assert_eq!(hit, tantivy::columnar::TermOrdHit::Next(i as u64), "{ctx}: term_ord_or_next({k:?})");
                } else {
                    // past the last key: documented to be "a non existing ordinal"
                    match hit {
                        tantivy::columnar::TermOrdHit::Next(o) => assert!(o >= keys.len() as u64, "{ctx}: term_ord_or_next({k:?}) past the end gave {o}"),
                        other => panic!("{ctx}: term_ord_or_next({k:?}) = {other:?}"),
                    }
                }
            }
        }
        });
    }
    // term_bounds_to_ord
    for _ in 0..100 {
        guarded(ctx, || {
        let lo = gen_bound(rng, keys);
        let hi = gen_bound(rng, keys);
        let (olo, ohi) = dict.term_bounds_to_ord(lo.clone(), hi.clone()).unwrap();
        let exp: Vec<u64> = (0..keys.len()).filter(|i| in_range(&keys[*i], &lo, &hi)).map(|i| i as u64).collect();
        let got: Vec<u64> = (0..keys.len() as u64)
            .filter(|o| {
                (match olo {
                    Bound::Included(b) => b <= *o,
                    Bound::Excluded(b) => b < *o,
                    Bound::Unbounded => true,
                }) && (match ohi {
                    Bound::Included(b) => *o <= b,
                    Bound::Excluded(b) => *o < b,
                    Bound::Unbounded => true,
                })
            })
            .collect();
        assert_eq!(got, exp, "{ctx}: term_bounds_to_ord({lo:?}, {hi:?}) = ({olo:?}, {ohi:?})");
        });
    }
    // sorted_ords_to_term_cb
    if !keys.is_empty() {
        let mut ords: Vec<u64> = (0..rng.random_range(1..50)).map(|_| rng.random_range(0..keys.len() as u64)).collect();
        ords.sort();
        let mut got = Vec::new();
        assert!(dict.sorted_ords_to_term_cb(&ords, |t| got.push(t.to_vec())).unwrap());
        let exp: Vec<Vec<u8>> = ords.iter().map(|o| keys[*o as usize].clone()).collect();
        assert_eq!(got, exp, "{ctx}: sorted_ords_to_term_cb({ords:?})");
    }
    // ranges with limit + prefix
    for _ in 0..60 {
        guarded(ctx, || {
        let lo = gen_bound(rng, keys);
        let hi = gen_bound(rng, keys);
        let limit = if rng.random_bool(0.5) { Some(rng.random_range(0..20u64)) } else { None };
        let mut rb = dict.range();
        rb = match &lo {
            Bound::Included(b) => rb.ge(b),
            Bound::Excluded(b) => rb.gt(b),
            Bound::Unbounded => rb,
        };
        rb = match &hi {
            Bound::Included(b) => rb.le(b),
            Bound::Excluded(b) => rb.lt(b),
            Bound::Unbounded => rb,
        };
        if let Some(l) = limit {
            rb = rb.limit(l);
        }
        let mut s = rb.into_stream().unwrap();
        let exp: Vec<usize> = (0..keys.len()).filter(|i| in_range(&keys[*i], &lo, &hi)).collect();
        let mut got = Vec::new();
        while s.advance() {
            let i = keys.binary_search(&s.key().to_vec()).unwrap();
            assert_eq!(s.term_ord(), i as u64, "{ctx}: range({lo:?},{hi:?}) term_ord of key #{i}");
            got.push(i);
        }
        match limit {
            None => assert_eq!(got, exp, "{ctx}: range({lo:?}, {hi:?})"),
            Some(l) => {
                // may return more than `limit`, but must be a prefix of the expected list with at least
                // min(limit, len) entries
                assert!(got.len() >= exp.len().min(l as usize), "{ctx}: range({lo:?},{hi:?}).limit({l}) returned {} of {}", got.len(), exp.len());
                assert_eq!(&got[..], &exp[..got.len()], "{ctx}: range({lo:?}, {hi:?}).limit({l})");
            }
        }
        });
    }
    for _ in 0..40 {
        guarded(ctx, || {
        let mut p = mutate_key(rng, keys);
        p.truncate(rng.random_range(0..=p.len().min(6)));
        if rng.random_bool(0.2) {
            p.push(255);
        }
        let mut s = dict.prefix_range(&p).into_stream().unwrap();
        let exp: Vec<usize> = (0..keys.len()).filter(|i| keys[*i].starts_with(&p)).collect();
        let mut got = Vec::new();
        while s.advance() {
            got.push(keys.binary_search(&s.key().to_vec()).unwrap());
        }
        assert_eq!(got, exp, "{ctx}: prefix_range({p:?})");
        });
    }
    // automata
    for (name, _, kind) in gen_automata(rng, keys) {
        guarded(ctx, || {
        let lo = if rng.random_bool(0.6) { Bound::Unbounded } else { gen_bound(rng, keys) };
        let hi = if rng.random_bool(0.6) { Bound::Unbounded } else { gen_bound(rng, keys) };
        macro_rules! run {
            ($a:expr, $b:expr) => {{
                let exp: Vec<usize> = (0..keys.len())
                    .filter(|i| in_range(&keys[*i], &lo, &hi) && automaton_matches(&$a, &keys[*i]))
                    .collect();
                let mut rb = dict.search($b);
                rb = match &lo {
                    Bound::Included(b) => rb.ge(b),
                    Bound::Excluded(b) => rb.gt(b),
                    Bound::Unbounded => rb,
                };
                rb = match &hi {
                    Bound::Included(b) => rb.le(b),
                    Bound::Excluded(b) => rb.lt(b),
                    Bound::Unbounded => rb,
                };
                let mut s = rb.into_stream().unwrap();
                let mut got = Vec::new();
                let mut ords = Vec::new();
                while s.advance() {
                    let i = keys.binary_search(&s.key().to_vec()).unwrap();
                    ords.push(s.term_ord());
                    got.push(i);
                }
                assert_eq!(got, exp, "{ctx}: search {name} in ({lo:?},{hi:?})");
                let exp_ords: Vec<u64> = exp.iter().map(|i| *i as u64).collect();
                assert_eq!(ords, exp_ords, "{ctx}: search {name} in ({lo:?},{hi:?}) term ords");
            }};
        }
        match kind {
            AutomatonKind::Lev(s, d, t, p) => run!(build_lev(&s, d, t, p), build_lev(&s, d, t, p)),
            AutomatonKind::Regex(re) => {
                run!(cached_regex(&re), cached_regex(&re))
            }
        }
        });
    }
}

const KGS: [KeyGen; 6] = [
    KeyGen::ShortAscii,
    KeyGen::LongSharedPrefix,
    KeyGen::Binary,
    KeyGen::Numbers,
    KeyGen::HugeKeys,
    KeyGen::Words,
];

fn pick_n(rng: &mut StdRng, kg: KeyGen) -> usize {
    match kg {
        KeyGen::HugeKeys => [0usize, 1, 2, 10, 60][rng.random_range(0..5)],
        _ => [0usize, 1, 2, 3, 100, 255, 256, 257, 1000, 5000, 20_000][rng.random_range(0..11)],
    }
}

#[test]
fn tantivy_termdict_random() {
    for seed in 0..120u64 {
        let mut rng = StdRng::seed_from_u64(seed);
        let kg = KGS[rng.random_range(0..KGS.len())];
        let n = pick_n(&mut rng, kg);
        let keys = gen_keys(&mut rng, kg, n);
        let tis = term_info_seq(&mut rng, keys.len());
        let model: BTreeMap<Vec<u8>, TermInfo> = keys.into_iter().zip(tis).collect();
        check_tantivy_termdict(&model, &mut rng, &format!("termdict seed={seed} kg={kg:?} n={}", model.len()));
    }
    finish("tantivy_termdict_random");
}

#[test]
fn tantivy_termdict_large() {
    let mut rng = StdRng::seed_from_u64(4242);
    let keys: BTreeSet<Vec<u8>> = (0..300_000u32).map(|_| format!("{:07}", rng.random_range(0..3_000_000)).into_bytes()).collect();
    let tis = term_info_seq(&mut rng, keys.len());
    let model: BTreeMap<Vec<u8>, TermInfo> = keys.into_iter().zip(tis).collect();
    check_tantivy_termdict(&model, &mut rng, "termdict large");
    finish("tantivy_termdict_large");
}

#[test]
fn columnar_sstable_dictionary_random() {
    for seed in 0..250u64 {
        let mut rng = StdRng::seed_from_u64(seed + 10_000);
        let kg = KGS[rng.random_range(0..KGS.len())];
        let n = pick_n(&mut rng, kg);
        let keys: Vec<Vec<u8>> = gen_keys(&mut rng, kg, n).into_iter().collect();
        let block_len = [None, None, Some(0usize), Some(1), Some(16), Some(100), Some(4000), Some(100_000)][rng.random_range(0..8)];
        let t0 = std::time::Instant::now();
        check_columnar_dict(&keys, block_len, &mut rng, &format!("sstable seed={seed} kg={kg:?} n={} block_len={block_len:?}", keys.len()));
        if t0.elapsed().as_secs() >= 2 {
            eprintln!("slow: seed={seed} kg={kg:?} n={} block_len={block_len:?} took {:?}", keys.len(), t0.elapsed());
        }
    }
    finish("columnar_sstable_dictionary_random");
}

#[test]
fn columnar_sstable_dictionary_many_blocks() {
    // > 128 blocks, and > 128*128 blocks through tiny block lengths
    let mut rng = StdRng::seed_from_u64(99);
    for (n, bl) in [(40_000usize, 0usize), (40_000, 20), (200_000, 4000), (20_000, 1)] {
        let keys: Vec<Vec<u8>> = (0..n as u32)
            .map(|_| format!("{:07}", rng.random_range(0..3_000_000)).into_bytes())
            .collect::<BTreeSet<_>>()
            .into_iter()
            .collect();
        check_columnar_dict(&keys, Some(bl), &mut rng, &format!("sstable many blocks n={n} block_len={bl}"));
    }
    finish("columnar_sstable_dictionary_many_blocks");
}
