//! C09: stored documents are returned exactly as they were added.
use std::collections::BTreeMap;
use std::net::Ipv6Addr;

use rand::rngs::StdRng;
use rand::{Rng, SeedableRng};
use tantivy::indexer::NoMergePolicy;
use tantivy::schema::*;
use tantivy::store::Compressor;
use tantivy::tokenizer::{PreTokenizedString, Token};
use tantivy::{DateTime, Index, IndexSettings, IndexWriter, TantivyDocument, Term};

struct F {
    uid: Field,
    key: Field,
    text: Field,
    u: Field,
    i: Field,
    f: Field,
    b: Field,
    d: Field,
    bytes: Field,
    ip: Field,
    facet: Field,
    json: Field,
    pretok: Field,
    not_stored: Field,
}

fn schema() -> (Schema, F) {
    let mut sb = Schema::builder();
    let uid = sb.add_u64_field("uid", FAST | STORED | INDEXED);
    let key = sb.add_u64_field("key", INDEXED);
    let text = sb.add_text_field("text", TEXT | STORED);
    let u = sb.add_u64_field("u", STORED);
    let i = sb.add_i64_field("i", STORED);
    let f = sb.add_f64_field("f", STORED);
    let b = sb.add_bool_field("b", STORED);
    let d = sb.add_date_field("d", STORED);
    let bytes = sb.add_bytes_field("bytes", STORED);
    let ip = sb.add_ip_addr_field("ip", STORED);
    let facet = sb.add_facet_field("facet", FacetOptions::default().set_stored());
    let json = sb.add_json_field("json", STORED | TEXT);
    let pretok = sb.add_text_field("pretok", TEXT | STORED);
    let not_stored = sb.add_text_field("ns", TEXT);
    (
        sb.build(),
        F {
            uid,
            key,
            text,
            u,
            i,
            f,
            b,
            d,
            bytes,
            ip,
            facet,
            json,
            pretok,
            not_stored,
        },
    )
}

fn rand_string(rng: &mut StdRng) -> String {
    let len = match rng.random_range(0..40) {
        0 => rng.random_range(10_000..60_000),
        1 => rng.random_range(127..130),
        2 => rng.random_range(16_380..16_390),
        3..=10 => 0,
        _ => rng.random_range(0..40),
    };
    let alphabet: Vec<char> = "abc xyz\u{0}\u{7f}\u{80}é漢字🦀\n\"\\".chars().collect();
    (0..len).map(|_| alphabet[rng.random_range(0..alphabet.len())]).collect()
}

fn rand_json(rng: &mut StdRng, depth: u32) -> OwnedValue {
    let leaf = depth >= 5 || rng.random_bool(0.5);
    if leaf {
        match rng.random_range(0..9) {
            0 => OwnedValue::Null,
            1 => OwnedValue::Str(rand_string(rng)),
            2 => OwnedValue::U64([0, u64::MAX, 1 << 63, 42][rng.random_range(0..4)]),
            3 => OwnedValue::I64([0, i64::MIN, i64::MAX, -1][rng.random_range(0..4)]),
            4 => OwnedValue::F64([0.5, -0.0, f64::MAX, f64::MIN_POSITIVE, 1e-300, 3.0][rng.random_range(0..6)]),
            5 => OwnedValue::Bool(rng.random_bool(0.5)),
            6 => OwnedValue::Date(DateTime::from_timestamp_nanos([0i64, -1, i64::MAX, i64::MIN, 1_700_000_000_123_456_789][rng.random_range(0..5)])),
            7 => OwnedValue::Str("2021-01-01T00:00:00Z".to_string()),
            _ => OwnedValue::Str(format!("{}", rng.random_range(0..100))),
        }
    } else if rng.random_bool(0.5) {
        let n = rng.random_range(0..4);
        OwnedValue::Array((0..n).map(|_| rand_json(rng, depth + 1)).collect())
    } else {
        let n = rng.random_range(0..4);
        let keys = ["a", "b", "a.b", "", "k\u{0}", "é", "long_key_long_key_long_key", "0"];
        let mut o: BTreeMap<String, OwnedValue> = BTreeMap::new();
        for _ in 0..n {
            o.insert(keys[rng.random_range(0..keys.len())].to_string(), rand_json(rng, depth + 1));
        }
        OwnedValue::Object(o.into_iter().collect())
    }
}

/// The model: for every field, the values in insertion order.
type MDoc = Vec<(Field, OwnedValue)>;

fn gen_doc(rng: &mut StdRng, f: &F, uid: u64, key: u64) -> (TantivyDocument, MDoc) {
    let mut doc = TantivyDocument::new();
    let mut m: MDoc = Vec::new();
    doc.add_u64(f.uid, uid);
    m.push((f.uid, OwnedValue::U64(uid)));
    doc.add_u64(f.key, key);
    doc.add_text(f.not_stored, "this is not stored");
    let empty = rng.random_range(0..15) == 0;
    let n_fields = if empty { 0 } else { rng.random_range(0..12) };
    for _ in 0..n_fields {
        match rng.random_range(0..12) {
            0 => {
                let s = rand_string(rng);
                doc.add_text(f.text, &s);
                m.push((f.text, OwnedValue::Str(s)));
            }
            1 => {
                let v = [0, 1, u64::MAX, 1 << 63, 300][rng.random_range(0..5)];
                doc.add_u64(f.u, v);
                m.push((f.u, OwnedValue::U64(v)));
            }
            2 => {
                let v = [0, -1, i64::MIN, i64::MAX, 300][rng.random_range(0..5)];
                doc.add_i64(f.i, v);
                m.push((f.i, OwnedValue::I64(v)));
            }
            3 => {
                let v = [0.0, -0.0, f64::INFINITY, f64::NEG_INFINITY, f64::MIN_POSITIVE, 1.5][rng.random_range(0..6)];
                doc.add_f64(f.f, v);
                m.push((f.f, OwnedValue::F64(v)));
            }
            4 => {
                let v = rng.random_bool(0.5);
                doc.add_bool(f.b, v);
                m.push((f.b, OwnedValue::Bool(v)));
            }
            5 => {
                let v = DateTime::from_timestamp_nanos([0i64, -1, 1, i64::MAX, i64::MIN, 1_700_000_000_123_456_789][rng.random_range(0..6)]);
                doc.add_date(f.d, v);
                m.push((f.d, OwnedValue::Date(v)));
            }
            6 => {
                let len = [0usize, 1, 127, 128, 20_000][rng.random_range(0..5)];
                let v: Vec<u8> = (0..len).map(|_| rng.random()).collect();
                doc.add_bytes(f.bytes, &v);
                m.push((f.bytes, OwnedValue::Bytes(v)));
            }
            7 => {
                let v = Ipv6Addr::from([0u128, u128::MAX, 0xffff_7f00_0001, 1 << 127][rng.random_range(0..4)]);
                doc.add_ip_addr(f.ip, v);
                m.push((f.ip, OwnedValue::IpAddr(v)));
            }
            8 => {
                let v = Facet::from(["/", "/a", "/a/b", "/é/x y", "/a/b/c/d/e"][rng.random_range(0..5)]);
                doc.add_facet(f.facet, v.clone());
                m.push((f.facet, OwnedValue::Facet(v)));
            }
            9 | 10 => {
                let n = rng.random_range(0..4);
                let keys = ["a", "b", "nested", "é", "arr"];
                let mut o: BTreeMap<String, OwnedValue> = BTreeMap::new();
                for _ in 0..n {
                    o.insert(keys[rng.random_range(0..keys.len())].to_string(), rand_json(rng, 0));
                }
                doc.add_object(f.json, o.clone());
                m.push((f.json, OwnedValue::Object(o.into_iter().collect())));
            }
            _ => {
                let text = "hello big world".to_string();
                let pt = PreTokenizedString {
                    text: text.clone(),
                    tokens: vec![
                        Token {
                            offset_from: 0,
                            offset_to: 5,
                            position: 0,
                            text: "hello".to_string(),
                            position_length: 1,
                        },
                        Token {
                            offset_from: 10,
                            offset_to: 15,
                            position: 2,
                            text: "world".to_string(),
                            position_length: 1,
                        },
                    ],
                };
                doc.add_pre_tokenized_text(f.pretok, pt.clone());
                // by design only the text of a pre-tokenized string is stored
                m.push((f.pretok, OwnedValue::Str(pt.text.clone())));
            }
        }
    }
    (doc, m)
}

fn normalize(v: &OwnedValue) -> OwnedValue {
    // f64 equality: compare by bits through a string form
    match v {
        OwnedValue::F64(x) => OwnedValue::Str(format!("f64:{:016x}", x.to_bits())),
        OwnedValue::Array(a) => OwnedValue::Array(a.iter().map(normalize).collect()),
        OwnedValue::Object(o) => OwnedValue::Object(o.iter().map(|(k, v)| (k.clone(), normalize(v))).collect()),
        other => other.clone(),
    }
}

fn doc_to_model(doc: &TantivyDocument) -> MDoc {
    doc.field_values().map(|(f, v)| (f, normalize(&OwnedValue::from(v)))).collect()
}

fn verify(index: &Index, f: &F, model: &BTreeMap<u64, (MDoc, bool)>, rng: &mut StdRng, ctx: &str) {
    let reader = index.reader().unwrap();
    reader.reload().unwrap();
    let searcher = reader.searcher();
    let mut alive_seen = 0usize;
    for (so, seg) in searcher.segment_readers().iter().enumerate() {
        let ctx = format!("{ctx} seg#{so} max_doc={} deleted={}", seg.max_doc(), seg.num_deleted_docs());
        let uid_col = seg.fast_fields().u64("uid").unwrap();
        let cache = [0usize, 1, 2, 100][rng.random_range(0..4)];
        let store = seg.get_store_reader(cache).unwrap();
        // random access order
        let mut docs: Vec<u32> = (0..seg.max_doc()).collect();
        match rng.random_range(0..3) {
            0 => {}
            1 => docs.reverse(),
            _ => {
                for a in 0..docs.len() {
                    let b = rng.random_range(a..docs.len());
                    docs.swap(a, b);
                }
            }
        }
        for d in docs {
            let uid = uid_col.first(d).unwrap();
            let (m, alive) = &model[&uid];
            if seg.is_deleted(d) {
                assert!(!alive, "{ctx}: doc {d} uid {uid} deleted but should be alive");
                continue;
            }
            assert!(*alive, "{ctx}: doc {d} uid {uid} should have been deleted");
            let got: TantivyDocument = store.get(d).unwrap_or_else(|e| panic!("{ctx}: store.get({d}) failed: {e:?}"));
            let got_m = doc_to_model(&got);
            let exp_m: MDoc = m.iter().map(|(f, v)| (*f, normalize(v))).collect();
            if got_m != exp_m {
                panic!("{ctx}: doc {d} uid {uid} differs\n got: {:?}\n exp: {:?}", trunc(&got_m), trunc(&exp_m));
            }
            assert!(got.get_first(f.not_stored).is_none(), "{ctx}: non stored field returned");
            assert!(got.get_first(f.key).is_none(), "{ctx}: non stored field returned");
            alive_seen += 1;
        }
        // iteration: live docs in doc id order
        let it_uids: Vec<u64> = store
            .iter::<TantivyDocument>(seg.alive_bitset())
            .map(|d| d.unwrap().get_first(f.uid).unwrap().as_u64().unwrap())
            .collect();
        let exp_uids: Vec<u64> = (0..seg.max_doc()).filter(|d| !seg.is_deleted(*d)).map(|d| uid_col.first(d).unwrap()).collect();
        assert_eq!(it_uids, exp_uids, "{ctx}: store iteration");
    }
    assert_eq!(alive_seen, model.values().filter(|(_, a)| *a).count(), "{ctx}: alive docs");
}

fn trunc(m: &MDoc) -> String {
    let s = format!("{m:?}");
    if s.len() > 3000 {
        format!("{}...({} chars)", &s.chars().take(3000).collect::<String>(), s.len())
    } else {
        s
    }
}

fn run(seed: u64, compressor: Compressor) {
    let mut rng = StdRng::seed_from_u64(seed);
    let (schema, f) = schema();
    let blocksize = [1usize, 50, 300, 1000, 16_384, 1_000_000][rng.random_range(0..6)];
    let dedicated = rng.random_bool(0.5);
    let settings = IndexSettings {
        docstore_compression: compressor,
        docstore_blocksize: blocksize,
        docstore_compress_dedicated_thread: dedicated,
        ..Default::default()
    };
    let index = Index::builder().schema(schema).settings(settings).create_in_ram().unwrap();
    let mut writer: IndexWriter = index.writer_with_num_threads(1, 50_000_000).unwrap();
    writer.set_merge_policy(Box::new(NoMergePolicy));
    let mut model: BTreeMap<u64, (MDoc, bool)> = BTreeMap::new();
    let mut keys: BTreeMap<u64, u64> = BTreeMap::new();
    let mut uid = 0u64;
    let rounds = rng.random_range(1..5);
    let with_deletes = rng.random_bool(0.6);
    for round in 0..rounds {
        let ctx = format!("seed={seed} comp={compressor:?} blocksize={blocksize} dedicated={dedicated} round={round}");
        let n = [1usize, 3, 10, 60, 200][rng.random_range(0..5)];
        for _ in 0..n {
            let key = rng.random_range(0..30);
            let (doc, m) = gen_doc(&mut rng, &f, uid, key);
            writer.add_document(doc).unwrap();
            model.insert(uid, (m, true));
            keys.insert(uid, key);
            uid += 1;
            if with_deletes && rng.random_range(0..25) == 0 {
                let k = rng.random_range(0..30);
                writer.delete_term(Term::from_field_u64(f.key, k));
                for (u, kk) in &keys {
                    if *kk == k {
                        model.get_mut(u).unwrap().1 = false;
                    }
                }
            }
        }
        writer.commit().unwrap();
        verify(&index, &f, &model, &mut rng, &format!("{ctx} commit"));
        if rng.random_bool(0.5) {
            let ids = index.searchable_segment_ids().unwrap();
            if ids.len() >= 2 {
                writer.merge(&ids).wait().unwrap();
                verify(&index, &f, &model, &mut rng, &format!("{ctx} merge"));
            }
        }
    }
    let ids = index.searchable_segment_ids().unwrap();
    if !ids.is_empty() {
        writer.merge(&ids).wait().unwrap();
        verify(&index, &f, &model, &mut rng, &format!("seed={seed} comp={compressor:?} blocksize={blocksize} final merge"));
    }
}

#[test]
fn store_roundtrip_none() {
    for seed in 0..60 {
        run(seed, Compressor::None);
    }
}

#[test]
fn store_roundtrip_lz4() {
    for seed in 100..160 {
        run(seed, Compressor::Lz4);
    }
}

#[cfg(feature = "zstd-compression")]
#[test]
fn store_roundtrip_zstd() {
    for seed in 200..240 {
        run(seed, Compressor::Zstd(Default::default()));
    }
}
