//! C08: columnar writer -> bytes -> reader -> merge round trips with a model.
use std::collections::BTreeSet;
use std::net::Ipv6Addr;

use rand::rngs::StdRng;
use rand::{Rng, SeedableRng};
use tantivy::columnar::{
    BytesColumn, Cardinality, Column, ColumnType, ColumnarReader, ColumnarWriter, DynamicColumn, MergeRowOrder,
    RowAddr, ShuffleMergeOrder, StackMergeOrder,
};
use tantivy::DateTime;

#[derive(Clone, Debug, PartialEq)]
enum Val {
    U64(u64),
    I64(i64),
    F64(f64),
    Bool(bool),
    Date(i64),
    Ip(u128),
    Str(String),
    Bytes(Vec<u8>),
}

#[derive(Clone, Copy, Debug, PartialEq, Eq, PartialOrd, Ord)]
enum Kind {
    U64,
    I64,
    F64,
    Bool,
    Date,
    Ip,
    Str,
    Bytes,
}

#[derive(Clone, Copy, Debug)]
enum Dist {
    Constant,
    Linear,
    LinearNoisy,
    SmallRandom,
    HugeRandom,
    Extremes,
    Steps,
}

#[derive(Clone, Copy, Debug)]
enum Density {
    Full,
    Dense,
    Half,
    Sparse,
    VerySparse,
    Multi,
    MultiSparse,
    Empty,
}

/// A model column: for each row, the values in insertion order.
#[derive(Clone, Debug)]
struct MCol {
    name: String,
    kind: Kind,
    rows: Vec<Vec<Val>>,
}

fn gen_u64(rng: &mut StdRng, dist: Dist, row: u32, base: u64) -> u64 {
    match dist {
        Dist::Constant => base,
        Dist::Linear => base.wrapping_add(row as u64 * 7),
        Dist::LinearNoisy => base.wrapping_add(row as u64 * 1000).wrapping_add(rng.random_range(0..50)),
        Dist::SmallRandom => rng.random_range(0..100),
        Dist::HugeRandom => rng.random(),
        Dist::Extremes => [0, u64::MAX, 1, u64::MAX - 1, 1 << 63, (1 << 63) - 1][rng.random_range(0..6)],
        Dist::Steps => base.wrapping_add((row as u64 / 600) * 1_000_000_000_000).wrapping_add(rng.random_range(0..3)),
    }
}

fn gen_val(rng: &mut StdRng, kind: Kind, dist: Dist, row: u32, base: u64) -> Val {
    let u = gen_u64(rng, dist, row, base);
    match kind {
        Kind::U64 => Val::U64(u),
        Kind::I64 => Val::I64(match dist {
            Dist::Extremes => [i64::MIN, i64::MAX, 0, -1, 1][rng.random_range(0..5)],
            Dist::HugeRandom => u as i64,
            _ => (u as i64).wrapping_sub(50),
        }),
        Kind::F64 => Val::F64(match dist {
            Dist::Extremes => [
                f64::NEG_INFINITY,
                f64::INFINITY,
                0.0,
                -0.0,
                f64::MIN_POSITIVE,
                f64::MAX,
                f64::MIN,
                -f64::MIN_POSITIVE,
            ][rng.random_range(0..8)],
            Dist::HugeRandom => {
                let f = f64::from_bits(u);
                if f.is_nan() {
                    1.0
                } else {
                    f
                }
            }
            _ => (u as i64 as f64) * 0.25 - 3.0,
        }),
        Kind::Bool => Val::Bool(match dist {
            Dist::Constant => base % 2 == 0,
            _ => rng.random_bool(0.5),
        }),
        Kind::Date => Val::Date(match dist {
            Dist::Extremes => [i64::MIN, i64::MAX, 0, -1][rng.random_range(0..4)],
            Dist::HugeRandom => u as i64,
            _ => (u as i64).wrapping_mul(1000),
        }),
        Kind::Ip => Val::Ip(match dist {
            Dist::Extremes => [
                0u128,
                u128::MAX,
                0xffff_0000_0000u128,
                0xffff_ffff_ffffu128,
                0xffff_7f00_0001u128,
                1 << 127,
                u64::MAX as u128,
                u64::MAX as u128 + 1,
            ][rng.random_range(0..8)],
            Dist::HugeRandom => rng.random(),
            Dist::SmallRandom => 0xffff_0a00_0000u128 + rng.random_range(0..300) as u128,
            _ => ((u as u128) << 20) + 0xffff_0000_0000u128,
        }),
        Kind::Str => Val::Str(match dist {
            Dist::Constant => "const".to_string(),
            Dist::Extremes => ["", "\u{0}", "a", "a\u{0}", "zzzz", "é", "\u{10ffff}"][rng.random_range(0..7)].to_string(),
            Dist::HugeRandom => format!("{}{}", "long-prefix-".repeat(rng.random_range(0..30)), rng.random_range(0..100000)),
            _ => format!("k{:05}", u % 3000),
        }),
        Kind::Bytes => Val::Bytes(match dist {
            Dist::Constant => vec![1, 2, 3],
            Dist::Extremes => [vec![], vec![0], vec![0, 0], vec![255], vec![255, 255], vec![0, 255]][rng.random_range(0..6)].clone(),
            Dist::HugeRandom => (0..rng.random_range(0..40)).map(|_| rng.random()).collect(),
            _ => (u % 3000).to_be_bytes().to_vec(),
        }),
    }
}

fn gen_col(rng: &mut StdRng, name: &str, kind: Kind, num_rows: u32) -> MCol {
    let dists = [
        Dist::Constant,
        Dist::Linear,
        Dist::LinearNoisy,
        Dist::SmallRandom,
        Dist::HugeRandom,
        Dist::Extremes,
        Dist::Steps,
    ];
    let densities = [
        Density::Full,
        Density::Dense,
        Density::Half,
        Density::Sparse,
        Density::VerySparse,
        Density::Multi,
        Density::MultiSparse,
        Density::Empty,
    ];
    let dist = dists[rng.random_range(0..dists.len())];
    let density = densities[rng.random_range(0..densities.len())];
    let base: u64 = [0u64, 5, 1 << 40, u64::MAX - 10_000_000][rng.random_range(0..4)];
    let mut rows = Vec::with_capacity(num_rows as usize);
    // sometimes values exist only in a sub range of the rows (whole 65536-blocks empty)
    let (lo, hi) = if rng.random_bool(0.3) {
        let a = rng.random_range(0..=num_rows);
        let b = rng.random_range(0..=num_rows);
        (a.min(b), a.max(b))
    } else {
        (0, num_rows)
    };
    for row in 0..num_rows {
        let in_range = row >= lo && row < hi;
        let n = match density {
            Density::Full => 1,
            Density::Dense => rng.random_bool(0.95) as usize,
            Density::Half => rng.random_bool(0.5) as usize,
            Density::Sparse => rng.random_bool(0.02) as usize,
            Density::VerySparse => rng.random_bool(0.0005) as usize,
            Density::Multi => rng.random_range(0..4),
            Density::MultiSparse => {
                if rng.random_bool(0.01) {
                    rng.random_range(1..5)
                } else {
                    0
                }
            }
            Density::Empty => 0,
        };
        let n = if in_range || matches!(density, Density::Full) { n } else { 0 };
        rows.push((0..n).map(|_| gen_val(rng, kind, dist, row, base)).collect());
    }
    MCol {
        name: name.to_string(),
        kind,
        rows,
    }
}

fn write_columnar(cols: &[MCol], num_rows: u32) -> Vec<u8> {
    let mut w = ColumnarWriter::default();
    for row in 0..num_rows {
        for c in cols {
            for v in &c.rows[row as usize] {
                match v {
                    Val::U64(x) => w.record_numerical(row, &c.name, *x),
                    Val::I64(x) => w.record_numerical(row, &c.name, *x),
                    Val::F64(x) => w.record_numerical(row, &c.name, *x),
                    Val::Bool(x) => w.record_bool(row, &c.name, *x),
                    Val::Date(x) => w.record_datetime(row, &c.name, DateTime::from_timestamp_nanos(*x)),
                    Val::Ip(x) => w.record_ip_addr(row, &c.name, Ipv6Addr::from(*x)),
                    Val::Str(x) => w.record_str(row, &c.name, x),
                    Val::Bytes(x) => w.record_bytes(row, &c.name, x),
                }
            }
        }
    }
    let mut out = Vec::new();
    w.serialize(num_rows, None, &mut out).unwrap();
    out
}

/// Values around `self` and the extremes of the type, used as range bounds outside of the column's domain.
trait Perturb: Sized {
    fn extras(&self) -> Vec<Self>;
}
impl Perturb for u64 {
    fn extras(&self) -> Vec<u64> {
        vec![self.wrapping_add(1), self.wrapping_sub(1), 0, u64::MAX, self / 2, self.saturating_mul(2)]
    }
}
impl Perturb for i64 {
    fn extras(&self) -> Vec<i64> {
        vec![self.wrapping_add(1), self.wrapping_sub(1), i64::MIN, i64::MAX, 0, self / 2]
    }
}
impl Perturb for f64 {
    fn extras(&self) -> Vec<f64> {
        vec![self + 0.125, self - 0.125, f64::NEG_INFINITY, f64::INFINITY, 0.0, self * 0.5, f64::MAX, f64::MIN]
    }
}
impl Perturb for bool {
    fn extras(&self) -> Vec<bool> {
        vec![true, false]
    }
}
impl Perturb for DateTime {
    fn extras(&self) -> Vec<DateTime> {
        self.into_timestamp_nanos().extras().into_iter().map(DateTime::from_timestamp_nanos).collect()
    }
}
impl Perturb for Ipv6Addr {
    fn extras(&self) -> Vec<Ipv6Addr> {
        let v = u128::from(*self);
        vec![v.wrapping_add(1), v.wrapping_sub(1), 0, u128::MAX, v / 2, v.saturating_mul(2)]
            .into_iter()
            .map(Ipv6Addr::from)
            .collect()
    }
}

fn check_typed_column<T: PartialOrd + Copy + std::fmt::Debug + Send + Sync + Perturb + 'static>(
    col: &Column<T>,
    rows: &[Vec<T>],
    rng: &mut StdRng,
    ctx: &str,
    eq: impl Fn(&T, &T) -> bool,
) {
    check_typed_column_le(col, rows, rng, ctx, eq, |a, b| a <= b)
}

fn check_typed_column_le<T: PartialOrd + Copy + std::fmt::Debug + Send + Sync + Perturb + 'static>(
    col: &Column<T>,
    rows: &[Vec<T>],
    rng: &mut StdRng,
    ctx: &str,
    eq: impl Fn(&T, &T) -> bool,
    le: impl Fn(&T, &T) -> bool,
) {
    assert_eq!(col.num_docs() as usize, rows.len(), "{ctx}: num_docs");
    let total: usize = rows.iter().map(|r| r.len()).sum();
    assert_eq!(col.values.num_vals() as usize, total, "{ctx}: num_vals");
    // cardinality consistent
    let max_per_row = rows.iter().map(|r| r.len()).max().unwrap_or(0);
    let min_per_row = rows.iter().map(|r| r.len()).min().unwrap_or(0);
    match col.get_cardinality() {
        Cardinality::Full => assert!(max_per_row <= 1 && (min_per_row == 1 || rows.is_empty()), "{ctx}: Full but rows differ"),
        Cardinality::Optional => assert!(max_per_row <= 1, "{ctx}: Optional but multi"),
        Cardinality::Multivalued => {}
    }
    let min = col.min_value();
    let max = col.max_value();
    for (row, exp) in rows.iter().enumerate() {
        let got: Vec<T> = col.values_for_doc(row as u32).collect();
        assert_eq!(got.len(), exp.len(), "{ctx}: row {row} got {got:?} expected {exp:?}");
        for (g, e) in got.iter().zip(exp) {
            assert!(eq(g, e), "{ctx}: row {row} got {got:?} expected {exp:?}");
            assert!(le(&min, g) && le(g, &max), "{ctx}: row {row} value {g:?} not within min/max {min:?}..{max:?}");
        }
        let f = col.first(row as u32);
        match (f, exp.first()) {
            (None, None) => {}
            (Some(a), Some(b)) => assert!(eq(&a, b), "{ctx}: first row {row}"),
            _ => panic!("{ctx}: first row {row}: {f:?} vs {:?}", exp.first()),
        }
    }
    // first_vals on a random batch
    if !rows.is_empty() {
        let mut docs: Vec<u32> = (0..100).map(|_| rng.random_range(0..rows.len() as u32)).collect();
        docs.sort();
        let mut out = vec![None; docs.len()];
        col.first_vals(&docs, &mut out);
        for (d, o) in docs.iter().zip(&out) {
            match (o, rows[*d as usize].first()) {
                (None, None) => {}
                (Some(a), Some(b)) => assert!(eq(a, b), "{ctx}: first_vals doc {d}"),
                (a, b) => panic!("{ctx}: first_vals doc {d}: {a:?} vs {b:?}"),
            }
        }
    }
    // value range lookups
    let mut all_vals: Vec<T> = rows.iter().flatten().copied().collect();
    if !all_vals.is_empty() {
        let mut extras = min.extras();
        extras.extend(max.extras());
        for _ in 0..4 {
            extras.extend(all_vals[rng.random_range(0..all_vals.len())].extras());
        }
        all_vals.extend(extras);
    }
    for _ in 0..16 {
        if all_vals.is_empty() {
            break;
        }
        let a = all_vals[rng.random_range(0..all_vals.len())];
        let b = all_vals[rng.random_range(0..all_vals.len())];
        let (lo, hi) = if le(&a, &b) { (a, b) } else { (b, a) };
        let (lo, hi) = match rng.random_range(0..5) {
            0 => (min, hi),
            1 => (lo, max),
            2 => (lo, lo),
            3 => (hi, hi),
            _ => (lo, hi),
        };
        let (lo, hi) = if le(&lo, &hi) { (lo, hi) } else { (hi, lo) };
        if std::env::var("HUNT_SKIP_KNOWN").is_ok() && !le(&min, &hi) {
            // known defect (range entirely below the column minimum), see findings: skip to find others
            continue;
        }
        let n = rows.len() as u32;
        let d0 = rng.random_range(0..=n);
        let d1 = rng.random_range(0..=n);
        let doc_range = if rng.random_bool(0.5) { 0..n } else { d0.min(d1)..d0.max(d1) };
        let mut got = Vec::new();
        col.get_docids_for_value_range(lo..=hi, doc_range.clone(), &mut got);
        let exp: Vec<u32> = doc_range
            .clone()
            .filter(|d| rows[*d as usize].iter().any(|v| le(&lo, v) && le(v, &hi)))
            .collect();
        if got != exp {
            let first_diff = got.iter().zip(exp.iter()).position(|(a, b)| a != b).unwrap_or(got.len().min(exp.len()));
            panic!(
                "{ctx}: get_docids_for_value_range({lo:?}..={hi:?}, {doc_range:?}) got {} docs expected {}; first diff at #{first_diff}: got {:?} expected {:?}",
                got.len(),
                exp.len(),
                got.get(first_diff),
                exp.get(first_diff)
            );
        }
    }
}

fn check_block_accessor<T: PartialOrd + Copy + std::fmt::Debug + Send + Sync + Default + 'static>(
    col: &Column<T>,
    rows: &[Vec<T>],
    rng: &mut StdRng,
    ctx: &str,
    eq: impl Fn(&T, &T) -> bool,
) {
    use tantivy::columnar::ColumnBlockAccessor;
    if rows.is_empty() {
        return;
    }
    let n = rows.len() as u32;
    let mut acc = ColumnBlockAccessor::<T>::default();
    for round in 0..12 {
        // sorted docs without duplicates: contiguous run or random subset
        let docs: Vec<u32> = if round % 2 == 0 {
            let start = rng.random_range(0..n);
            let len = rng.random_range(1..=64.min(n - start));
            (start..start + len).collect()
        } else {
            let mut d: Vec<u32> = (0..rng.random_range(1..80)).map(|_| rng.random_range(0..n)).collect();
            d.sort();
            d.dedup();
            d
        };
        acc.fetch_block(&docs, col);
        let got: Vec<(u32, T)> = acc.iter_docid_vals(&docs, col).collect();
        let exp: Vec<(u32, T)> = docs.iter().flat_map(|d| rows[*d as usize].iter().map(move |v| (*d, *v))).collect();
        assert_eq!(got.len(), exp.len(), "{ctx}: fetch_block({docs:?}) len: got {got:?} exp {exp:?}");
        for (g, e) in got.iter().zip(&exp) {
            assert!(g.0 == e.0 && eq(&g.1, &e.1), "{ctx}: fetch_block({docs:?}): got {got:?} exp {exp:?}");
        }
        let vals: Vec<T> = acc.iter_vals().collect();
        assert_eq!(vals.len(), exp.len(), "{ctx}: iter_vals len");
        // with missing
        let missing = exp.first().map(|x| x.1).unwrap_or_default();
        acc.fetch_block_with_missing(&docs, col, Some(missing));
        let mut got: Vec<(u32, T)> = acc.iter_docid_vals(&docs, col).collect();
        let mut exp2: Vec<(u32, T)> = exp.clone();
        for d in &docs {
            if rows[*d as usize].is_empty() {
                exp2.push((*d, missing));
            }
        }
        assert_eq!(got.len(), exp2.len(), "{ctx}: fetch_block_with_missing({docs:?}) len: got {got:?} exp {exp2:?}");
        // order of the appended missing docs: after the existing ones
        for (g, e) in got.drain(..).zip(&exp2) {
            assert!(g.0 == e.0 && eq(&g.1, &e.1), "{ctx}: fetch_block_with_missing({docs:?}): exp {exp2:?}");
        }
    }
    // values.get_range / get_vals / iter
    let flat: Vec<T> = rows.iter().flatten().copied().collect();
    let nv = flat.len() as u32;
    assert_eq!(col.values.num_vals(), nv);
    if nv > 0 {
        let it: Vec<T> = col.values.iter().collect();
        assert_eq!(it.len(), flat.len(), "{ctx}: values.iter len");
        for (i, (g, e)) in it.iter().zip(&flat).enumerate() {
            assert!(eq(g, e), "{ctx}: values.iter()[{i}] = {g:?} expected {e:?}");
        }
        for _ in 0..6 {
            let start = rng.random_range(0..nv);
            let len = rng.random_range(0..=(nv - start).min(700));
            let mut out = vec![T::default(); len as usize];
            col.values.get_range(start as u64, &mut out);
            for (i, g) in out.iter().enumerate() {
                assert!(eq(g, &flat[start as usize + i]), "{ctx}: get_range({start}, len {len})[{i}]");
            }
            let idx: Vec<u32> = (0..len.min(50)).map(|_| rng.random_range(0..nv)).collect();
            let mut out = vec![T::default(); idx.len()];
            col.values.get_vals(&idx, &mut out);
            for (i, g) in out.iter().enumerate() {
                assert!(eq(g, &flat[idx[i] as usize]), "{ctx}: get_vals[{i}]");
            }
        }
    }
}

fn ip_rows(rows: &[Vec<Val>]) -> Vec<Vec<Ipv6Addr>> {
    rows.iter()
        .map(|r| {
            r.iter()
                .map(|v| match v {
                    Val::Ip(x) => Ipv6Addr::from(*x),
                    _ => panic!(),
                })
                .collect()
        })
        .collect()
}

fn check_bytes_column(col: &BytesColumn, rows: &[Vec<Vec<u8>>], rng: &mut StdRng, ctx: &str) {
    // dictionary = sorted distinct values
    let distinct: BTreeSet<Vec<u8>> = rows.iter().flatten().cloned().collect();
    assert_eq!(col.num_terms(), distinct.len(), "{ctx}: num_terms");
    let dict: Vec<Vec<u8>> = distinct.into_iter().collect();
    let mut buf = Vec::new();
    for (ord, t) in dict.iter().enumerate() {
        assert!(col.ord_to_bytes(ord as u64, &mut buf).unwrap(), "{ctx}: ord {ord}");
        assert_eq!(&buf, t, "{ctx}: ord {ord}");
        assert_eq!(col.dictionary().term_ord(t).unwrap(), Some(ord as u64), "{ctx}: term_ord");
    }
    let ord_rows: Vec<Vec<u64>> = rows
        .iter()
        .map(|r| r.iter().map(|v| dict.binary_search(v).unwrap() as u64).collect())
        .collect();
    assert_eq!(col.num_rows() as usize, rows.len(), "{ctx}: num_rows");
    check_typed_column(col.ords(), &ord_rows, rng, &format!("{ctx} (ords)"), |a, b| a == b);
    for (row, exp) in ord_rows.iter().enumerate().take(2000) {
        let got: Vec<u64> = col.term_ords(row as u32).collect();
        assert_eq!(&got, exp, "{ctx}: term_ords row {row}");
    }
}

fn check_reader(reader: &ColumnarReader, cols: &[MCol], num_rows: u32, rng: &mut StdRng, ctx: &str, expected_types: Option<&[(String, ColumnType)]>) {
    assert_eq!(reader.num_docs(), num_rows, "{ctx}: num_docs");
    for c in cols {
        let ctx = format!("{ctx} col={} kind={:?}", c.name, c.kind);
        let handles = reader.read_columns(&c.name).unwrap();
        let has_values = c.rows.iter().any(|r| !r.is_empty());
        let category_matches = |t: ColumnType| match c.kind {
            Kind::U64 | Kind::I64 | Kind::F64 => matches!(t, ColumnType::U64 | ColumnType::I64 | ColumnType::F64),
            Kind::Bool => t == ColumnType::Bool,
            Kind::Date => t == ColumnType::DateTime,
            Kind::Ip => t == ColumnType::IpAddr,
            Kind::Str => t == ColumnType::Str,
            Kind::Bytes => t == ColumnType::Bytes,
        };
        let mine: Vec<_> = handles.into_iter().filter(|h| category_matches(h.column_type())).collect();
        if !has_values {
            // the column may be absent, or present and empty
            for h in mine {
                let dc = h.open().unwrap();
                assert_eq!(dc.num_values(), 0, "{ctx}: empty column has values");
            }
            continue;
        }
        assert_eq!(mine.len(), 1, "{ctx}: expected exactly one column, got {}", mine.len());
        if let Some(expected_types) = expected_types {
            if let Some((_, t)) = expected_types.iter().find(|(n, t)| n == &c.name && category_matches(*t)) {
                assert_eq!(mine[0].column_type(), *t, "{ctx}: required type");
            }
        }
        let dc = mine[0].open().unwrap();
        let total: usize = c.rows.iter().map(|r| r.len()).sum();
        assert_eq!(dc.num_values() as usize, total, "{ctx}: num_values");
        match dc {
            DynamicColumn::U64(col) => {
                let rows: Vec<Vec<u64>> = c
                    .rows
                    .iter()
                    .map(|r| {
                        r.iter()
                            .map(|v| match v {
                                Val::U64(x) => *x,
                                Val::I64(x) => {
                                    assert!(*x >= 0, "{ctx}: i64 {x} coerced to u64");
                                    *x as u64
                                }
                                _ => panic!("{ctx}: {v:?} in u64 column"),
                            })
                            .collect()
                    })
                    .collect();
                check_typed_column(&col, &rows, rng, &ctx, |a, b| a == b);
                check_block_accessor(&col, &rows, rng, &ctx, |a, b| a == b);
            }
            DynamicColumn::I64(col) => {
                let rows: Vec<Vec<i64>> = c
                    .rows
                    .iter()
                    .map(|r| {
                        r.iter()
                            .map(|v| match v {
                                Val::I64(x) => *x,
                                Val::U64(x) => {
                                    assert!(*x <= i64::MAX as u64, "{ctx}: u64 {x} coerced to i64");
                                    *x as i64
                                }
                                _ => panic!("{ctx}: {v:?} in i64 column"),
                            })
                            .collect()
                    })
                    .collect();
                check_typed_column(&col, &rows, rng, &ctx, |a, b| a == b);
                check_block_accessor(&col, &rows, rng, &ctx, |a, b| a == b);
            }
            DynamicColumn::F64(col) => {
                let rows: Vec<Vec<f64>> = c
                    .rows
                    .iter()
                    .map(|r| {
                        r.iter()
                            .map(|v| match v {
                                Val::F64(x) => *x,
                                Val::I64(x) => *x as f64,
                                Val::U64(x) => *x as f64,
                                _ => panic!("{ctx}: {v:?} in f64 column"),
                            })
                            .collect()
                    })
                    .collect();
                check_typed_column_le(&col, &rows, rng, &ctx, |a, b| a.to_bits() == b.to_bits(), |a, b| a.total_cmp(b) != std::cmp::Ordering::Greater);
                check_block_accessor(&col, &rows, rng, &ctx, |a, b| a.to_bits() == b.to_bits());
            }
            DynamicColumn::Bool(col) => {
                let rows: Vec<Vec<bool>> = c
                    .rows
                    .iter()
                    .map(|r| {
                        r.iter()
                            .map(|v| match v {
                                Val::Bool(x) => *x,
                                _ => panic!(),
                            })
                            .collect()
                    })
                    .collect();
                check_typed_column(&col, &rows, rng, &ctx, |a, b| a == b);
                check_block_accessor(&col, &rows, rng, &ctx, |a, b| a == b);
            }
            DynamicColumn::DateTime(col) => {
                let rows: Vec<Vec<DateTime>> = c
                    .rows
                    .iter()
                    .map(|r| {
                        r.iter()
                            .map(|v| match v {
                                Val::Date(x) => DateTime::from_timestamp_nanos(*x),
                                _ => panic!(),
                            })
                            .collect()
                    })
                    .collect();
                check_typed_column(&col, &rows, rng, &ctx, |a, b| a == b);
                check_block_accessor(&col, &rows, rng, &ctx, |a, b| a == b);
            }
            DynamicColumn::IpAddr(col) => {
                let rows = ip_rows(&c.rows);
                check_typed_column(&col, &rows, rng, &ctx, |a, b| a == b);
            }
            DynamicColumn::Str(col) => {
                let rows: Vec<Vec<Vec<u8>>> = c
                    .rows
                    .iter()
                    .map(|r| {
                        r.iter()
                            .map(|v| match v {
                                Val::Str(x) => x.as_bytes().to_vec(),
                                _ => panic!(),
                            })
                            .collect()
                    })
                    .collect();
                let bc: BytesColumn = col.into();
                check_bytes_column(&bc, &rows, rng, &ctx);
            }
            DynamicColumn::Bytes(col) => {
                let rows: Vec<Vec<Vec<u8>>> = c
                    .rows
                    .iter()
                    .map(|r| {
                        r.iter()
                            .map(|v| match v {
                                Val::Bytes(x) => x.clone(),
                                _ => panic!(),
                            })
                            .collect()
                    })
                    .collect();
                check_bytes_column(&col, &rows, rng, &ctx);
            }
        }
    }
}

const KINDS: [Kind; 8] = [Kind::U64, Kind::I64, Kind::F64, Kind::Bool, Kind::Date, Kind::Ip, Kind::Str, Kind::Bytes];

fn col_name(kind: Kind, i: usize) -> String {
    // numerical kinds share a name to force coercion across columnars
    match kind {
        Kind::U64 | Kind::I64 | Kind::F64 => format!("num{i}"),
        _ => format!("{kind:?}{i}").to_lowercase(),
    }
}

fn gen_columnar(rng: &mut StdRng, num_rows: u32) -> Vec<MCol> {
    let mut cols = Vec::new();
    let ncols = rng.random_range(1..6);
    let mut used = BTreeSet::new();
    for _ in 0..ncols {
        let kind = KINDS[rng.random_range(0..KINDS.len())];
        let name = col_name(kind, rng.random_range(0..2));
        if !used.insert(name.clone()) {
            continue;
        }
        cols.push(gen_col(rng, &name, kind, num_rows));
    }
    cols
}

fn numeric_class(kind: Kind) -> u8 {
    match kind {
        Kind::U64 | Kind::I64 | Kind::F64 => 0,
        k => 1 + k as u8,
    }
}

/// Expected merged model columns: group by (name, category).
fn merged_model(inputs: &[(Vec<MCol>, u32)], order: &[(usize, u32)]) -> Vec<MCol> {
    let mut keys: BTreeSet<(String, u8)> = BTreeSet::new();
    for (cols, _) in inputs {
        for c in cols {
            keys.insert((c.name.clone(), numeric_class(c.kind)));
        }
    }
    let mut out = Vec::new();
    for (name, class) in keys {
        let mut kind = None;
        let rows: Vec<Vec<Val>> = order
            .iter()
            .map(|(seg, row)| {
                inputs[*seg]
                    .0
                    .iter()
                    .find(|c| c.name == name && numeric_class(c.kind) == class)
                    .map(|c| {
                        kind = Some(c.kind);
                        c.rows[*row as usize].clone()
                    })
                    .unwrap_or_default()
            })
            .collect();
        let kind = kind.unwrap_or_else(|| {
            inputs.iter().flat_map(|(c, _)| c.iter()).find(|c| c.name == name && numeric_class(c.kind) == class).unwrap().kind
        });
        out.push(MCol { name, kind, rows });
    }
    out
}

fn pick_rows(rng: &mut StdRng) -> u32 {
    let special = [0u32, 1, 2, 63, 64, 65, 127, 128, 129, 511, 512, 513, 1000, 1024, 4096];
    let big = [65_535u32, 65_536, 65_537, 70_000, 131_071, 131_072, 131_073, 140_000];
    match rng.random_range(0..40) {
        0 => big[rng.random_range(0..big.len())],
        1..=20 => special[rng.random_range(0..special.len())],
        _ => rng.random_range(0..3000),
    }
}

fn run_seed(seed: u64) {
    let mut rng = StdRng::seed_from_u64(seed);
    let n_inputs = rng.random_range(1..5);
    let mut inputs: Vec<(Vec<MCol>, u32)> = Vec::new();
    let mut readers = Vec::new();
    for i in 0..n_inputs {
        let num_rows = pick_rows(&mut rng);
        let cols = gen_columnar(&mut rng, num_rows);
        let bytes = write_columnar(&cols, num_rows);
        let reader = ColumnarReader::open(bytes).unwrap();
        check_reader(&reader, &cols, num_rows, &mut rng, &format!("seed={seed} input#{i} rows={num_rows}"), None);
        inputs.push((cols, num_rows));
        readers.push(reader);
    }
    let reader_refs: Vec<&ColumnarReader> = readers.iter().collect();
    // --- stack
    {
        let order: Vec<(usize, u32)> = inputs
            .iter()
            .enumerate()
            .flat_map(|(seg, (_, n))| (0..*n).map(move |r| (seg, r)))
            .collect();
        let model = merged_model(&inputs, &order);
        let mut out = Vec::new();
        tantivy::columnar::merge_columnar(
            &reader_refs,
            &[],
            MergeRowOrder::Stack(StackMergeOrder::stack(&reader_refs)),
            &mut out,
        )
        .unwrap_or_else(|e| panic!("seed={seed} stack merge failed {e:?}"));
        let merged = ColumnarReader::open(out).unwrap();
        check_reader(&merged, &model, order.len() as u32, &mut rng, &format!("seed={seed} stack-merged"), None);
    }
    // --- shuffle with deletes
    for variant in 0..2 {
        let p_alive = [1.0, 0.9, 0.5, 0.05][rng.random_range(0..4)];
        let mut order: Vec<(usize, u32)> = Vec::new();
        let mut alive_bitsets = Vec::new();
        for (seg, (_, n)) in inputs.iter().enumerate() {
            let mut bs = common::BitSet::with_max_value(*n);
            let no_deletes = rng.random_bool(0.3);
            for r in 0..*n {
                if no_deletes || rng.random_bool(p_alive) {
                    bs.insert(r);
                    order.push((seg, r));
                }
            }
            if no_deletes && rng.random_bool(0.5) {
                alive_bitsets.push(None);
            } else {
                let mut buffer = Vec::new();
                bs.serialize(&mut buffer).unwrap();
                alive_bitsets.push(Some(common::ReadOnlyBitSet::open(common::OwnedBytes::new(buffer))));
            }
        }
        if variant == 0 {
            // random permutation
            for i in 0..order.len() {
                let j = rng.random_range(i..order.len());
                order.swap(i, j);
            }
        } // variant 1: stacked with deletes (sorted addresses)
        let model = merged_model(&inputs, &order);
        let mut out = Vec::new();
        tantivy::columnar::merge_columnar(
            &reader_refs,
            &[],
            MergeRowOrder::Shuffled(ShuffleMergeOrder {
                new_row_id_to_old_row_id: order
                    .iter()
                    .map(|(seg, row)| RowAddr {
                        segment_ord: *seg as u32,
                        row_id: *row,
                    })
                    .collect(),
                alive_bitsets,
            }),
            &mut out,
        )
        .unwrap_or_else(|e| panic!("seed={seed} shuffle merge failed {e:?}"));
        let merged = ColumnarReader::open(out).unwrap();
        check_reader(
            &merged,
            &model,
            order.len() as u32,
            &mut rng,
            &format!("seed={seed} shuffle-merged variant={variant} p_alive={p_alive}"),
            None,
        );
    }
}

#[test]
fn columnar_roundtrip_and_merge_a() {
    for seed in 0..150 {
        run_seed(seed);
    }
}
#[test]
fn columnar_roundtrip_and_merge_b() {
    for seed in 150..300 {
        run_seed(seed);
    }
}
#[test]
fn columnar_roundtrip_and_merge_c() {
    for seed in 300..450 {
        run_seed(seed);
    }
}
#[test]
fn columnar_roundtrip_and_merge_d() {
    for seed in 450..600 {
        run_seed(seed);
    }
}
