//! C15 demo (minor): "building rejects or never silently accepts keys that are out of order".
//!
//! The sstable writer checks `key > previous_key` with
//! `... || self.previous_key.is_empty() || ...` (sstable/src/lib.rs, `Writer::insert_key`), so when the
//! previous key is the empty key every following key is accepted, including a second empty key.
//! The resulting dictionary contains the same key twice, with two different ordinals.
//! (Any other duplicate is rejected with a panic, see the second test.)

fn build(keys: &[&[u8]]) -> std::thread::Result<tantivy::columnar::Dictionary> {
    let keys: Vec<Vec<u8>> = keys.iter().map(|k| k.to_vec()).collect();
    std::panic::catch_unwind(move || {
        let mut builder = <tantivy::columnar::Dictionary>::builder(Vec::new()).unwrap();
        for key in &keys {
            builder.insert(key, &()).unwrap();
        }
        <tantivy::columnar::Dictionary>::from_bytes(common::OwnedBytes::new(builder.finish().unwrap())).unwrap()
    })
}

#[test]
fn duplicate_empty_key_must_be_rejected() {
    match build(&[b"", b"", b"a"]) {
        Err(_) => {} // rejected: fine
        Ok(dict) => {
            let mut keys = Vec::new();
            let mut stream = dict.stream().unwrap();
            while stream.advance() {
                keys.push((stream.key().to_vec(), stream.term_ord()));
            }
            panic!(
                "the non strictly increasing key sequence [\"\", \"\", \"a\"] was silently accepted: num_terms={} stream={:?}",
                dict.num_terms(),
                keys
            );
        }
    }
}

#[test]
fn other_duplicates_are_rejected() {
    assert!(build(&[b"a", b"a"]).is_err());
    assert!(build(&[b"", b"a", b"a"]).is_err());
    assert!(build(&[b"b", b"a"]).is_err());
}
