// F42 (C17 / C08): ColumnarWriter::sort_order reads the entry of a date column out of
// `datetime_field_hash_map` as a NumericalColumnWriter (32 bytes) although record_datetime stores a
// ColumnWriter (28 bytes): MemoryArena::slice is unchecked, so when the entry is the last thing of
// its 1 MiB arena page the read goes 4 bytes past the allocation.
// Run under Miri:  cargo +nightly miri run   (plain `cargo run` reads the 4 bytes silently)
use tantivy_columnar::ColumnarWriter;
use tantivy_common::DateTime;

const PAGE_SIZE: usize = 1 << 20;
const ENTRY_OVERHEAD: usize = 2 + 28; // key length prefix + size_of::<ColumnWriter>()

fn main() {
    let mut writer = ColumnarWriter::default();
    // 16 entries that fill the first arena page of the datetime map exactly
    let mut remaining = PAGE_SIZE - 16 * ENTRY_OVERHEAD;
    let mut names: Vec<String> = Vec::new();
    for i in 0..16 {
        let len = remaining.min(65_535);
        remaining -= len;
        let mut name = String::with_capacity(len);
        name.push((b'a' + i as u8) as char);
        while name.len() < len {
            name.push('x');
        }
        names.push(name);
    }
    assert_eq!(remaining, 0);
    for name in &names {
        writer.record_datetime(0u32, name, DateTime::from_timestamp_secs(1_600_000_000));
    }
    let last = names.last().unwrap();
    println!("sorting by the date column whose entry ends the arena page (name of {} bytes)", last.len());
    let order = writer.sort_order(last, 1, false);
    println!("sort order: {order:?}");
}
