//! F6 (later passes): a deeply nested AST that was parsed on a big-stack thread overflows the
//! stack of an ordinary worker thread in the QueryParser passes (compute_logical_ast*, trim_ast,
//! convert_to_query, simplify ...), which recurse over the same depth without a bound.
use tantivy::query::QueryParser;
use tantivy::schema::*;
use tantivy::Index;
fn main() {
    let n: usize = std::env::args().nth(1).and_then(|s| s.parse().ok()).unwrap_or(3000);
    let q = format!("{}c{}", "(a -b ".repeat(n), ")".repeat(n));
    let ast = std::thread::Builder::new().stack_size(1 << 30).spawn(move || tantivy_query_grammar::parse_query(&q).unwrap()).unwrap().join().unwrap();
    eprintln!("parsed depth {n} on a 1 GiB stack");
    let mut sb = Schema::builder();
    let text = sb.add_text_field("text", TEXT);
    let index = Index::create_in_ram(sb.build());
    let qp = QueryParser::for_index(&index, vec![text]);
    let h = std::thread::Builder::new().stack_size(2 << 20).spawn(move || {
        let r = qp.build_query_from_user_input_ast(ast);
        eprintln!("built: {}", r.is_ok());
        std::mem::forget(r);
    }).unwrap();
    h.join().unwrap();
}
