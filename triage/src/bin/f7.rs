use tantivy::query::QueryParser;
use tantivy::schema::*;
use tantivy::snippet::SnippetGenerator;
use tantivy::tokenizer::{NgramTokenizer, TextAnalyzer};
use tantivy::{doc, Index, IndexWriter};
fn main() -> tantivy::Result<()> {
    let mut sb = Schema::builder();
    let opts = TextOptions::default().set_indexing_options(
        TextFieldIndexing::default().set_tokenizer("ngram").set_index_option(IndexRecordOption::WithFreqsAndPositions)).set_stored();
    let text = sb.add_text_field("text", opts);
    let index = Index::create_in_ram(sb.build());
    index.tokenizers().register("ngram", TextAnalyzer::from(NgramTokenizer::all_ngrams(1, 3)?));
    let mut w: IndexWriter = index.writer_with_num_threads(1, 20_000_000)?;
    w.add_document(doc!(text=>"abcdef"))?;
    w.commit()?;
    let searcher = index.reader()?.searcher();
    let qp = QueryParser::for_index(&index, vec![text]);
    let max: usize = std::env::args().nth(1).unwrap().parse().unwrap();
    let qs = std::env::args().nth(2).unwrap();
    let q = qp.parse_query(&qs)?;
    let mut g = SnippetGenerator::create(&searcher, &*q, text)?;
    g.set_max_num_chars(max);
    let s = g.snippet("abcdef");
    println!("fragment={:?} highlighted={:?}", s.fragment(), s.highlighted());
    println!("html={}", s.to_html());
    Ok(())
}
