//! F12 candidate (C12): PhrasePrefixQuery builds its Bm25Weight from `searcher` while TermQuery,
//! PhraseQuery and RegexPhraseQuery use the `statistics_provider` of EnableScoring::Enabled. Under
//! Searcher::search_with_statistics_provider the clauses of one query are scored on different statistics.
use tantivy::collector::TopDocs;
use tantivy::query::{Bm25StatisticsProvider, PhrasePrefixQuery, PhraseQuery, Query, TermQuery};
use tantivy::schema::*;
use tantivy::{doc, Index, IndexWriter, Searcher};
struct Scaled<'a>(&'a Searcher, u64);
impl Bm25StatisticsProvider for Scaled<'_> {
    fn total_num_tokens(&self, field: Field) -> tantivy::Result<u64> { Ok(self.0.total_num_tokens(field)? * self.1) }
    fn total_num_docs(&self) -> tantivy::Result<u64> { Ok(self.0.total_num_docs()? * self.1) }
    fn doc_freq(&self, term: &Term) -> tantivy::Result<u64> { self.0.doc_freq(term) }
}
fn main() -> tantivy::Result<()> {
    let mut sb = Schema::builder();
    let f = sb.add_text_field("f", TEXT);
    let index = Index::create_in_ram(sb.build());
    let mut w: IndexWriter = index.writer_with_num_threads(1, 20_000_000)?;
    for i in 0..50 { w.add_document(doc!(f => if i % 5 == 0 { "big wolf barks" } else { "small cat purrs" }))?; }
    w.commit()?;
    let searcher = index.reader()?.searcher();
    let t = |s: &str| Term::from_field_text(f, s);
    let queries: Vec<(&str, Box<dyn Query>)> = vec![
        ("term `wolf`", Box::new(TermQuery::new(t("wolf"), IndexRecordOption::WithFreqs))),
        ("phrase `big wolf`", Box::new(PhraseQuery::new(vec![t("big"), t("wolf")]))),
        ("phrase-prefix `big wol`*", Box::new(PhrasePrefixQuery::new(vec![t("big"), t("wol")]))),
        ("phrase-prefix `big wolf bar`*", Box::new(PhrasePrefixQuery::new(vec![t("big"), t("wolf"), t("bar")]))),
    ];
    let provider = Scaled(&searcher, 1000);
    let mut deviants = 0;
    for (name, q) in &queries {
        let own = searcher.search(q.as_ref(), &TopDocs::with_limit(1).order_by_score())?[0].0;
        let with = searcher.search_with_statistics_provider(q.as_ref(), &TopDocs::with_limit(1).order_by_score(), &provider)?[0].0;
        let follows = (own - with).abs() > 1e-3;
        println!("{name:28} own statistics {own:.4}   provider (x1000 corpus) {with:.4}   {}", if follows { "follows the provider" } else { "IGNORES the provider" });
        if !follows { deviants += 1; }
    }
    println!("deviants={deviants}");
    Ok(())
}
