fn main() {
    let n: usize = std::env::args().nth(1).unwrap().parse().unwrap();
    let mb: usize = std::env::args().nth(2).unwrap().parse().unwrap();
    let q = format!("{}c{}", "(a -b ".repeat(n), ")".repeat(n));
    let h = std::thread::Builder::new().stack_size(mb << 20).spawn(move || {
        let t = std::time::Instant::now();
        let r = tantivy_query_grammar::parse_query(&q);
        eprintln!("strict n={} ok={} in {:?}", n, r.is_ok(), t.elapsed());
        std::mem::forget(r);
    }).unwrap();
    h.join().unwrap();
}
