//! F9: DisjunctionMaxQuery over plain term queries: TopDocs (for_each_pruning -> block_wand) sums
//! the clause scores, while scorer()/explain() use the DisjunctionMaxCombiner (max + tie_breaker * rest).
use tantivy::collector::TopDocs;
use tantivy::query::{DisjunctionMaxQuery, Query, TermQuery, Weight, EnableScoring};
use tantivy::schema::*;
use tantivy::{doc, DocSet, Index, IndexWriter, TERMINATED};
fn main() -> tantivy::Result<()> {
    let mut sb = Schema::builder();
    let title = sb.add_text_field("title", TEXT);
    let body = sb.add_text_field("body", TEXT);
    let index = Index::create_in_ram(sb.build());
    let mut w: IndexWriter = index.writer_with_num_threads(1, 20_000_000)?;
    for i in 0..20 {
        w.add_document(doc!(title => if i % 2 == 0 { "rust search" } else { "other" }, body => if i % 3 == 0 { "rust rust engine" } else { "nothing here" }))?;
    }
    w.commit()?;
    let searcher = index.reader()?.searcher();
    let tq = |f, t: &str| -> Box<dyn Query> { Box::new(TermQuery::new(Term::from_field_text(f, t), IndexRecordOption::WithFreqs)) };
    let q = DisjunctionMaxQuery::with_tie_breaker(vec![tq(title, "rust"), tq(body, "rust")], 0.0);
    let top = searcher.search(&q, &TopDocs::with_limit(3).order_by_score())?;
    let weight = q.weight(EnableScoring::enabled_from_searcher(&searcher))?;
    for (score, addr) in top {
        let reader = searcher.segment_reader(addr.segment_ord);
        let mut scorer = weight.scorer(reader, 1.0)?;
        assert!(scorer.seek(addr.doc_id) == addr.doc_id && addr.doc_id != TERMINATED);
        let expl = q.explain(&searcher, addr)?;
        println!("doc {:?}: TopDocs score={:.6}  scorer()={:.6}  explain()={:.6}  {}", addr.doc_id, score, scorer.score(), expl.value(),
                 if (score - scorer.score()).abs() > 1e-6 { "MISMATCH" } else { "ok" });
    }
    Ok(())
}
