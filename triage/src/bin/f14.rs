//! F13 candidate (C11): prepare_commit() first installs a fresh (alive) IndexWriterStatus and only then
//! joins the workers, returning at the first failed one. After a commit that failed because an indexing
//! worker hit an I/O error, the same writer is alive again but has lost its workers: add_document()
//! returns Ok, the documents sit in the channel, and the next commit() returns Ok without them.
use std::io::{self, Write};
use std::path::Path;
use std::sync::atomic::{AtomicBool, Ordering};
use std::sync::Arc;
use tantivy::collector::Count;
use tantivy::directory::error::{DeleteError, OpenReadError, OpenWriteError};
use tantivy::directory::{AntiCallToken, Directory, FileHandle, RamDirectory, TerminatingWrite, WatchCallback, WatchHandle, WritePtr};
use tantivy::query::AllQuery;
use tantivy::schema::{Schema, STORED, TEXT};
use tantivy::{doc, Index, IndexSettings, IndexWriter, ReloadPolicy};

#[derive(Clone)]
struct FaultyDirectory { inner: RamDirectory, armed: Arc<AtomicBool> }
impl std::fmt::Debug for FaultyDirectory { fn fmt(&self, f: &mut std::fmt::Formatter<'_>) -> std::fmt::Result { write!(f, "FaultyDirectory") } }
struct FaultyWriter { inner: WritePtr, armed: Arc<AtomicBool> }
impl Write for FaultyWriter {
    fn write(&mut self, buf: &[u8]) -> io::Result<usize> {
        let on_worker = std::thread::current().name().map(|n| n.starts_with("thrd-tantivy-index")).unwrap_or(false);
        if on_worker && self.armed.load(Ordering::SeqCst) { return Err(io::Error::new(io::ErrorKind::Other, "injected write fault")); }
        self.inner.write(buf)
    }
    fn flush(&mut self) -> io::Result<()> { self.inner.flush() }
}
impl TerminatingWrite for FaultyWriter { fn terminate_ref(&mut self, token: AntiCallToken) -> io::Result<()> { self.inner.terminate_ref(token) } }
impl Directory for FaultyDirectory {
    fn get_file_handle(&self, path: &Path) -> Result<Arc<dyn FileHandle>, OpenReadError> { self.inner.get_file_handle(path) }
    fn delete(&self, path: &Path) -> Result<(), DeleteError> { self.inner.delete(path) }
    fn exists(&self, path: &Path) -> Result<bool, OpenReadError> { self.inner.exists(path) }
    fn open_write(&self, path: &Path) -> Result<WritePtr, OpenWriteError> {
        let inner = self.inner.open_write(path)?;
        Ok(io::BufWriter::new(Box::new(FaultyWriter { inner, armed: self.armed.clone() })))
    }
    fn atomic_read(&self, path: &Path) -> Result<Vec<u8>, OpenReadError> { self.inner.atomic_read(path) }
    fn atomic_write(&self, path: &Path, data: &[u8]) -> io::Result<()> { self.inner.atomic_write(path, data) }
    fn sync_directory(&self) -> io::Result<()> { self.inner.sync_directory() }
    fn watch(&self, cb: WatchCallback) -> tantivy::Result<WatchHandle> { self.inner.watch(cb) }
}
fn main() -> tantivy::Result<()> {
    let mut sb = Schema::builder();
    let text = sb.add_text_field("text", TEXT | STORED);
    let armed = Arc::new(AtomicBool::new(false));
    let index = Index::create(FaultyDirectory { inner: RamDirectory::create(), armed: armed.clone() }, sb.build(), IndexSettings::default())?;
    let reader = index.reader_builder().reload_policy(ReloadPolicy::Manual).try_into()?;
    let mut writer: IndexWriter = index.writer_with_num_threads(1, 20_000_000)?;
    for i in 0..100 { writer.add_document(doc!(text => format!("first {i}")))?; }
    println!("commit #1 -> {:?}", writer.commit().map(|_| "Ok"));
    for i in 0..100 { writer.add_document(doc!(text => format!("second {i}")))?; }
    armed.store(true, Ordering::SeqCst);          // the worker's segment flush at commit time fails
    println!("commit #2 (worker write fault) -> {:?}", writer.commit().map(|_| "Ok").map_err(|e| e.to_string()));
    armed.store(false, Ordering::SeqCst);         // the storage works again; the caller keeps using the writer
    let mut accepted = 0;
    for i in 0..50 { if writer.add_document(doc!(text => format!("third {i}"))).is_ok() { accepted += 1; } }
    println!("after the failed commit: add_document accepted {accepted} of 50 documents");
    let c3 = writer.commit().map(|_| "Ok").map_err(|e| e.to_string());
    println!("commit #3 -> {c3:?}");
    reader.reload()?;
    let n = reader.searcher().search(&AllQuery, &Count)?;
    println!("documents searchable after commit #3: {n} (commit #1 had 100; {accepted} more were acknowledged before an Ok commit)");
    if c3.is_ok() && n < 100 + accepted { println!("DEFECT: commit returned Ok but {} acknowledged documents are missing", 100 + accepted - n); }
    Ok(())
}
