//! F11 candidate (C13): BufferedUnionScorer::fill_buffer drains documents from the window without
//! clearing their score-combiner slots (advance and seek both do). After a fill_buffer, documents of
//! the next window that land on the same slots are scored with the stale contributions summed in.
use tantivy::query::{BooleanQuery, Occur, Query, TermQuery, EnableScoring};
use tantivy::schema::*;
use tantivy::{doc, DocSet, Index, IndexWriter, TERMINATED, COLLECT_BLOCK_BUFFER_LEN};
fn main() -> tantivy::Result<()> {
    let mut sb = Schema::builder();
    let f = sb.add_text_field("f", TEXT);
    let index = Index::create_in_ram(sb.build());
    let mut w: IndexWriter = index.writer_with_num_threads(1, 50_000_000)?;
    for i in 0..10_000u32 {
        // every doc matches `a` or `b` (alternating), some match both
        let text = match i % 3 { 0 => "a", 1 => "b", _ => "a b" };
        w.add_document(doc!(f => text))?;
    }
    w.commit()?;
    let searcher = index.reader()?.searcher();
    assert_eq!(searcher.segment_readers().len(), 1);
    let tq = |s: &str| -> Box<dyn Query> { Box::new(TermQuery::new(Term::from_field_text(f, s), IndexRecordOption::WithFreqs)) };
    let q = BooleanQuery::new(vec![(Occur::Should, tq("a")), (Occur::Should, tq("b"))]);
    let weight = q.weight(EnableScoring::enabled_from_searcher(&searcher))?;
    let reader = searcher.segment_reader(0);
    // reference: advance only
    let mut reference = vec![];
    let mut s = weight.scorer(reader, 1.0)?;
    let mut d = s.doc();
    while d != TERMINATED { reference.push((d, s.score())); d = s.advance(); }
    // program: one fill_buffer, then advance
    let mut s = weight.scorer(reader, 1.0)?;
    let mut buf = [0u32; COLLECT_BLOCK_BUFFER_LEN];
    let n = s.fill_buffer(&mut buf);
    println!("fill_buffer returned {n} docs, current doc {}", s.doc());
    let mut mismatches = 0;
    let mut d = s.doc();
    let mut shown = 0;
    while d != TERMINATED {
        let sc = s.score();
        let exp = reference.iter().find(|(x, _)| *x == d).map(|x| x.1);
        match exp {
            Some(e) if (e - sc).abs() < 1e-6 => {}
            other => { mismatches += 1; if shown < 5 { println!("doc {d}: score after fill_buffer+advance = {sc}, advance-only = {other:?}"); shown += 1; } }
        }
        d = s.advance();
    }
    println!("mismatches={mismatches} of {}", reference.len());
    Ok(())
}
