//! F10 (C13): BufferedUnionScorer::seek_danger calls seek_danger on its children and, when one of them
//! returns Found, goes through self.seek(target), which reads `doc()` of children that answered
//! SeekLowerBound (left in the "invalid" state the contract allows). A PhraseScorer whose
//! intersection matched only on its first term then reports doc() == target and is refilled into
//! the window with the phrase count of its *previous* match: the score of the document depends on
//! how it was reached (advance through an Intersection vs. seek from a fresh scorer / explain).
use tantivy::collector::TopDocs;
use tantivy::query::{BooleanQuery, Occur, PhraseQuery, Query, TermQuery, EnableScoring};
use tantivy::schema::*;
use tantivy::{doc, DocSet, Index, IndexWriter, TERMINATED};
fn main() -> tantivy::Result<()> {
    let mut sb = Schema::builder();
    let f = sb.add_text_field("f", TEXT);
    let index = Index::create_in_ram(sb.build());
    let mut w: IndexWriter = index.writer_with_num_threads(1, 50_000_000)?;
    let far: u32 = std::env::args().nth(1).and_then(|s| s.parse().ok()).unwrap_or(5000);
    for i in 0..=far + 10 {
        if i == 0 {
            w.add_document(doc!(f => "a b c"))?;           // phrase "b c" matches, a matches
        } else if i == far - 500 {
            w.add_document(doc!(f => "b c b c"))?;         // phrase matches twice, no a: the phrase scorer waits here (beyond the union window)
        } else if i == far {
            w.add_document(doc!(f => "a b d"))?;           // b without c; d matches; a matches
        } else if i % 2 == 1 {
            w.add_document(doc!(f => "c x"))?;             // c is frequent (so that b leads the phrase intersection)
        } else {
            w.add_document(doc!(f => "x y"))?;
        }
    }
    w.commit()?;
    let searcher = index.reader()?.searcher();
    assert_eq!(searcher.segment_readers().len(), 1);
    let t = |s: &str| Term::from_field_text(f, s);
    let tq = |s: &str| -> Box<dyn Query> { Box::new(TermQuery::new(t(s), IndexRecordOption::WithFreqs)) };
    let phrase: Box<dyn Query> = Box::new(PhraseQuery::new(vec![t("b"), t("c")]));
    let inner: Box<dyn Query> = Box::new(BooleanQuery::new(vec![(Occur::Should, phrase), (Occur::Should, tq("d"))]));
    let q = BooleanQuery::new(vec![(Occur::Must, tq("a")), (Occur::Must, inner)]);
    let top = searcher.search(&q, &TopDocs::with_limit(10).order_by_score())?;
    println!("TopDocs: {top:?}");
    // reference: a fresh scorer seeked directly to each hit
    let weight = q.weight(EnableScoring::enabled_from_searcher(&searcher))?;
    let mut bad = 0;
    for (score, addr) in &top {
        let mut scorer = weight.scorer(searcher.segment_reader(addr.segment_ord), 1.0)?;
        let d = scorer.seek(addr.doc_id);
        assert_eq!(d, addr.doc_id);
        let s = scorer.score();
        let ex = q.explain(&searcher, *addr)?.value();
        println!("doc {:>5}: score via advance = {score:.6}   via fresh seek = {s:.6}   explain = {ex:.6}", addr.doc_id);
        if (s - score).abs() > 1e-6 { bad += 1; }
    }
    // and the plain advance loop
    let mut scorer = weight.scorer(searcher.segment_reader(0), 1.0)?;
    let mut d = scorer.doc();
    while d != TERMINATED { println!("advance loop: doc {d} score {:.6}", scorer.score()); d = scorer.advance(); }
    println!("mismatches={bad}");
    Ok(())
}
