use tantivy::collector::TopDocs;
use tantivy::query::AllQuery;
use tantivy::schema::*;
use tantivy::{doc, DocAddress, Index, IndexWriter, Order};
use tantivy::indexer::NoMergePolicy;

fn run(seg_keys: &[Vec<u64>], k: usize) -> tantivy::Result<bool> {
    let mut sb = Schema::builder();
    let val = sb.add_u64_field("val", FAST);
    let index = Index::create_in_ram(sb.build());
    let mut w: IndexWriter = index.writer_with_num_threads(1, 20_000_000)?;
    w.set_merge_policy(Box::new(NoMergePolicy));
    for keys in seg_keys { for &kk in keys { w.add_document(doc!(val => kk))?; } w.commit()?; }
    let searcher = index.reader()?.searcher();
    let mut all: Vec<(u64, DocAddress)> = vec![];
    for (ord, sr) in searcher.segment_readers().iter().enumerate() {
        let col = sr.fast_fields().u64("val")?;
        for d in 0..sr.max_doc() { all.push((col.first(d).unwrap(), DocAddress::new(ord as u32, d))); }
    }
    all.sort_by(|a, b| a.0.cmp(&b.0).reverse().then(a.1.cmp(&b.1)));
    all.truncate(k);
    let got: Vec<(Option<u64>, DocAddress)> = searcher.search(&AllQuery, &TopDocs::with_limit(k).order_by_fast_field::<u64>("val", Order::Desc))?;
    let got: Vec<(u64, DocAddress)> = got.into_iter().map(|(v, a)| (v.unwrap(), a)).collect();
    if got != all { println!("MISMATCH k={} segs={:?}\n got={:?}\n exp={:?}", k, seg_keys.iter().map(|s| s.len()).collect::<Vec<_>>(), got, all); return Ok(false); }
    Ok(true)
}

fn main() -> tantivy::Result<()> {
    let mut bad = 0; let mut total = 0;
    // K=4; big segment first/last, segments sorted by max_doc desc in meta (searcher order!)
    for n_tied in 4..=7usize {
      for total_docs in [12usize, 20, 40, 64] {
        for shift in 0..6usize {
            // segment with tied keys at scattered positions
            let mut big = vec![0u64; total_docs];
            let mut pos = shift;
            for _ in 0..n_tied { if pos < total_docs { big[pos] = 5; } pos += 1 + (pos % 3); }
            for layout in 0..3 {
                let s_hi = vec![9u64; 3]; let s_lo = vec![1u64; 3];
                let segs = match layout { 0 => vec![s_hi.clone(), s_lo.clone(), big.clone()], 1 => vec![big.clone(), s_hi.clone(), s_lo.clone()], _ => vec![s_hi.clone(), big.clone(), s_lo.clone()] };
                for k in [4usize, 5, 6] { total += 1; if !run(&segs, k)? { bad += 1; } }
            }
        }
      }
    }
    println!("bad={} total={}", bad, total);
    Ok(())
}
