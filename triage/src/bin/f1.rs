use tantivy::schema::*;
use tantivy::{doc, Index, IndexWriter};
fn main() -> tantivy::Result<()> {
    let dir = std::env::args().nth(1).unwrap();
    let mut sb = Schema::builder();
    let text = sb.add_text_field("text", TEXT);
    let index = Index::create_in_dir(&dir, sb.build())?;
    let mut w: IndexWriter = index.writer_with_num_threads(1, 20_000_000)?;
    w.set_merge_policy(Box::new(tantivy::indexer::NoMergePolicy));
    w.add_document(doc!(text=>"one"))?;
    eprintln!("=== BEFORE COMMIT");
    w.commit()?;
    eprintln!("=== AFTER COMMIT RETURNED");
    Ok(())
}
