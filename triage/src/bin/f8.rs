//! triage of the C16 panic-inventory site `UserInputLeaf::set_field` (Exists without a field)
use std::panic;
fn main() {
    let inputs = ["*", "* ", " *", "(*)", "a *", "a OR *", "-*", "+*", "NOT *", "title:(*)", "a AND *", "(a *)", "* a", "*)", "\"a\" *", "a:b *", "title:* *", "+(*)", "(* )", "( * )", "a:(b *)", "a:( * )", "*:*", "* OR a", "-* a", "a -*", "a +*", "a^2 *"];
    panic::set_hook(Box::new(|_| {}));
    for inp in inputs {
        let r1 = panic::catch_unwind(|| tantivy_query_grammar::parse_query(inp).is_ok());
        let r2 = panic::catch_unwind(|| { let _ = tantivy_query_grammar::parse_query_lenient(inp); });
        println!("{:12?} strict={:?} lenient_panicked={}", inp, r1.map_err(|_| "PANIC"), r2.is_err());
    }
}
