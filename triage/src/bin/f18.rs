// F52 (C14): top_hits under a high-cardinality terms aggregation: TopHitsSegmentCollector::prepare_max_bucket
// resizes its bucket vector to `max_bucket + 1` — also DOWN — and the buffered sub-aggregation flushes pass the
// largest bucket id of the current BATCH: a later batch that only touches low bucket ids truncates the hits
// collected for the higher ones.
use serde_json::{json, Value};
use tantivy::aggregation::agg_req::Aggregations;
use tantivy::aggregation::AggregationCollector;
use tantivy::query::AllQuery;
use tantivy::schema::{Schema, FAST, INDEXED, STRING};
use tantivy::{doc, Index, IndexWriter};

fn main() -> tantivy::Result<()> {
    let mut sb = Schema::builder();
    let cat = sb.add_text_field("cat", STRING | FAST);
    let id = sb.add_u64_field("id", FAST | INDEXED);
    let index = Index::create_in_ram(sb.build());
    let mut w: IndexWriter = index.writer_with_num_threads(1, 100_000_000)?;
    let n_terms = 3000u64;
    let mut next_id = 0u64;
    for t in 0..n_terms {
        w.add_document(doc!(cat => format!("t{t:05}"), id => next_id))?;
        next_id += 1;
    }
    // a long tail of documents that all belong to the first term: the last flushes only see bucket 0
    for _ in 0..6000 {
        w.add_document(doc!(cat => "t00000", id => next_id))?;
        next_id += 1;
    }
    w.commit()?;
    let req: Aggregations = serde_json::from_value(json!({
        "by_cat": { "terms": { "field": "cat", "size": 5000, "order": {"_key": "asc"} },
                    "aggs": { "top": { "top_hits": { "size": 1, "sort": [{"id": "asc"}], "docvalue_fields": ["id"] } } } }
    })).unwrap();
    let collector = AggregationCollector::from_aggs(req, Default::default());
    let res = index.reader()?.searcher().search(&AllQuery, &collector)?;
    let v: Value = serde_json::to_value(&res).unwrap();
    let buckets = v["by_cat"]["buckets"].as_array().unwrap();
    let mut empty = 0;
    let mut wrong = 0;
    for (i, b) in buckets.iter().enumerate() {
        let hits = b["top"]["hits"].as_array().unwrap();
        if hits.is_empty() { empty += 1; continue; }
        let got = hits[0]["docvalue_fields"]["id"][0].as_u64().unwrap();
        if got != i as u64 { wrong += 1; }
    }
    println!("{} term buckets; buckets whose top_hits came back empty: {empty}; with a wrong hit: {wrong}", buckets.len());
    if empty > 0 || wrong > 0 { println!("DEFECT"); std::process::exit(1); }
    Ok(())
}
