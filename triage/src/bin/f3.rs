use tantivy::collector::TopDocs;
use tantivy::query::TermQuery;
use tantivy::schema::*;
use tantivy::{doc, DocAddress, Index, IndexWriter, Order};
use tantivy::indexer::NoMergePolicy;

struct Rng(u64);
impl Rng { fn next(&mut self) -> u64 { self.0 ^= self.0 << 13; self.0 ^= self.0 >> 7; self.0 ^= self.0 << 17; self.0 } fn below(&mut self, n: u64) -> u64 { self.next() % n } }

fn main() -> tantivy::Result<()> {
    let mut rng = Rng(0x9E3779B97F4A7C15);
    let mut failures = 0;
    for trial in 0..300 {
        let mut sb = Schema::builder();
        let val = sb.add_u64_field("val", FAST);
        let tf = sb.add_text_field("t", STRING);
        let index = Index::create_in_ram(sb.build());
        let mut w: IndexWriter = index.writer_with_num_threads(1, 20_000_000)?;
        w.set_merge_policy(Box::new(NoMergePolicy));
        let nseg = 2 + rng.below(4);
        let nkeys = 1 + rng.below(3);
        for _ in 0..nseg {
            let ndocs = 1 + rng.below(300);
            let pm = 1 + rng.below(10);
            for _ in 0..ndocs { let m = if rng.below(10) < pm { "x" } else { "y" }; w.add_document(doc!(val => rng.below(nkeys), tf => m))?; }
            w.commit()?;
        }
        let searcher = index.reader()?.searcher();
        // brute force
        let mut all: Vec<(u64, DocAddress)> = vec![];
        for (ord, sr) in searcher.segment_readers().iter().enumerate() {
            let col = sr.fast_fields().u64("val")?;
            let inv = sr.inverted_index(tf)?; let mut p = inv.read_postings(&Term::from_field_text(tf, "x"), IndexRecordOption::Basic)?; if let Some(p) = p.as_mut() { use tantivy::DocSet; let mut d = p.doc(); while d != tantivy::TERMINATED { all.push((col.first(d).unwrap(), DocAddress::new(ord as u32, d))); d = p.advance(); } }
        }
        for k in [9usize, 10, 12, 16, 20, 33] {
            for order in [Order::Desc, Order::Asc] {
                let mut exp = all.clone();
                exp.sort_by(|a, b| { let c = a.0.cmp(&b.0); let c = if order == Order::Desc { c.reverse() } else { c }; c.then(a.1.cmp(&b.1)) });
                exp.truncate(k);
                let got: Vec<(Option<u64>, DocAddress)> = searcher.search(&TermQuery::new(Term::from_field_text(tf, "x"), IndexRecordOption::Basic), &TopDocs::with_limit(k).order_by_fast_field::<u64>("val", order))?;
                let got: Vec<(u64, DocAddress)> = got.into_iter().map(|(v, a)| (v.unwrap(), a)).collect();
                if got != exp {
                    failures += 1;
                    if failures <= 3 {
                        println!("MISMATCH trial={} k={} order={:?} nseg={} \n got={:?}\n exp={:?}", trial, k, order, nseg, got, exp);
                    }
                }
            }
        }
    }
    println!("failures={}", failures);
    Ok(())
}
