use tantivy::collector::{Count, DocSetCollector};
use tantivy::query::{BooleanQuery, Occur, Query, TermQuery};
use tantivy::schema::*;
use tantivy::{doc, Index, IndexWriter};
fn main() -> tantivy::Result<()> {
    let mut sb = Schema::builder();
    let text = sb.add_text_field("text", TEXT);
    let index = Index::create_in_ram(sb.build());
    let mut w: IndexWriter = index.writer_with_num_threads(1, 20_000_000)?;
    for _ in 0..5 { w.add_document(doc!(text=>"a b"))?; }
    w.commit()?;
    let searcher = index.reader()?.searcher();
    let tq = || -> Box<dyn Query> { Box::new(TermQuery::new(Term::from_field_text(text, "a"), IndexRecordOption::Basic)) };
    for (occur, min) in [(Occur::Should, 2usize), (Occur::Must, 1usize), (Occur::Should, 1usize)] {
        let q = BooleanQuery::with_minimum_required_clauses(vec![(occur, tq())], min);
        let c = searcher.search(&q, &Count)?;
        let d = searcher.search(&q, &DocSetCollector)?.len();
        let qc = q.count(&searcher)?;
        println!("occur={:?} min={} Count={} DocSet={} Query::count={}", occur, min, c, d, qc);
    }
    Ok(())
}
