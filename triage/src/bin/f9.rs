//! F8: Footer::extract_footer guards `file.len() < 4` but then reads the last 8 bytes: a segment
//! file truncated to 4..=7 bytes makes open_read / validate_checksum panic instead of reporting.
use std::path::PathBuf;
use tantivy::directory::{Directory, RamDirectory};
use tantivy::schema::*;
use tantivy::{doc, Index, IndexWriter};
fn main() -> tantivy::Result<()> {
    let n: usize = std::env::args().nth(1).and_then(|s| s.parse().ok()).unwrap_or(5);
    let dir = RamDirectory::create();
    let mut sb = Schema::builder();
    let text = sb.add_text_field("text", TEXT | STORED);
    let index = Index::create(dir.clone(), sb.build(), Default::default())?;
    let mut w: IndexWriter = index.writer_with_num_threads(1, 20_000_000)?;
    w.add_document(doc!(text => "hello"))?;
    w.commit()?;
    drop(w);
    let meta = index.searchable_segment_metas()?;
    let store: PathBuf = meta[0].list_files().into_iter().find(|p| p.to_string_lossy().ends_with(".store")).unwrap();
    let bytes = dir.open_read(&store).unwrap().read_bytes().unwrap();
    dir.atomic_write(&store, &bytes.as_slice()[..n])?; // truncate the segment file to n bytes
    let r = std::panic::catch_unwind(std::panic::AssertUnwindSafe(|| index.validate_checksum()));
    match r {
        Ok(Ok(damaged)) => println!("truncated to {n} bytes: validate_checksum -> Ok({damaged:?})"),
        Ok(Err(e)) => println!("truncated to {n} bytes: validate_checksum -> Err({e})"),
        Err(_) => println!("truncated to {n} bytes: validate_checksum PANICKED"),
    }
    Ok(())
}
