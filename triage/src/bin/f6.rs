fn main() {
    let n: usize = std::env::args().nth(1).unwrap().parse().unwrap();
    let lenient = std::env::args().nth(2).is_some();
    let q = format!("{}a{}", "(".repeat(n), ")".repeat(n));
    if lenient {
        let (_ast, errs) = tantivy_query_grammar::parse_query_lenient(&q);
        println!("lenient n={} errs={}", n, errs.len());
    } else {
        let r = tantivy_query_grammar::parse_query(&q);
        println!("strict n={} ok={}", n, r.is_ok());
    }
}
