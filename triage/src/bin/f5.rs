use std::sync::atomic::{AtomicUsize, Ordering};
use std::sync::{Arc, Barrier, Mutex, Condvar};
use tantivy::schema::*;
use tantivy::{doc, Index, IndexWriter, ReloadPolicy, Searcher, Warmer, SearcherGeneration};

struct BlockFirst { calls: AtomicUsize, gate: Mutex<bool>, cv: Condvar, entered: Barrier }
impl Warmer for BlockFirst {
    fn warm(&self, _s: &Searcher) -> tantivy::Result<()> {
        let n = self.calls.fetch_add(1, Ordering::SeqCst);
        // call 0 = reader construction, call 1 = first reload (blocked), call 2 = second reload
        if n == 1 {
            self.entered.wait();
            let mut g = self.gate.lock().unwrap();
            while !*g { g = self.cv.wait(g).unwrap(); }
        }
        Ok(())
    }
    fn garbage_collect(&self, _live: &[&SearcherGeneration]) {}
}

fn main() -> tantivy::Result<()> {
    let mut sb = Schema::builder();
    let text = sb.add_text_field("text", TEXT);
    let index = Index::create_in_ram(sb.build());
    let mut w: IndexWriter = index.writer_with_num_threads(1, 20_000_000)?;
    let warmer = Arc::new(BlockFirst { calls: AtomicUsize::new(0), gate: Mutex::new(false), cv: Condvar::new(), entered: Barrier::new(2) });
    let weak: std::sync::Weak<dyn Warmer> = Arc::downgrade(&(warmer.clone() as Arc<dyn Warmer>));
    let reader = index.reader_builder().reload_policy(ReloadPolicy::Manual).warmers(vec![weak]).try_into()?;
    w.add_document(doc!(text=>"one"))?; w.commit()?;   // commit 1
    let r1 = reader.clone();
    let t = std::thread::spawn(move || { r1.reload().unwrap(); }); // reads commit 1, blocks in warm
    warmer.entered.wait();
    w.add_document(doc!(text=>"two"))?; w.commit()?;   // commit 2
    reader.reload()?;                                   // reload #2 completes: sees 2 docs
    let after_second = reader.searcher().num_docs();
    { *warmer.gate.lock().unwrap() = true; warmer.cv.notify_all(); }
    t.join().unwrap();                                  // reload #1 completes later, publishes commit 1
    let after_first = reader.searcher().num_docs();
    println!("num_docs after reload#2 returned = {}, after the earlier-started reload#1 returned = {}", after_second, after_first);
    Ok(())
}
