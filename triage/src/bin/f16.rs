// F29/F30 (C14): bucket aggregations on a JSON date path vs the segment partition (from hunts/hunt5 F1)
// C14: aggregation results must not depend on how documents are distributed over segments.
use serde_json::{json, Value};
use tantivy::aggregation::agg_req::Aggregations;
use tantivy::aggregation::AggregationCollector;
use tantivy::query::AllQuery;
use tantivy::schema::{Schema, FAST, INDEXED, STRING};
use tantivy::{DateTime, Index, IndexWriter, TantivyDocument};

fn run(index: &Index, req: &Value) -> Value {
    let agg: Aggregations = serde_json::from_value(req.clone()).unwrap();
    let collector = AggregationCollector::from_aggs(agg, Default::default());
    let searcher = index.reader().unwrap().searcher();
    match searcher.search(&AllQuery, &collector) {
        Ok(res) => serde_json::to_value(&res).unwrap(),
        Err(e) => json!({ "ERROR": format!("{e:?}") }),
    }
}

fn build_json(segments: &[Vec<Value>]) -> Index {
    let mut sb = Schema::builder();
    let js = sb.add_json_field("attr", FAST | STRING);
    let index = Index::create_in_ram(sb.build());
    let mut w: IndexWriter = index.writer_with_num_threads(1, 20_000_000).unwrap();
    w.set_merge_policy(Box::new(tantivy::merge_policy::NoMergePolicy));
    for seg in segments {
        for d in seg {
            let mut doc = TantivyDocument::default();
            let mut obj: std::collections::BTreeMap<String, tantivy::schema::OwnedValue> =
                serde_json::from_value(d.clone()).unwrap();
            if let Some(tantivy::schema::OwnedValue::I64(secs)) = obj.get("date").cloned() {
                obj.insert(
                    "date".to_string(),
                    tantivy::schema::OwnedValue::Date(DateTime::from_timestamp_secs(secs)),
                );
            }
            if let Some(tantivy::schema::OwnedValue::U64(secs)) = obj.get("date").cloned() {
                obj.insert(
                    "date".to_string(),
                    tantivy::schema::OwnedValue::Date(DateTime::from_timestamp_secs(secs as i64)),
                );
            }
            doc.add_object(js, obj);
            w.add_document(doc).unwrap();
        }
        w.commit().unwrap();
    }
    index
}


fn main() {
    let docs = vec![
        json!({"id": "a", "date": 1600000000}),
        json!({"id": "b", "date": 1600003600}),
        json!({"id": "c"}),
        json!({"id": "d"}),
    ];
    let mut failures = 0;
    for (name, req) in [
        ("date_histogram", json!({ "h": { "date_histogram": { "field": "attr.date", "fixed_interval": "1h" } } })),
        ("histogram", json!({ "h": { "histogram": { "field": "attr.date", "interval": 3600000 } } })),
        ("range", json!({ "h": { "range": { "field": "attr.date", "ranges": [ {"to": 1600000000000000000.0f64}, {"from": 1600000000000000000.0f64} ] } } })),
    ] {
        let expected = run(&build_json(&[docs.clone()]), &req);
        let short = |v: &Value| { let s = v.to_string(); if s.len() > 110 { format!("{}...", &s[..110]) } else { s } };
        println!("{name:15} single segment : {}", short(&expected));
        // the order of the segments in a searcher follows their (random) ids: repeat
        let mut differs = 0;
        let mut example = None;
        for _ in 0..12 {
            for parts in [[docs[2..].to_vec(), docs[..2].to_vec()], [docs[..2].to_vec(), docs[2..].to_vec()]] {
                let got = run(&build_json(&parts), &req);
                if got != expected { differs += 1; example.get_or_insert(got); }
            }
        }
        println!("{name:15} two segments   : {differs} of 24 builds differ{}", example.map(|e| format!(", e.g. {}", short(&e))).unwrap_or_default());
        if differs > 0 { failures += 1; }
    }
    println!("requests whose result depends on the partition: {failures} of 3");
    std::process::exit(if failures > 0 { 1 } else { 0 });
}
