//! F5 after the fix: same gate as f5b, but reload #2 runs on its own thread (it now has to wait
//! for reload #1).  Expected: the reader ends on commit 2 (num_docs=2), never moves back.
include!("f5b_common.rs");
fn main() -> tantivy::Result<()> {
    let gate = Arc::new(Gate::default());
    let dir = GateDir { inner: RamDirectory::create(), gate: gate.clone() };
    let mut sb = Schema::builder();
    let text = sb.add_text_field("text", TEXT | STORED);
    let index = Index::create(dir, sb.build(), Default::default())?;
    let mut w: IndexWriter = index.writer_with_num_threads(1, 20_000_000)?;
    w.set_merge_policy(Box::new(tantivy::indexer::NoMergePolicy));
    let reader = index.reader_builder().reload_policy(ReloadPolicy::Manual).try_into()?;
    w.add_document(doc!(text=>"one"))?; w.commit()?;
    let r1 = reader.clone();
    let t1 = std::thread::spawn(move || { ARMED.with(|a| a.set(1)); r1.reload().unwrap(); });
    { let mut st = gate.state.lock().unwrap(); while !st.0 { st = gate.cv.wait(st).unwrap(); } }
    w.add_document(doc!(text=>"two"))?; w.commit()?;
    let r2 = reader.clone();
    let t2 = std::thread::spawn(move || { r2.reload().unwrap(); });
    std::thread::sleep(std::time::Duration::from_millis(400));
    println!("while reload#1 is stalled and reload#2 was started: num_docs={}", reader.searcher().num_docs());
    { let mut st = gate.state.lock().unwrap(); st.1 = true; gate.cv.notify_all(); }
    t1.join().unwrap(); t2.join().unwrap();
    println!("after both reloads returned: num_docs={}", reader.searcher().num_docs());
    Ok(())
}
