//! F2: a crash between the (un-synced) rename of `.managed.json` and the creation of the file it
//! registers leaves a file that no later GC removes.
//! Storage model of the property: directory-entry operations (create / rename / unlink) issued
//! since the last `sync_directory` are each "applied or not" at a crash.  The crash image chosen
//! here applies the creations and drops the pending `.managed.json` renames.
use std::collections::{BTreeMap, BTreeSet};
use std::io::{self, Write};
use std::path::{Path, PathBuf};
use std::sync::{Arc, Mutex};

use tantivy::directory::error::{DeleteError, OpenReadError, OpenWriteError};
use tantivy::directory::{Directory, FileHandle, RamDirectory, TerminatingWrite, WatchCallback, WatchHandle, WritePtr};
use tantivy::schema::*;
use tantivy::{doc, Index, IndexWriter};

#[derive(Default, Debug)]
struct State {
    visible: BTreeSet<PathBuf>,
    /// durable atomic-write contents (as of the last sync_directory)
    durable_atomic: BTreeMap<PathBuf, Vec<u8>>,
    pending_atomic: BTreeMap<PathBuf, Vec<u8>>,
    log: Vec<String>,
}

#[derive(Clone, Debug)]
struct CrashDir { inner: RamDirectory, st: Arc<Mutex<State>> }

impl Directory for CrashDir {
    fn get_file_handle(&self, path: &Path) -> Result<Arc<dyn FileHandle>, OpenReadError> { self.inner.get_file_handle(path) }
    fn delete(&self, path: &Path) -> Result<(), DeleteError> {
        let mut st = self.st.lock().unwrap();
        st.visible.remove(path);
        st.log.push(format!("unlink {path:?}"));
        drop(st);
        self.inner.delete(path)
    }
    fn exists(&self, path: &Path) -> Result<bool, OpenReadError> { self.inner.exists(path) }
    fn open_write(&self, path: &Path) -> Result<WritePtr, OpenWriteError> {
        let w = self.inner.open_write(path)?;
        let mut st = self.st.lock().unwrap();
        st.visible.insert(path.to_path_buf());
        st.log.push(format!("create {path:?}"));
        Ok(w)
    }
    fn atomic_read(&self, path: &Path) -> Result<Vec<u8>, OpenReadError> { self.inner.atomic_read(path) }
    fn atomic_write(&self, path: &Path, data: &[u8]) -> io::Result<()> {
        let mut st = self.st.lock().unwrap();
        st.visible.insert(path.to_path_buf());
        st.pending_atomic.insert(path.to_path_buf(), data.to_vec());
        st.log.push(format!("rename -> {path:?} ({} bytes, not yet synced)", data.len()));
        drop(st);
        self.inner.atomic_write(path, data)
    }
    fn sync_directory(&self) -> io::Result<()> {
        let mut st = self.st.lock().unwrap();
        let pend = std::mem::take(&mut st.pending_atomic);
        st.durable_atomic.extend(pend);
        st.log.push("sync_directory".to_string());
        Ok(())
    }
    fn watch(&self, cb: WatchCallback) -> tantivy::Result<WatchHandle> { self.inner.watch(cb) }
}

fn main() -> tantivy::Result<()> {
    let dir = CrashDir { inner: RamDirectory::create(), st: Default::default() };
    let mut sb = Schema::builder();
    let text = sb.add_text_field("text", TEXT | STORED);
    let index = Index::create(dir.clone(), sb.build(), Default::default())?;
    let mut w: IndexWriter = index.writer_with_num_threads(1, 20_000_000)?;
    w.add_document(doc!(text => "first"))?;
    w.commit()?;
    let mark = dir.st.lock().unwrap().log.len();
    // second segment: the worker creates its files as soon as it sees the document
    w.add_document(doc!(text => "second"))?;
    std::thread::sleep(std::time::Duration::from_millis(500));
    // ---- crash here (no commit) ----
    let st = dir.st.lock().unwrap();
    println!("operations since the last commit returned:");
    for l in &st.log[mark..] { println!("   {l}"); }
    // crash image: every created file exists; atomic files have their last *synced* content
    let image = RamDirectory::create();
    for p in st.visible.iter() {
        let data: Vec<u8> = if let Some(d) = st.durable_atomic.get(p) { d.clone() }
            else if st.pending_atomic.contains_key(p) { continue }
            else { dir.inner.open_read(p).map(|s| s.read_bytes().unwrap().as_slice().to_vec()).unwrap_or_default() };
        if p.to_string_lossy().starts_with(".tantivy") { continue; } // lock files die with the process
        if st.durable_atomic.contains_key(p) { image.atomic_write(p, &data)?; }
        else { let mut wr = image.open_write(p).unwrap(); wr.write_all(&data)?; wr.terminate()?; }
    }
    let before: BTreeSet<PathBuf> = st.visible.iter().filter(|p| !p.to_string_lossy().starts_with(".tantivy")).cloned().collect();
    drop(st);
    std::mem::forget(w); // the process is gone
    // ---- recovery: open, commit, collect ----
    let rdir = CrashDir { inner: image, st: Default::default() };
    rdir.st.lock().unwrap().visible = before.clone();
    let rindex = Index::open(rdir.clone())?;
    let mut rw: IndexWriter = rindex.writer_with_num_threads(1, 20_000_000)?;
    rw.add_document(doc!(text => "third"))?;
    rw.commit()?;
    rw.garbage_collect_files().wait()?;
    rw.wait_merging_threads()?;
    let metas = rindex.searchable_segment_metas()?;
    let mut needed: BTreeSet<PathBuf> = metas.iter().flat_map(|m| m.list_files()).collect();
    needed.insert(PathBuf::from("meta.json"));
    needed.insert(PathBuf::from(".managed.json"));
    let present = rdir.st.lock().unwrap().visible.clone();
    let orphans: Vec<_> = present.iter().filter(|p| !needed.contains(*p) && !p.to_string_lossy().starts_with(".tantivy")).collect();
    println!("after recovery + commit + GC: {} files present, {} needed", present.len(), needed.len());
    println!("ORPHANS (exist, unreferenced, never collected): {orphans:?}");
    let managed = String::from_utf8_lossy(&rdir.inner.atomic_read(Path::new(".managed.json")).unwrap()).to_string();
    for o in &orphans { println!("   {:?} listed in .managed.json: {}", o, managed.contains(&*o.to_string_lossy())); }
    Ok(())
}
