// F5: two overlapping reload()s publish in the opposite order of their meta.json reads.
// Gate: a wrapper Directory whose FileHandle::read_bytes blocks the *first* reload at the
// `.store` read done by SearcherInner::new, i.e. after META_LOCK was released and before the
// ArcSwap::store. Public traits only.
use std::cell::Cell;
use std::io;
use std::ops::Range;
use std::path::{Path, PathBuf};
use std::sync::{Arc, Condvar, Mutex};

use tantivy::directory::error::{DeleteError, OpenReadError, OpenWriteError};
use tantivy::directory::{Directory, FileHandle, OwnedBytes, RamDirectory, WatchCallback, WatchHandle, WritePtr};
use tantivy::schema::*;
use tantivy::{doc, HasLen, Index, IndexWriter, ReloadPolicy};

thread_local! { static ARMED: Cell<u8> = Cell::new(0); } // 0 = off, 1 = armed, 2 = lock released

#[derive(Default)]
struct Gate { state: Mutex<(bool, bool)>, cv: Condvar } // (blocked_reached, released)

#[derive(Clone, Debug)]
struct GateDir { inner: RamDirectory, gate: Arc<Gate> }
impl std::fmt::Debug for Gate { fn fmt(&self, f: &mut std::fmt::Formatter<'_>) -> std::fmt::Result { write!(f, "Gate") } }

#[derive(Debug)]
struct GateHandle { inner: Arc<dyn FileHandle>, path: PathBuf, gate: Arc<Gate> }
impl HasLen for GateHandle { fn len(&self) -> usize { self.inner.len() } }
impl FileHandle for GateHandle {
    fn read_bytes(&self, range: Range<usize>) -> io::Result<OwnedBytes> {
        if ARMED.with(|a| a.get()) == 2 && self.path.to_string_lossy().ends_with(".store") {
            ARMED.with(|a| a.set(0));
            let mut st = self.gate.state.lock().unwrap();
            st.0 = true; self.gate.cv.notify_all();
            while !st.1 { st = self.gate.cv.wait(st).unwrap(); }
        }
        self.inner.read_bytes(range)
    }
}
impl Directory for GateDir {
    fn get_file_handle(&self, path: &Path) -> Result<Arc<dyn FileHandle>, OpenReadError> {
        let inner = self.inner.get_file_handle(path)?;
        Ok(Arc::new(GateHandle { inner, path: path.to_path_buf(), gate: self.gate.clone() }))
    }
    fn delete(&self, path: &Path) -> Result<(), DeleteError> {
        if path == Path::new(".tantivy-meta.lock") && ARMED.with(|a| a.get()) == 1 { ARMED.with(|a| a.set(2)); }
        self.inner.delete(path)
    }
    fn exists(&self, path: &Path) -> Result<bool, OpenReadError> { self.inner.exists(path) }
    fn open_write(&self, path: &Path) -> Result<WritePtr, OpenWriteError> { self.inner.open_write(path) }
    fn atomic_read(&self, path: &Path) -> Result<Vec<u8>, OpenReadError> { self.inner.atomic_read(path) }
    fn atomic_write(&self, path: &Path, data: &[u8]) -> io::Result<()> { self.inner.atomic_write(path, data) }
    fn sync_directory(&self) -> io::Result<()> { self.inner.sync_directory() }
    fn watch(&self, cb: WatchCallback) -> tantivy::Result<WatchHandle> { self.inner.watch(cb) }
}

