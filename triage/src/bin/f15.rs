// F28 (C08): Column<u64> over an IP column opened "as compact u64" — value-range lookup with a bound
// above u32::MAX: the accessor narrows the bounds with a bare `as u32`.
use std::net::Ipv6Addr;
use tantivy::schema::{Schema, FAST, STORED};
use tantivy::{doc, Index, IndexWriter};

fn main() -> tantivy::Result<()> {
    let mut sb = Schema::builder();
    let ip = sb.add_ip_addr_field("ip", FAST | STORED);
    let index = Index::create_in_ram(sb.build());
    let mut w: IndexWriter = index.writer_with_num_threads(1, 20_000_000)?;
    for i in 0..10u32 {
        w.add_document(doc!(ip => Ipv6Addr::from(u128::from(i) * 1_000_003u128 + 7)))?;
    }
    w.commit()?;
    let searcher = index.reader()?.searcher();
    let seg = searcher.segment_reader(0);
    let (col, _ty) = seg.fast_fields().u64_lenient("ip")?.expect("ip column");
    println!("column: min={} max={} num_docs={}", col.min_value(), col.max_value(), col.num_docs());
    let mut all: Vec<u32> = Vec::new();
    col.get_docids_for_value_range(0..=u32::MAX as u64, 0..seg.max_doc(), &mut all);
    println!("range 0..=u32::MAX      -> {} docs", all.len());
    let mut wide: Vec<u32> = Vec::new();
    col.get_docids_for_value_range(0..=(1u64 << 32), 0..seg.max_doc(), &mut wide);
    println!("range 0..=2^32          -> {} docs (every value is in range: expected {})", wide.len(), all.len());
    let mut wide2: Vec<u32> = Vec::new();
    col.get_docids_for_value_range(((1u64 << 32) + 3)..=((1u64 << 32) + 5), 0..seg.max_doc(), &mut wide2);
    println!("range 2^32+3..=2^32+5   -> {} docs (no value is in range: expected 0)", wide2.len());
    // brute-force comparison over ranges around and inside the domain
    let vals: Vec<u64> = (0..seg.max_doc()).map(|d| col.first(d).unwrap()).collect();
    let mut bad = 0;
    let probes: Vec<u64> = vec![0, 1, 2, 5, 1_000_003, 1_000_010, 9_000_028, 9_000_029, u32::MAX as u64, 1 << 32, u64::MAX];
    for &a in &probes {
        for &b in &probes {
            let expected: Vec<u32> = (0..seg.max_doc()).filter(|&d| a <= vals[d as usize] && vals[d as usize] <= b).collect();
            let mut got = Vec::new();
            col.get_docids_for_value_range(a..=b, 0..seg.max_doc(), &mut got);
            if got != expected { bad += 1; println!("range {a}..={b}: got {got:?} expected {expected:?}"); }
        }
    }
    println!("brute-force mismatches: {bad} of {}", probes.len() * probes.len());
    if bad > 0 || wide.len() != all.len() || !wide2.is_empty() {
        println!("DEFECT");
        std::process::exit(1);
    }
    Ok(())
}
